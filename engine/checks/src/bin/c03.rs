//! C03 — Transaction and block-header wire codecs are faithful and canonical.
//!
//! Structured half: transactions built (a) by the repository's own `arb_txdata(branch)` strategies
//! and (b) by harness "shape" strategies (every valid (version, branch) pair, empty/None bundle
//! combinations, CompactSize-boundary counts and script lengths, lock_time/expiry extremes, Sprout
//! bundles, Sapling with shared/distinct anchors, Orchard and Ironwood bundles with every flag byte)
//! are serialised, compared with a reference serialiser written from the protocol spec §7.1 /
//! ZIP 225 / ZIP 229, parsed back, compared field by field through the public accessors, compared
//! by txid / auth commitment, and serialised again (byte identity).
//!
//! Byte half: valid encodings are mutated (truncation, extension, single-byte mutation, located
//! count-field / amount-field mutation found by the harness's own layout walker, header swaps) and
//! every mutated input goes through `check_tx_bytes` / `check_header_bytes`, which are written so
//! that a libFuzzer target can call them unchanged.
//!
//! `encoding-combinators`: the LOCAL `components/zcash_encoding` 0.5 against a reference CompactSize.

use std::io::{Cursor, Read, Write};

use ff::{Field, PrimeField};
use group::{Group, GroupEncoding};
use pasta_curves::pallas;
use proptest::prelude::*;
use rand_chacha::ChaCha8Rng;
use rand_core::{RngCore, SeedableRng};
use sha2::{Digest, Sha256};
use vcore::{catch, hash64, panic_site, pick_index, vensure, vensure_eq, vfail, CaseResult, Ctx, Fail, Obs};

use orchard::{
    bundle::{Authorized as OAuthorized, BundleVersion, Flags},
    note::{ExtractedNoteCommitment as OCmx, Nullifier as ONullifier, TransmittedNoteCiphertext},
    primitives::redpallas,
    value::ValueCommitment as OValueCommitment,
    Action, Anchor, Proof, ValuePool,
};
use sapling::{
    bundle::{Authorized as SAuthorized, OutputDescription, SpendDescription},
    note::ExtractedNoteCommitment as SCmu,
    value::ValueCommitment as SValueCommitment,
    Nullifier as SNullifier,
};
use zcash_encoding_local as zel;
use zcash_note_encryption::EphemeralKeyBytes;
use zcash_primitives::{
    block::{BlockHash, BlockHeader, BlockHeaderData},
    transaction::{
        components::{orchard::bundle_version_for_branch, sprout},
        testing as tx_testing,
        tests::data as vectors,
        Authorized, Transaction, TransactionData, TxVersion,
    },
};
use zcash_protocol::{
    consensus::BranchId,
    value::{ZatBalance, Zatoshis, MAX_MONEY},
};
use zcash_transparent::{
    address::Script,
    bundle::{self as tb, OutPoint, TxIn, TxOut},
};

type OBundle = orchard::Bundle<OAuthorized, ZatBalance>;
type SBundle = sapling::Bundle<SAuthorized, ZatBalance>;

const MAXM: i64 = MAX_MONEY as i64;
const MAX_COMPACT: u64 = 0x0200_0000;

/// Every consensus branch, in activation order. `branch_selector % 11` indexes this table.
pub const BRANCHES: [BranchId; 11] = [
    BranchId::Sprout,
    BranchId::Overwinter,
    BranchId::Sapling,
    BranchId::Blossom,
    BranchId::Heartwood,
    BranchId::Canopy,
    BranchId::Nu5,
    BranchId::Nu6,
    BranchId::Nu6_1,
    BranchId::Nu6_2,
    BranchId::Nu6_3,
];

fn branch_sel(b: BranchId) -> u8 {
    BRANCHES.iter().position(|x| *x == b).expect("known branch") as u8
}

// Version constants from the protocol specification §7.1 / ZIP 202 / 243 / 225 / 229.
const V3_HEADER: u32 = 0x8000_0003;
const V4_HEADER: u32 = 0x8000_0004;
const V5_HEADER: u32 = 0x8000_0005;
const V6_HEADER: u32 = 0x8000_0006;
const V3_VGID: u32 = 0x03C4_8270;
const V4_VGID: u32 = 0x892F_2085;
const V5_VGID: u32 = 0x26A7_270A;
const V6_VGID: u32 = 0xD884_B698;

#[derive(Clone, Copy, Debug, PartialEq, Eq)]
enum VK {
    Sprout,
    V3,
    V4,
    V5,
    V6,
}

/// Every (version kind, branch) pair in which the version is valid (`TxVersion::valid_in_branch`).
const PAIRS: [(VK, BranchId); 17] = [
    (VK::Sprout, BranchId::Sprout),
    (VK::V3, BranchId::Overwinter),
    (VK::V4, BranchId::Sapling),
    (VK::V4, BranchId::Blossom),
    (VK::V4, BranchId::Heartwood),
    (VK::V4, BranchId::Canopy),
    (VK::V4, BranchId::Nu5),
    (VK::V4, BranchId::Nu6),
    (VK::V4, BranchId::Nu6_1),
    (VK::V4, BranchId::Nu6_2),
    (VK::V4, BranchId::Nu6_3),
    (VK::V5, BranchId::Nu5),
    (VK::V5, BranchId::Nu6),
    (VK::V5, BranchId::Nu6_1),
    (VK::V5, BranchId::Nu6_2),
    (VK::V5, BranchId::Nu6_3),
    (VK::V6, BranchId::Nu6_3),
];

fn vk_of(v: TxVersion) -> VK {
    match v {
        TxVersion::Sprout(_) => VK::Sprout,
        TxVersion::V3 => VK::V3,
        TxVersion::V4 => VK::V4,
        TxVersion::V5 => VK::V5,
        TxVersion::V6 => VK::V6,
    }
}

fn vk_label(vk: VK, sprout_version: u32) -> &'static str {
    match vk {
        VK::Sprout if sprout_version == 1 => "v1",
        VK::Sprout if sprout_version == 2 => "v2",
        VK::Sprout => "sprout-version>=3",
        VK::V3 => "v3",
        VK::V4 => "v4",
        VK::V5 => "v5",
        VK::V6 => "v6",
    }
}

pub fn sha256d(b: &[u8]) -> [u8; 32] {
    Sha256::digest(Sha256::digest(b)).into()
}

fn hx(b: &[u8]) -> String {
    if b.len() <= 1600 {
        hex::encode(b)
    } else {
        format!("{}…[{} bytes]…{}", hex::encode(&b[..1200]), b.len(), hex::encode(&b[b.len() - 200..]))
    }
}

/// Deterministic filler bytes (splitmix64 stream).
fn fill(seed: u64, len: usize) -> Vec<u8> {
    let mut out = Vec::with_capacity(len + 8);
    let mut s = seed;
    while out.len() < len {
        s = s.wrapping_add(0x9e37_79b9_7f4a_7c15);
        let mut z = s;
        z = (z ^ (z >> 30)).wrapping_mul(0xbf58_476d_1ce4_e5b9);
        z = (z ^ (z >> 27)).wrapping_mul(0x94d0_49bb_1331_11eb);
        z ^= z >> 31;
        out.extend_from_slice(&z.to_le_bytes());
    }
    out.truncate(len);
    out
}

fn fill_arr<const N: usize>(seed: u64) -> [u8; N] {
    let v = fill(seed, N);
    let mut a = [0u8; N];
    a.copy_from_slice(&v);
    a
}

// ---------------------------------------------------------------------------------------------
// Reference CompactSize (Bitcoin-style; canonical; Zcash bound MAX_COMPACT_SIZE = 0x02000000)
// ---------------------------------------------------------------------------------------------

fn ref_compact(v: u64, out: &mut Vec<u8>) {
    if v < 253 {
        out.push(v as u8);
    } else if v <= 0xffff {
        out.push(0xfd);
        out.extend_from_slice(&(v as u16).to_le_bytes());
    } else if v <= 0xffff_ffff {
        out.push(0xfe);
        out.extend_from_slice(&(v as u32).to_le_bytes());
    } else {
        out.push(0xff);
        out.extend_from_slice(&v.to_le_bytes());
    }
}

fn ref_compact_vec(v: u64) -> Vec<u8> {
    let mut o = vec![];
    ref_compact(v, &mut o);
    o
}

fn canonical_form(v: u64) -> u8 {
    if v < 253 {
        0
    } else if v <= 0xffff {
        1
    } else if v <= 0xffff_ffff {
        2
    } else {
        3
    }
}

/// Encodes `v` in form 1 (fd+u16), 2 (fe+u32) or 3 (ff+u64). None if it does not fit.
fn compact_in_form(v: u64, form: u8) -> Option<Vec<u8>> {
    let mut out = vec![];
    match form {
        0 if v < 253 => out.push(v as u8),
        1 if v <= 0xffff => {
            out.push(0xfd);
            out.extend_from_slice(&(v as u16).to_le_bytes());
        }
        2 if v <= 0xffff_ffff => {
            out.push(0xfe);
            out.extend_from_slice(&(v as u32).to_le_bytes());
        }
        3 => {
            out.push(0xff);
            out.extend_from_slice(&v.to_le_bytes());
        }
        _ => return None,
    }
    Some(out)
}

#[derive(Clone, Copy, Debug, PartialEq, Eq)]
enum Rej {
    Eof,
    NonCanonical,
    TooLarge,
}

/// Reference decoder: (value, bytes used). Bounded = enforce MAX_COMPACT_SIZE.
fn ref_read_compact(b: &[u8], bounded: bool) -> Result<(u64, usize), Rej> {
    let flag = *b.first().ok_or(Rej::Eof)?;
    let (v, used) = match flag {
        0..=252 => (flag as u64, 1),
        253 => {
            let x = b.get(1..3).ok_or(Rej::Eof)?;
            let v = u16::from_le_bytes(x.try_into().unwrap()) as u64;
            if v < 253 {
                return Err(Rej::NonCanonical);
            }
            (v, 3)
        }
        254 => {
            let x = b.get(1..5).ok_or(Rej::Eof)?;
            let v = u32::from_le_bytes(x.try_into().unwrap()) as u64;
            if v <= 0xffff {
                return Err(Rej::NonCanonical);
            }
            (v, 5)
        }
        255 => {
            let x = b.get(1..9).ok_or(Rej::Eof)?;
            let v = u64::from_le_bytes(x.try_into().unwrap());
            if v <= 0xffff_ffff {
                return Err(Rej::NonCanonical);
            }
            (v, 9)
        }
    };
    if bounded && v > MAX_COMPACT {
        return Err(Rej::TooLarge);
    }
    Ok((v, used))
}

// ---------------------------------------------------------------------------------------------
// Field dump through the public accessors (no PartialEq on the bundle types)
// ---------------------------------------------------------------------------------------------

#[derive(Clone, PartialEq, Eq)]
struct Item {
    sect: &'static str,
    idx: u32,
    field: &'static str,
    data: Vec<u8>,
}

#[derive(Clone, PartialEq, Eq, Default)]
struct Dump(Vec<Item>);

impl Dump {
    fn put(&mut self, sect: &'static str, idx: u32, field: &'static str, data: &[u8]) {
        self.0.push(Item {
            sect,
            idx,
            field,
            data: data.to_vec(),
        });
    }
    /// Description of the first difference, if any.
    fn diff(&self, other: &Dump) -> Option<String> {
        for (a, b) in self.0.iter().zip(other.0.iter()) {
            if a != b {
                return Some(format!(
                    "{}[{}].{}: {} vs {}[{}].{}: {}",
                    a.sect,
                    a.idx,
                    a.field,
                    hx(&a.data),
                    b.sect,
                    b.idx,
                    b.field,
                    hx(&b.data)
                ));
            }
        }
        if self.0.len() != other.0.len() {
            return Some(format!("different number of fields: {} vs {}", self.0.len(), other.0.len()));
        }
        None
    }
}

fn version_words(v: TxVersion) -> (u32, Option<u32>) {
    match v {
        TxVersion::Sprout(n) => (n, None),
        TxVersion::V3 => (V3_HEADER, Some(V3_VGID)),
        TxVersion::V4 => (V4_HEADER, Some(V4_VGID)),
        TxVersion::V5 => (V5_HEADER, Some(V5_VGID)),
        TxVersion::V6 => (V6_HEADER, Some(V6_VGID)),
    }
}

fn dump_orchard(d: &mut Dump, sect: &'static str, act_sect: &'static str, b: Option<&OBundle>) {
    match b {
        None => d.put(sect, 0, "present", &[0]),
        Some(b) => {
            d.put(sect, 0, "present", &[1]);
            d.put(sect, 0, "bundle_version", format!("{:?}", b.bundle_version()).as_bytes());
            d.put(
                sect,
                0,
                "flags",
                &[
                    b.flags().spends_enabled() as u8,
                    b.flags().outputs_enabled() as u8,
                    b.flags().cross_address_enabled() as u8,
                ],
            );
            d.put(sect, 0, "flag_byte", &[b.flag_byte()]);
            d.put(sect, 0, "value_balance", &i64::from(*b.value_balance()).to_le_bytes());
            d.put(sect, 0, "anchor", &b.anchor().to_bytes());
            d.put(sect, 0, "proof", b.authorization().proof().as_ref());
            d.put(sect, 0, "binding_sig", &<[u8; 64]>::from(b.authorization().binding_signature()));
            d.put(sect, 0, "n_actions", &(b.actions().len() as u64).to_le_bytes());
            for (i, a) in b.actions().iter().enumerate() {
                let i = i as u32;
                d.put(act_sect, i, "cv_net", &a.cv_net().to_bytes());
                d.put(act_sect, i, "nullifier", &a.nullifier().to_bytes());
                d.put(act_sect, i, "rk", &<[u8; 32]>::from(a.rk()));
                d.put(act_sect, i, "cmx", &a.cmx().to_bytes());
                d.put(act_sect, i, "epk", &a.encrypted_note().epk_bytes);
                d.put(act_sect, i, "enc_ciphertext", &a.encrypted_note().enc_ciphertext);
                d.put(act_sect, i, "out_ciphertext", &a.encrypted_note().out_ciphertext);
                d.put(act_sect, i, "spend_auth_sig", &<[u8; 64]>::from(a.authorization()));
            }
        }
    }
}

fn dump_tx(tx: &TransactionData<Authorized>) -> Dump {
    let mut d = Dump::default();
    let (h, g) = version_words(tx.version());
    d.put("header", 0, "version", &h.to_le_bytes());
    d.put("header", 0, "version_group_id", &g.unwrap_or(0).to_le_bytes());
    d.put("header", 0, "consensus_branch_id", &u32::from(tx.consensus_branch_id()).to_le_bytes());
    d.put("header", 0, "lock_time", &tx.lock_time().to_le_bytes());
    d.put("header", 0, "expiry_height", &u32::from(tx.expiry_height()).to_le_bytes());
    match tx.transparent_bundle() {
        None => d.put("transparent", 0, "present", &[0]),
        Some(b) => {
            d.put("transparent", 0, "present", &[1]);
            d.put("transparent", 0, "n_vin", &(b.vin.len() as u64).to_le_bytes());
            d.put("transparent", 0, "n_vout", &(b.vout.len() as u64).to_le_bytes());
            for (i, t) in b.vin.iter().enumerate() {
                let i = i as u32;
                d.put("vin", i, "prevout_hash", t.prevout().hash());
                d.put("vin", i, "prevout_n", &t.prevout().n().to_le_bytes());
                d.put("vin", i, "script_sig", &t.script_sig().0 .0);
                d.put("vin", i, "sequence", &t.sequence().to_le_bytes());
            }
            for (i, t) in b.vout.iter().enumerate() {
                let i = i as u32;
                d.put("vout", i, "value", &t.value().into_u64().to_le_bytes());
                d.put("vout", i, "script_pubkey", &t.script_pubkey().0 .0);
            }
        }
    }
    match tx.sprout_bundle() {
        None => d.put("sprout", 0, "present", &[0]),
        Some(b) => {
            d.put("sprout", 0, "present", &[1]);
            d.put("sprout", 0, "n_joinsplits", &(b.joinsplits.len() as u64).to_le_bytes());
            d.put("sprout", 0, "joinsplit_pubkey", &b.joinsplit_pubkey);
            d.put("sprout", 0, "joinsplit_sig", &b.joinsplit_sig);
            for (i, js) in b.joinsplits.iter().enumerate() {
                let i = i as u32;
                d.put("joinsplit", i, "vpub_old", &i64::from(js.vpub_old()).to_le_bytes());
                d.put("joinsplit", i, "vpub_new", &i64::from(js.vpub_new()).to_le_bytes());
                d.put("joinsplit", i, "anchor", js.anchor());
                d.put("joinsplit", i, "nullifiers", &js.nullifiers().concat());
                d.put("joinsplit", i, "commitments", &js.commitments().concat());
                d.put("joinsplit", i, "random_seed", js.random_seed());
                d.put("joinsplit", i, "macs", &js.macs().concat());
                // ephemeral key, ciphertexts and a PHGR proof have no accessor: compare the whole
                // description through its own writer.
                let mut w = vec![];
                let _ = js.write(&mut w);
                d.put("joinsplit", i, "written", &w);
            }
        }
    }
    match tx.sapling_bundle() {
        None => d.put("sapling", 0, "present", &[0]),
        Some(b) => {
            d.put("sapling", 0, "present", &[1]);
            d.put("sapling", 0, "value_balance", &i64::from(*b.value_balance()).to_le_bytes());
            d.put("sapling", 0, "binding_sig", &<[u8; 64]>::from(b.authorization().binding_sig));
            d.put("sapling", 0, "n_spends", &(b.shielded_spends().len() as u64).to_le_bytes());
            d.put("sapling", 0, "n_outputs", &(b.shielded_outputs().len() as u64).to_le_bytes());
            for (i, s) in b.shielded_spends().iter().enumerate() {
                let i = i as u32;
                d.put("spend", i, "cv", &s.cv().to_bytes());
                d.put("spend", i, "anchor", &s.anchor().to_repr());
                d.put("spend", i, "nullifier", &s.nullifier().0);
                d.put("spend", i, "rk", &<[u8; 32]>::from(*s.rk()));
                d.put("spend", i, "zkproof", &s.zkproof()[..]);
                d.put("spend", i, "spend_auth_sig", &<[u8; 64]>::from(*s.spend_auth_sig()));
            }
            for (i, o) in b.shielded_outputs().iter().enumerate() {
                let i = i as u32;
                d.put("output", i, "cv", &o.cv().to_bytes());
                d.put("output", i, "cmu", &o.cmu().to_bytes());
                d.put("output", i, "ephemeral_key", &o.ephemeral_key().0);
                d.put("output", i, "enc_ciphertext", &o.enc_ciphertext()[..]);
                d.put("output", i, "out_ciphertext", &o.out_ciphertext()[..]);
                d.put("output", i, "zkproof", &o.zkproof()[..]);
            }
        }
    }
    dump_orchard(&mut d, "orchard", "orchard-action", tx.orchard_bundle());
    dump_orchard(&mut d, "ironwood", "ironwood-action", tx.ironwood_bundle());
    d
}

/// Every accepted amount is inside the money range (checked on the parsed value).
fn check_money(tx: &TransactionData<Authorized>) -> Result<(), Fail> {
    let bal_ok = |v: i64| (-MAXM..=MAXM).contains(&v);
    if let Some(b) = tx.transparent_bundle() {
        for (i, o) in b.vout.iter().enumerate() {
            vensure!(o.value().into_u64() <= MAX_MONEY, "accepted-out-of-range-value", "TxOut[{i}] value {} above MAX_MONEY", o.value().into_u64());
        }
    }
    if let Some(b) = tx.sprout_bundle() {
        for (i, js) in b.joinsplits.iter().enumerate() {
            let (o, n) = (i64::from(js.vpub_old()), i64::from(js.vpub_new()));
            vensure!((0..=MAXM).contains(&o) && (0..=MAXM).contains(&n), "accepted-out-of-range-value", "JoinSplit[{i}] vpub_old {o} vpub_new {n}");
        }
    }
    if let Some(b) = tx.sapling_bundle() {
        vensure!(bal_ok(i64::from(*b.value_balance())), "accepted-out-of-range-value", "valueBalanceSapling {:?}", b.value_balance());
    }
    if let Some(b) = tx.orchard_bundle() {
        vensure!(bal_ok(i64::from(*b.value_balance())), "accepted-out-of-range-value", "valueBalanceOrchard {:?}", b.value_balance());
    }
    if let Some(b) = tx.ironwood_bundle() {
        vensure!(bal_ok(i64::from(*b.value_balance())), "accepted-out-of-range-value", "valueBalanceIronwood {:?}", b.value_balance());
    }
    Ok(())
}

// ---------------------------------------------------------------------------------------------
// Reference serialiser (protocol spec §7.1 for v1–v4, ZIP 225 for v5, ZIP 229 for v6)
// ---------------------------------------------------------------------------------------------

fn ref_orchard(out: &mut Vec<u8>, b: Option<&OBundle>) {
    match b {
        None => ref_compact(0, out),
        Some(b) => {
            ref_compact(b.actions().len() as u64, out);
            for a in b.actions().iter() {
                out.extend_from_slice(&a.cv_net().to_bytes());
                out.extend_from_slice(&a.nullifier().to_bytes());
                out.extend_from_slice(&<[u8; 32]>::from(a.rk()));
                out.extend_from_slice(&a.cmx().to_bytes());
                out.extend_from_slice(&a.encrypted_note().epk_bytes);
                out.extend_from_slice(&a.encrypted_note().enc_ciphertext);
                out.extend_from_slice(&a.encrypted_note().out_ciphertext);
            }
            out.push(b.flag_byte());
            out.extend_from_slice(&i64::from(*b.value_balance()).to_le_bytes());
            out.extend_from_slice(&b.anchor().to_bytes());
            let proof: &[u8] = b.authorization().proof().as_ref();
            ref_compact(proof.len() as u64, out);
            out.extend_from_slice(proof);
            for a in b.actions().iter() {
                out.extend_from_slice(&<[u8; 64]>::from(a.authorization()));
            }
            out.extend_from_slice(&<[u8; 64]>::from(b.authorization().binding_signature()));
        }
    }
}

/// `js_raw`: the raw encodings the Sprout JoinSplit descriptions were built from (the harness is
/// their author, so these are the reference bytes).
fn ref_serialize(tx: &TransactionData<Authorized>, js_raw: &[Vec<u8>]) -> Vec<u8> {
    let mut out = Vec::with_capacity(4096);
    let (h, g) = version_words(tx.version());
    let vk = vk_of(tx.version());
    out.extend_from_slice(&h.to_le_bytes());
    if let Some(g) = g {
        out.extend_from_slice(&g.to_le_bytes());
    }
    if matches!(vk, VK::V5 | VK::V6) {
        out.extend_from_slice(&u32::from(tx.consensus_branch_id()).to_le_bytes());
        out.extend_from_slice(&tx.lock_time().to_le_bytes());
        out.extend_from_slice(&u32::from(tx.expiry_height()).to_le_bytes());
    }
    // transparent
    let (vin, vout): (&[TxIn<tb::Authorized>], &[TxOut]) = match tx.transparent_bundle() {
        Some(b) => (&b.vin, &b.vout),
        None => (&[], &[]),
    };
    ref_compact(vin.len() as u64, &mut out);
    for t in vin {
        out.extend_from_slice(t.prevout().hash());
        out.extend_from_slice(&t.prevout().n().to_le_bytes());
        ref_compact(t.script_sig().0 .0.len() as u64, &mut out);
        out.extend_from_slice(&t.script_sig().0 .0);
        out.extend_from_slice(&t.sequence().to_le_bytes());
    }
    ref_compact(vout.len() as u64, &mut out);
    for t in vout {
        out.extend_from_slice(&(t.value().into_u64() as i64).to_le_bytes());
        ref_compact(t.script_pubkey().0 .0.len() as u64, &mut out);
        out.extend_from_slice(&t.script_pubkey().0 .0);
    }
    let sap = tx.sapling_bundle();
    let (spends, outputs) = match sap {
        Some(b) => (b.shielded_spends(), b.shielded_outputs()),
        None => (&[][..], &[][..]),
    };
    match vk {
        VK::Sprout | VK::V3 | VK::V4 => {
            out.extend_from_slice(&tx.lock_time().to_le_bytes());
            if vk != VK::Sprout {
                out.extend_from_slice(&u32::from(tx.expiry_height()).to_le_bytes());
            }
            if vk == VK::V4 {
                let vb = sap.map(|b| i64::from(*b.value_balance())).unwrap_or(0);
                out.extend_from_slice(&vb.to_le_bytes());
                ref_compact(spends.len() as u64, &mut out);
                for s in spends {
                    out.extend_from_slice(&s.cv().to_bytes());
                    out.extend_from_slice(&s.anchor().to_repr());
                    out.extend_from_slice(&s.nullifier().0);
                    out.extend_from_slice(&<[u8; 32]>::from(*s.rk()));
                    out.extend_from_slice(&s.zkproof()[..]);
                    out.extend_from_slice(&<[u8; 64]>::from(*s.spend_auth_sig()));
                }
                ref_compact(outputs.len() as u64, &mut out);
                for o in outputs {
                    out.extend_from_slice(&o.cv().to_bytes());
                    out.extend_from_slice(&o.cmu().to_bytes());
                    out.extend_from_slice(&o.ephemeral_key().0);
                    out.extend_from_slice(&o.enc_ciphertext()[..]);
                    out.extend_from_slice(&o.out_ciphertext()[..]);
                    out.extend_from_slice(&o.zkproof()[..]);
                }
            }
            let has_js = match tx.version() {
                TxVersion::Sprout(v) => v >= 2,
                _ => true,
            };
            if has_js {
                match tx.sprout_bundle() {
                    Some(b) => {
                        ref_compact(b.joinsplits.len() as u64, &mut out);
                        for raw in js_raw {
                            out.extend_from_slice(raw);
                        }
                        if !b.joinsplits.is_empty() {
                            out.extend_from_slice(&b.joinsplit_pubkey);
                            out.extend_from_slice(&b.joinsplit_sig);
                        }
                    }
                    None => ref_compact(0, &mut out),
                }
            }
            if vk == VK::V4 && !(spends.is_empty() && outputs.is_empty()) {
                out.extend_from_slice(&<[u8; 64]>::from(sap.unwrap().authorization().binding_sig));
            }
        }
        VK::V5 | VK::V6 => {
            ref_compact(spends.len() as u64, &mut out);
            for s in spends {
                out.extend_from_slice(&s.cv().to_bytes());
                out.extend_from_slice(&s.nullifier().0);
                out.extend_from_slice(&<[u8; 32]>::from(*s.rk()));
            }
            ref_compact(outputs.len() as u64, &mut out);
            for o in outputs {
                out.extend_from_slice(&o.cv().to_bytes());
                out.extend_from_slice(&o.cmu().to_bytes());
                out.extend_from_slice(&o.ephemeral_key().0);
                out.extend_from_slice(&o.enc_ciphertext()[..]);
                out.extend_from_slice(&o.out_ciphertext()[..]);
            }
            let any = !(spends.is_empty() && outputs.is_empty());
            if any {
                out.extend_from_slice(&i64::from(*sap.unwrap().value_balance()).to_le_bytes());
            }
            if !spends.is_empty() {
                out.extend_from_slice(&spends[0].anchor().to_repr());
            }
            for s in spends {
                out.extend_from_slice(&s.zkproof()[..]);
            }
            for s in spends {
                out.extend_from_slice(&<[u8; 64]>::from(*s.spend_auth_sig()));
            }
            for o in outputs {
                out.extend_from_slice(&o.zkproof()[..]);
            }
            if any {
                out.extend_from_slice(&<[u8; 64]>::from(sap.unwrap().authorization().binding_sig));
            }
            ref_orchard(&mut out, tx.orchard_bundle());
            if vk == VK::V6 {
                ref_orchard(&mut out, tx.ironwood_bundle());
            }
        }
    }
    out
}

// ---------------------------------------------------------------------------------------------
// Layout walker: locates every CompactSize count field and every 8-byte amount field
// ---------------------------------------------------------------------------------------------

#[derive(Clone, Copy, Debug, PartialEq, Eq)]
enum FK {
    TxInCount,
    ScriptSigLen,
    TxOutCount,
    TxOutValue,
    ScriptPubKeyLen,
    ValueBalanceSapling,
    NSpendsSapling,
    NOutputsSapling,
    NJoinSplit,
    VpubOld,
    VpubNew,
    NActionsOrchard,
    ValueBalanceOrchard,
    SizeProofsOrchard,
    NActionsIronwood,
    ValueBalanceIronwood,
    SizeProofsIronwood,
    SolutionLen,
}

impl FK {
    fn is_amount(self) -> bool {
        matches!(
            self,
            FK::TxOutValue | FK::ValueBalanceSapling | FK::VpubOld | FK::VpubNew | FK::ValueBalanceOrchard | FK::ValueBalanceIronwood
        )
    }
    /// Amounts that must be non-negative (TxOut value, vpub_old, vpub_new).
    fn nonneg(self) -> bool {
        matches!(self, FK::TxOutValue | FK::VpubOld | FK::VpubNew)
    }
    fn amount_in_range(self, v: i64) -> bool {
        if self.nonneg() {
            (0..=MAXM).contains(&v)
        } else {
            (-MAXM..=MAXM).contains(&v)
        }
    }
}

#[derive(Clone, Debug)]
struct Fld {
    kind: FK,
    off: usize,
    len: usize,
    /// count value, or the amount as i64
    val: i128,
}

#[derive(Clone, Debug)]
struct Layout {
    vk: VK,
    header: u32,
    branch: Option<u32>,
    branch_off: Option<usize>,
    lock_time: u32,
    expiry: Option<u32>,
    fields: Vec<Fld>,
    /// start offset of every element the walker stepped over (truncation points of interest)
    bounds: Vec<usize>,
    end: usize,
}

impl Layout {
    fn count(&self, k: FK) -> u64 {
        self.fields.iter().find(|f| f.kind == k).map(|f| f.val as u64).unwrap_or(0)
    }
    fn amount(&self, k: FK) -> Option<i64> {
        self.fields.iter().find(|f| f.kind == k).map(|f| f.val as i64)
    }
}

struct Wk<'a> {
    b: &'a [u8],
    pos: usize,
    fields: Vec<Fld>,
    bounds: Vec<usize>,
}

impl<'a> Wk<'a> {
    fn skip(&mut self, n: u64) -> Option<()> {
        let n = usize::try_from(n).ok()?;
        if self.b.len() - self.pos < n {
            return None;
        }
        if n > 0 {
            self.bounds.push(self.pos);
        }
        self.pos += n;
        Some(())
    }
    fn skip_n(&mut self, count: u64, each: u64) -> Option<()> {
        for _ in 0..count {
            self.skip(each)?;
        }
        Some(())
    }
    fn u32(&mut self) -> Option<u32> {
        let s = self.b.get(self.pos..self.pos + 4)?;
        self.bounds.push(self.pos);
        self.pos += 4;
        Some(u32::from_le_bytes(s.try_into().unwrap()))
    }
    fn amount(&mut self, kind: FK) -> Option<i64> {
        let s = self.b.get(self.pos..self.pos + 8)?;
        let v = i64::from_le_bytes(s.try_into().unwrap());
        self.fields.push(Fld {
            kind,
            off: self.pos,
            len: 8,
            val: v as i128,
        });
        self.bounds.push(self.pos);
        self.pos += 8;
        Some(v)
    }
    fn count(&mut self, kind: FK) -> Option<u64> {
        let (v, used) = ref_read_compact(&self.b[self.pos..], false).ok()?;
        self.fields.push(Fld {
            kind,
            off: self.pos,
            len: used,
            val: v as i128,
        });
        self.bounds.push(self.pos);
        self.pos += used;
        Some(v)
    }
    fn orchard_like(&mut self, n: FK, vb: FK, sp: FK) -> Option<()> {
        let na = self.count(n)?;
        if na > 0 {
            self.skip_n(na, 820)?;
            self.skip(1)?;
            self.amount(vb)?;
            self.skip(32)?;
            let l = self.count(sp)?;
            self.skip(l)?;
            self.skip_n(na, 64)?;
            self.skip(64)?;
        }
        Some(())
    }
}

/// Walks a transaction encoding (spec layout; canonical CompactSizes only). None = not a
/// well-formed layout. Does not validate field contents.
fn walk_tx(b: &[u8]) -> Option<Layout> {
    let mut w = Wk {
        b,
        pos: 0,
        fields: vec![],
        bounds: vec![],
    };
    let header = w.u32()?;
    let version = header & 0x7fff_ffff;
    let vk = if header >> 31 == 1 {
        match (version, w.u32()?) {
            (3, V3_VGID) => VK::V3,
            (4, V4_VGID) => VK::V4,
            (5, V5_VGID) => VK::V5,
            (6, V6_VGID) => VK::V6,
            _ => return None,
        }
    } else if version >= 1 {
        VK::Sprout
    } else {
        return None;
    };
    let (mut branch, mut branch_off, mut lock_time, mut expiry) = (None, None, 0u32, None);
    if matches!(vk, VK::V5 | VK::V6) {
        branch_off = Some(w.pos);
        branch = Some(w.u32()?);
        lock_time = w.u32()?;
        expiry = Some(w.u32()?);
    }
    let n_in = w.count(FK::TxInCount)?;
    for _ in 0..n_in {
        w.skip(36)?;
        let l = w.count(FK::ScriptSigLen)?;
        w.skip(l)?;
        w.skip(4)?;
    }
    let n_out = w.count(FK::TxOutCount)?;
    for _ in 0..n_out {
        w.amount(FK::TxOutValue)?;
        let l = w.count(FK::ScriptPubKeyLen)?;
        w.skip(l)?;
    }
    match vk {
        VK::Sprout | VK::V3 | VK::V4 => {
            lock_time = w.u32()?;
            if vk != VK::Sprout {
                expiry = Some(w.u32()?);
            }
            let (mut ns, mut no) = (0, 0);
            if vk == VK::V4 {
                w.amount(FK::ValueBalanceSapling)?;
                ns = w.count(FK::NSpendsSapling)?;
                w.skip_n(ns, 384)?;
                no = w.count(FK::NOutputsSapling)?;
                w.skip_n(no, 948)?;
            }
            if vk != VK::Sprout || version >= 2 {
                let nj = w.count(FK::NJoinSplit)?;
                let proof = if vk == VK::V4 { 192 } else { 296 };
                for _ in 0..nj {
                    w.amount(FK::VpubOld)?;
                    w.amount(FK::VpubNew)?;
                    w.skip(32 + 64 + 64 + 32 + 32 + 64)?;
                    w.skip(proof)?;
                    w.skip(2 * 601)?;
                }
                if nj > 0 {
                    w.skip(32)?;
                    w.skip(64)?;
                }
            }
            if vk == VK::V4 && ns + no > 0 {
                w.skip(64)?;
            }
        }
        VK::V5 | VK::V6 => {
            let ns = w.count(FK::NSpendsSapling)?;
            w.skip_n(ns, 96)?;
            let no = w.count(FK::NOutputsSapling)?;
            w.skip_n(no, 756)?;
            if ns + no > 0 {
                w.amount(FK::ValueBalanceSapling)?;
            }
            if ns > 0 {
                w.skip(32)?;
            }
            w.skip_n(ns, 192)?;
            w.skip_n(ns, 64)?;
            w.skip_n(no, 192)?;
            if ns + no > 0 {
                w.skip(64)?;
            }
            w.orchard_like(FK::NActionsOrchard, FK::ValueBalanceOrchard, FK::SizeProofsOrchard)?;
            if vk == VK::V6 {
                w.orchard_like(FK::NActionsIronwood, FK::ValueBalanceIronwood, FK::SizeProofsIronwood)?;
            }
        }
    }
    Some(Layout {
        vk,
        header,
        branch,
        branch_off,
        lock_time,
        expiry,
        fields: w.fields,
        bounds: w.bounds,
        end: w.pos,
    })
}

/// Block header layout: 140 fixed bytes, then the CompactSize solution length and the solution.
fn walk_header(b: &[u8]) -> Option<Layout> {
    let mut w = Wk {
        b,
        pos: 0,
        fields: vec![],
        bounds: vec![],
    };
    let header = w.u32()?;
    w.skip(32)?;
    w.skip(32)?;
    w.skip(32)?;
    w.u32()?;
    w.u32()?;
    w.skip(32)?;
    let l = w.count(FK::SolutionLen)?;
    w.skip(l)?;
    Some(Layout {
        vk: VK::Sprout,
        header,
        branch: None,
        branch_off: None,
        lock_time: 0,
        expiry: None,
        fields: w.fields,
        bounds: w.bounds,
        end: w.pos,
    })
}

// ---------------------------------------------------------------------------------------------
// Mutations
// ---------------------------------------------------------------------------------------------

#[derive(Clone, Debug)]
enum Mutation {
    /// keep only the first n bytes (n < len)
    Truncate(usize),
    Extend(Vec<u8>),
    SetByte { off: usize, val: u8 },
    /// re-encode the located CompactSize in a longer-than-minimal form
    Widen { field: usize, form: u8 },
    SetCount { field: usize, new: u64 },
    SetAmount { field: usize, new: i64 },
    /// overwrite the v5/v6 consensus branch id
    SetBranch(u32),
    /// replace the version header (and version group id) by another defined one
    SetHeader { header: u32, vgid: Option<u32> },
}

#[derive(Clone, Copy, Debug, PartialEq, Eq)]
enum Expect {
    Reject(&'static str),
    AcceptSame,
    General,
}

fn expectation(l: &Layout, m: &Mutation) -> Expect {
    match m {
        Mutation::Truncate(_) => Expect::Reject("accepted-truncated-encoding"),
        Mutation::Extend(_) => Expect::AcceptSame,
        Mutation::Widen { .. } => Expect::Reject("accepted-noncanonical-compactsize"),
        Mutation::SetCount { new, .. } if *new > MAX_COMPACT => Expect::Reject("accepted-count-above-max-compact-size"),
        Mutation::SetAmount { field, new } if !l.fields[*field].kind.amount_in_range(*new) => Expect::Reject("accepted-out-of-range-amount"),
        _ => Expect::General,
    }
}

fn apply(base: &[u8], l: &Layout, m: &Mutation) -> Vec<u8> {
    let splice = |off: usize, len: usize, with: &[u8]| {
        let mut v = Vec::with_capacity(base.len() + with.len());
        v.extend_from_slice(&base[..off]);
        v.extend_from_slice(with);
        v.extend_from_slice(&base[off + len..]);
        v
    };
    match m {
        Mutation::Truncate(n) => base[..*n].to_vec(),
        Mutation::Extend(t) => [base, &t[..]].concat(),
        Mutation::SetByte { off, val } => {
            let mut v = base.to_vec();
            v[*off] = *val;
            v
        }
        Mutation::Widen { field, form } => {
            let f = &l.fields[*field];
            let enc = compact_in_form(f.val as u64, *form).expect("form fits");
            splice(f.off, f.len, &enc)
        }
        Mutation::SetCount { field, new } => {
            let f = &l.fields[*field];
            splice(f.off, f.len, &ref_compact_vec(*new))
        }
        Mutation::SetAmount { field, new } => {
            let f = &l.fields[*field];
            splice(f.off, 8, &new.to_le_bytes())
        }
        Mutation::SetBranch(b) => splice(l.branch_off.expect("v5/v6 base"), 4, &b.to_le_bytes()),
        Mutation::SetHeader { header, vgid } => {
            let old = if l.vk == VK::Sprout { 4 } else { 8 };
            let mut with = header.to_le_bytes().to_vec();
            if let Some(g) = vgid {
                with.extend_from_slice(&g.to_le_bytes());
            }
            splice(0, old, &with)
        }
    }
}

/// Every located-field mutation of a layout: each CompactSize in every longer form, count±1,
/// MAX_COMPACT_SIZE+1; each amount set to MAX_MONEY+1, -1, i64::MIN, -(MAX_MONEY+1), MAX_MONEY, 0.
fn located_mutations(l: &Layout) -> Vec<Mutation> {
    let mut out = vec![];
    for (i, f) in l.fields.iter().enumerate() {
        if f.kind.is_amount() {
            for new in [MAXM + 1, -1, i64::MIN, -(MAXM + 1), MAXM, 0, 1] {
                if new as i128 != f.val {
                    out.push(Mutation::SetAmount { field: i, new });
                }
            }
        } else {
            let v = f.val as u64;
            for form in (canonical_form(v) + 1)..=3 {
                out.push(Mutation::Widen { field: i, form });
            }
            out.push(Mutation::SetCount { field: i, new: v + 1 });
            if v > 0 {
                out.push(Mutation::SetCount { field: i, new: v - 1 });
            }
            out.push(Mutation::SetCount {
                field: i,
                new: MAX_COMPACT + 1,
            });
        }
    }
    out
}

fn header_mutations(l: &Layout) -> Vec<Mutation> {
    let mut out = vec![];
    if l.branch_off.is_some() {
        for b in BRANCHES {
            let id = u32::from(b);
            if Some(id) != l.branch {
                out.push(Mutation::SetBranch(id));
            }
        }
    }
    for (h, g) in [
        (1u32, None),
        (2, None),
        (3, None),
        (0x7fff_ffff, None),
        (V3_HEADER, Some(V3_VGID)),
        (V4_HEADER, Some(V4_VGID)),
        (V5_HEADER, Some(V5_VGID)),
        (V6_HEADER, Some(V6_VGID)),
    ] {
        if h != l.header {
            out.push(Mutation::SetHeader { header: h, vgid: g });
        }
    }
    out
}

// ---------------------------------------------------------------------------------------------
// Byte-level oracles (reusable from a libFuzzer target)
// ---------------------------------------------------------------------------------------------

#[derive(Clone, Debug)]
pub struct TxObs {
    pub accepted: bool,
    pub consumed: usize,
    pub txid: [u8; 32],
    /// re-serialisation equals the consumed bytes (statistic; implied for v1–v4)
    pub reser_identical: bool,
    /// 1..=6 (Sprout versions >= 2 count as 2)
    pub version: u8,
}

fn parse_tx(bytes: &[u8], branch: BranchId) -> Result<(std::io::Result<Transaction>, usize), String> {
    catch(|| {
        let mut c = Cursor::new(bytes);
        let r = Transaction::read(&mut c, branch);
        (r, c.position() as usize)
    })
}

/// Names the reason when a re-serialised transaction no longer has the txid of what was parsed.
fn classify_reser_mismatch(consumed: &[u8]) -> &'static str {
    if let Some(l) = walk_tx(consumed) {
        if l.vk == VK::V4
            && l.count(FK::NSpendsSapling) == 0
            && l.count(FK::NOutputsSapling) == 0
            && l.amount(FK::ValueBalanceSapling).unwrap_or(0) != 0
        {
            return "v4-nonzero-valuebalance-without-sapling-accepted";
        }
    }
    "reserialized-txid-differs"
}

/// Oracle for an arbitrary byte string offered to `Transaction::read` under the branch selected by
/// `branch_selector % 11`: never panics; consumed ≤ len; parsing exactly the consumed bytes gives
/// the same value; whatever is accepted has in-range amounts, a txid equal to sha256d of the
/// consumed bytes (v1–v4), serialises, and the serialisation parses back to the same value, txid,
/// auth commitment and bytes (fixed point after one step).
/// A reader that never returns more than `chunk` bytes per `read` call.
struct ChunkReader<'a> {
    data: &'a [u8],
    pos: usize,
    chunk: usize,
}

impl std::io::Read for ChunkReader<'_> {
    fn read(&mut self, buf: &mut [u8]) -> std::io::Result<usize> {
        let n = buf.len().min(self.chunk).min(self.data.len() - self.pos);
        buf[..n].copy_from_slice(&self.data[self.pos..self.pos + n]);
        self.pos += n;
        Ok(n)
    }
}

pub fn check_tx_bytes(branch_selector: u8, bytes: &[u8]) -> Result<TxObs, Fail> {
    let branch = BRANCHES[branch_selector as usize % BRANCHES.len()];
    let (r, pos) = parse_tx(bytes, branch)
        .map_err(|p| Fail::new(format!("tx-read-panic:{}", panic_site(&p)), format!("Transaction::read panicked: {p}; branch {branch:?}; input {}", hx(bytes))))?;
    vensure!(pos <= bytes.len(), "consumed-beyond-input", "reported position {pos} > input length {}", bytes.len());
    let tx = match r {
        Err(_) => {
            return Ok(TxObs {
                accepted: false,
                consumed: pos,
                txid: [0; 32],
                reser_identical: false,
                version: 0,
            })
        }
        Ok(t) => t,
    };
    let consumed = &bytes[..pos];
    let txid: [u8; 32] = *tx.txid().as_ref();
    let d0 = dump_tx(&tx);
    let version = match tx.version() {
        TxVersion::Sprout(1) => 1,
        TxVersion::Sprout(_) => 2,
        TxVersion::V3 => 3,
        TxVersion::V4 => 4,
        TxVersion::V5 => 5,
        TxVersion::V6 => 6,
    };
    // nothing beyond the reported position influenced the result
    if pos < bytes.len() {
        let (r2, pos2) = parse_tx(consumed, branch)
            .map_err(|p| Fail::new(format!("tx-read-panic:{}", panic_site(&p)), format!("Transaction::read panicked on the consumed prefix: {p}; input {}", hx(consumed))))?;
        match r2 {
            Err(e) => vfail!("read-beyond-reported-consumption", "input of {} bytes accepted with position {pos}, but its first {pos} bytes alone are rejected: {e}; input {}", bytes.len(), hx(bytes)),
            Ok(t2) => {
                vensure_eq!(pos2, pos, "read-beyond-reported-consumption", "position when parsing the consumed prefix alone");
                vensure!(t2.txid() == tx.txid(), "read-beyond-reported-consumption", "txid differs when parsing only the consumed {pos} bytes; input {}", hx(bytes));
                if let Some(df) = d0.diff(&dump_tx(&t2)) {
                    vfail!("read-beyond-reported-consumption", "value differs when parsing only the consumed {pos} bytes: {df}");
                }
            }
        }
    }
    // The result must not depend on how the underlying reader delivers the bytes: a reader that returns
    // short reads (a socket, a BufReader at a refill, Read::chain) must give the same transaction.
    for chunk in [1usize, 7, 1024, 1 + (pos % 61)] {
        let mut rd = ChunkReader { data: bytes, pos: 0, chunk };
        let r3 = vcore::catch(|| Transaction::read(&mut rd, branch))
            .map_err(|p| Fail::new(format!("tx-read-panic:{}", panic_site(&p)), format!("Transaction::read panicked with a reader delivering {chunk}-byte chunks: {p}")))?;
        match r3 {
            Err(e) => vfail!("chunked-reader-rejected", "accepted from a slice but rejected from a reader delivering {chunk}-byte chunks: {e}; input {}", hx(consumed)),
            Ok(t3) => {
                vensure!(rd.pos == pos, "chunked-reader-consumption", "a reader delivering {chunk}-byte chunks consumed {} bytes, the slice parse {pos}", rd.pos);
                vensure!(
                    t3.txid() == tx.txid() && t3.auth_commitment() == tx.auth_commitment(),
                    "txid-depends-on-reader-chunking",
                    "v{version} txid {} when parsed from a slice but {} when parsed from a reader delivering {chunk}-byte chunks; input {}",
                    hex::encode(txid),
                    hex::encode(t3.txid().as_ref()),
                    hx(consumed)
                );
            }
        }
    }
    check_money(&tx)?;
    if version <= 4 {
        vensure!(txid == sha256d(consumed), "txid-not-sha256d-of-consumed", "v{version} txid {} but sha256d(consumed {pos} bytes) = {}; input {}", hex::encode(txid), hex::encode(sha256d(consumed)), hx(consumed));
    }
    // serialise
    let mut out = vec![];
    match catch(|| tx.write(&mut out)) {
        Err(p) => vfail!(format!("tx-write-panic:{}", panic_site(&p)), "write of an accepted transaction panicked: {p}; input {}", hx(consumed)),
        Ok(Err(e)) => {
            // v6 has exactly two Orchard-protocol slots (orchard_v3 / ironwood_v3); a v6 header that
            // names a pre-NU6.3 branch makes read build an older-version bundle that write refuses.
            let sig = if version == 6 && tx.consensus_branch_id() != BranchId::Nu6_3 && tx.orchard_bundle().is_some() {
                "v6-orchard-bundle-under-pre-nu6.3-branch-accepted-but-unwritable"
            } else {
                "accepted-but-unwritable"
            };
            vfail!(sig, "Transaction::read accepted (v{version}, header branch {:?}, parameter {branch:?}) but write failed: {e}; input {}", tx.consensus_branch_id(), hx(consumed))
        }
        Ok(Ok(())) => {}
    }
    let reser_identical = out == consumed;
    let (r3, pos3) = parse_tx(&out, branch)
        .map_err(|p| Fail::new(format!("tx-read-panic:{}", panic_site(&p)), format!("Transaction::read panicked on a re-serialisation: {p}; bytes {}", hx(&out))))?;
    let tx3 = match r3 {
        Err(e) => vfail!("reserialized-rejected", "the serialisation of an accepted transaction is rejected: {e}; input {} ; written {}", hx(consumed), hx(&out)),
        Ok(t) => t,
    };
    vensure_eq!(pos3, out.len(), "reserialized-not-fully-consumed", "position after parsing write() output");
    // A txid change is reported after the remaining checks so that the search continues behind it.
    let mut deferred: Option<Fail> = None;
    if tx3.txid() != tx.txid() {
        deferred = Some(Fail::new(
            classify_reser_mismatch(consumed),
            format!(
                "accepted input has txid {} but its re-serialisation parses to txid {} (v{version}); input {} ; written {}",
                hex::encode(txid),
                hex::encode(tx3.txid().as_ref()),
                hx(consumed),
                hx(&out)
            ),
        ));
    }
    vensure!(
        tx3.auth_commitment().as_bytes() == tx.auth_commitment().as_bytes(),
        "reserialized-auth-commitment-differs",
        "auth commitment changes across write→read; input {}",
        hx(consumed)
    );
    if let Some(df) = d0.diff(&dump_tx(&tx3)) {
        vfail!("reserialized-value-differs", "write→read changes the value: {df}; input {}", hx(consumed));
    }
    let mut out2 = vec![];
    match catch(|| tx3.write(&mut out2)) {
        Ok(Ok(())) => {}
        other => vfail!("reserialization-not-a-fixed-point", "second write failed: {:?}", other.map(|r| r.map_err(|e| e.to_string()))),
    }
    vensure!(out2 == out, "reserialization-not-a-fixed-point", "write(read(write(tx))) != write(tx); input {}", hx(consumed));
    if let Some(f) = deferred {
        return Err(f);
    }
    // Stronger than the fixed-point demand of the property (DESIGN "false-alarm risk"): asserted
    // because calibration over all mutation classes and seeds shows that, apart from the recorded
    // findings, every accepted byte string IS the serialisation of its value (canonical parser).
    vensure!(reser_identical, "accepted-noncanonical-encoding", "accepted v{version} input differs from its re-serialisation at offset {}; input {} ; written {}", first_diff_offset(consumed, &out), hx(consumed), hx(&out));
    Ok(TxObs {
        accepted: true,
        consumed: pos,
        txid,
        reser_identical,
        version,
    })
}

#[derive(Clone, Debug)]
pub struct HdrObs {
    pub accepted: bool,
    pub consumed: usize,
    pub hash: [u8; 32],
}

fn parse_header(bytes: &[u8]) -> Result<(std::io::Result<BlockHeader>, usize), String> {
    catch(|| {
        let mut c = Cursor::new(bytes);
        let r = BlockHeader::read(&mut c);
        (r, c.position() as usize)
    })
}

fn header_fields(h: &BlockHeaderData) -> Vec<u8> {
    let mut v = vec![];
    v.extend_from_slice(&h.version.to_le_bytes());
    v.extend_from_slice(&h.prev_block.0);
    v.extend_from_slice(&h.merkle_root);
    v.extend_from_slice(&h.final_sapling_root);
    v.extend_from_slice(&h.time.to_le_bytes());
    v.extend_from_slice(&h.bits.to_le_bytes());
    v.extend_from_slice(&h.nonce);
    ref_compact(h.solution.len() as u64, &mut v);
    v.extend_from_slice(&h.solution);
    v
}

/// Oracle for an arbitrary byte string offered to `BlockHeader::read`: never panics; consumed ≤
/// len; an accepted header's hash is sha256d of exactly the consumed bytes and of `write()`;
/// `write()` reproduces the consumed bytes; its fields are the reference decoding of those bytes.
pub fn check_header_bytes(bytes: &[u8]) -> Result<HdrObs, Fail> {
    let (r, pos) = parse_header(bytes)
        .map_err(|p| Fail::new(format!("header-read-panic:{}", panic_site(&p)), format!("BlockHeader::read panicked: {p}; input {}", hx(bytes))))?;
    vensure!(pos <= bytes.len(), "consumed-beyond-input", "header: reported position {pos} > input length {}", bytes.len());
    let h = match r {
        Err(_) => {
            return Ok(HdrObs {
                accepted: false,
                consumed: pos,
                hash: [0; 32],
            })
        }
        Ok(h) => h,
    };
    let consumed = &bytes[..pos];
    let hash = h.hash().0;
    vensure!(hash == sha256d(consumed), "header-hash-not-sha256d-of-consumed", "hash {} but sha256d of the {pos} consumed bytes is {}; input {}", hex::encode(hash), hex::encode(sha256d(consumed)), hx(consumed));
    let mut out = vec![];
    match catch(|| h.write(&mut out)) {
        Ok(Ok(())) => {}
        Ok(Err(e)) => vfail!("header-accepted-but-unwritable", "write failed: {e}"),
        Err(p) => vfail!(format!("header-write-panic:{}", panic_site(&p)), "write panicked: {p}"),
    }
    vensure!(hash == sha256d(&out), "header-hash-not-sha256d-of-write", "hash {} but sha256d(write()) = {}", hex::encode(hash), hex::encode(sha256d(&out)));
    vensure!(out == consumed, "header-reserialization-differs", "write() differs from the consumed bytes: {} vs {}", hx(&out), hx(consumed));
    for chunk in [1usize, 5, 33] {
        let mut rd = ChunkReader { data: bytes, pos: 0, chunk };
        match vcore::catch(|| zcash_primitives::block::BlockHeader::read(&mut rd)) {
            Ok(Ok(h3)) => vensure!(h3.hash() == h.hash() && rd.pos == pos, "header-depends-on-reader-chunking", "hash/consumption differ with a reader delivering {chunk}-byte chunks ({:?} after {} bytes)", h3.hash(), rd.pos),
            Ok(Err(e)) => vfail!("header-chunked-reader-rejected", "accepted from a slice, rejected from a {chunk}-byte chunk reader: {e}"),
            Err(p) => vfail!(format!("header-read-panic:{}", panic_site(&p)), "BlockHeader::read panicked with a chunking reader: {p}"),
        }
    }
    vensure!(header_fields(&h) == consumed, "header-field-mismatch", "fields of the parsed header do not re-encode (reference serialiser) to the consumed bytes; input {}", hx(consumed));
    if pos < bytes.len() {
        match parse_header(consumed) {
            Ok((Ok(h2), p2)) => {
                vensure!(p2 == pos && h2.hash() == h.hash(), "header-read-beyond-reported-consumption", "parsing the consumed prefix alone gives position {p2} / hash {:?}", h2.hash());
            }
            other => vfail!("header-read-beyond-reported-consumption", "the consumed prefix alone is not accepted: {:?}", other.map(|(r, p)| (r.map(|_| ()).map_err(|e| e.to_string()), p))),
        }
    }
    Ok(HdrObs {
        accepted: true,
        consumed: pos,
        hash,
    })
}

#[derive(Default)]
struct MutStats {
    mutants: u64,
    accepted: u64,
    rejected: u64,
    must_reject: u64,
    accept_same: u64,
    general_accepted: u64,
    reser_differs: u64,
    widen: u64,
    amount_oor: u64,
    truncations: u64,
    known: u64,
}

static CTX: std::sync::OnceLock<std::sync::Arc<Ctx>> = std::sync::OnceLock::new();

/// True iff `signature` is listed as a known finding for C03 (prints KNOWN-FINDING once, counts the hit).
fn known_hit(signature: &str) -> bool {
    CTX.get().map(|c| c.known_hit(signature)).unwrap_or(false)
}

/// Runs one mutated input through the byte oracle and the expectation attached to the mutation.
fn eval_tx_mutation(sel: u8, base: &[u8], base_txid: &[u8; 32], l: &Layout, m: &Mutation, st: &mut MutStats) -> Result<(), Fail> {
    let mutated = apply(base, l, m);
    if mutated == base {
        return Ok(());
    }
    let exp = expectation(l, m);
    let what = match m {
        Mutation::Widen { field, .. } | Mutation::SetCount { field, .. } | Mutation::SetAmount { field, .. } => format!("{m:?} on {:?}", l.fields[*field]),
        _ => format!("{m:?}"),
    };
    let obs = match check_tx_bytes(sel, &mutated) {
        Ok(o) => o,
        Err(f) => {
            // a listed known finding: count it and continue with the remaining mutants of the case
            if known_hit(&f.signature) {
                st.mutants += 1;
                st.known += 1;
                return Ok(());
            }
            return Err(Fail::new(f.signature, format!("after mutation {what} of a valid {}-byte encoding: {}", base.len(), f.msg)));
        }
    };
    st.mutants += 1;
    if obs.accepted {
        st.accepted += 1;
        if !obs.reser_identical {
            st.reser_differs += 1;
        }
    } else {
        st.rejected += 1;
    }
    match exp {
        Expect::Reject(sig) => {
            st.must_reject += 1;
            match m {
                Mutation::Widen { .. } => st.widen += 1,
                Mutation::SetAmount { .. } => st.amount_oor += 1,
                Mutation::Truncate(_) => st.truncations += 1,
                _ => {}
            }
            vensure!(!obs.accepted, sig, "mutation {what} of a valid encoding was ACCEPTED (consumed {} of {} bytes, txid {}); mutated input {}", obs.consumed, mutated.len(), hex::encode(obs.txid), hx(&mutated));
        }
        Expect::AcceptSame => {
            st.accept_same += 1;
            vensure!(obs.accepted, "trailing-bytes-change-result", "valid encoding followed by trailing bytes is rejected; input {}", hx(&mutated));
            vensure_eq!(obs.consumed, base.len(), "trailing-bytes-change-result", "position after parsing a valid encoding followed by trailing bytes");
            vensure!(&obs.txid == base_txid, "trailing-bytes-change-result", "txid changes when trailing bytes follow the encoding");
        }
        Expect::General => {
            if obs.accepted {
                st.general_accepted += 1;
            }
        }
    }
    Ok(())
}

fn eval_header_mutation(base: &[u8], base_hash: &[u8; 32], l: &Layout, m: &Mutation, st: &mut MutStats) -> Result<(), Fail> {
    let mutated = apply(base, l, m);
    if mutated == base {
        return Ok(());
    }
    let obs = check_header_bytes(&mutated).map_err(|f| Fail::new(f.signature, format!("after mutation {m:?} of a valid {}-byte header: {}", base.len(), f.msg)))?;
    st.mutants += 1;
    if obs.accepted {
        st.accepted += 1;
    } else {
        st.rejected += 1;
    }
    match expectation(l, m) {
        Expect::Reject(sig) => {
            st.must_reject += 1;
            match m {
                Mutation::Widen { .. } => st.widen += 1,
                Mutation::Truncate(_) => st.truncations += 1,
                _ => {}
            }
            vensure!(!obs.accepted, format!("header-{sig}"), "mutation {m:?} of a valid header was ACCEPTED (consumed {} of {}); input {}", obs.consumed, mutated.len(), hx(&mutated));
        }
        Expect::AcceptSame => {
            st.accept_same += 1;
            vensure!(obs.accepted && obs.consumed == base.len() && &obs.hash == base_hash, "header-trailing-bytes-change-result", "header followed by trailing bytes: accepted={} consumed={} (want {})", obs.accepted, obs.consumed, base.len());
        }
        Expect::General => {}
    }
    Ok(())
}

fn mut_obs(obs: Obs, st: &MutStats) -> Obs {
    obs.count("mutated-inputs", st.mutants)
        .count("mutated-accepted", st.accepted)
        .count("mutated-rejected", st.rejected)
        .count("must-reject-checked", st.must_reject)
        .count("noncanonical-compactsize-rejected", st.widen)
        .count("out-of-range-amount-rejected", st.amount_oor)
        .count("truncations-rejected", st.truncations)
        .count("trailing-bytes-accepted-same", st.accept_same)
        .count("other-mutations-accepted", st.general_accepted)
        .count("accepted-reserialization-differs-from-input", st.reser_differs)
        .count("known-finding-inputs", st.known)
}

// ---------------------------------------------------------------------------------------------
// Shape specs → transactions
// ---------------------------------------------------------------------------------------------

#[derive(Clone, Debug)]
struct InSpec {
    seed: u64,
    script_len: u32,
    sequence: u32,
    null_prevout: bool,
}

#[derive(Clone, Debug)]
struct OutSpec {
    value: u64,
    script_len: u32,
    seed: u64,
}

#[derive(Clone, Debug)]
struct SapSpec {
    n_spends: u16,
    n_outputs: u16,
    balance: i64,
    seed: u64,
    shared_anchor: bool,
}

#[derive(Clone, Debug)]
struct OrchSpec {
    n_actions: u16,
    balance: i64,
    seed: u64,
    /// bit0 spends, bit1 outputs, bit2 cross-address (Ironwood only)
    flags: u8,
    /// proof length where the bundle version does not enforce the canonical size
    proof_mode: u8,
    identity_cv: bool,
}

#[derive(Clone, Debug)]
struct ShapeSpec {
    pair: u8,
    sprout_version: u32,
    lock_time: u32,
    expiry: u32,
    vin: Vec<InSpec>,
    vout: Vec<OutSpec>,
    /// (number of JoinSplits, seed)
    sprout: Option<(u8, u64)>,
    sapling: Option<SapSpec>,
    orchard: Option<OrchSpec>,
    ironwood: Option<OrchSpec>,
}

fn mk_script(seed: u64, len: u32) -> Script {
    let mut s = Script::default();
    s.0 .0 = fill(seed, len as usize);
    s
}

fn build_transparent(vin: &[InSpec], vout: &[OutSpec]) -> Option<tb::Bundle<tb::Authorized>> {
    if vin.is_empty() && vout.is_empty() {
        return None;
    }
    Some(tb::Bundle {
        vin: vin
            .iter()
            .map(|i| {
                let prev = if i.null_prevout { OutPoint::NULL } else { OutPoint::new(fill_arr::<32>(i.seed ^ 0x11), (i.seed >> 20) as u32) };
                TxIn::from_parts(prev, mk_script(i.seed, i.script_len), i.sequence)
            })
            .collect(),
        vout: vout
            .iter()
            .map(|o| TxOut::new(Zatoshis::from_u64(o.value).expect("generator keeps values in range"), mk_script(o.seed, o.script_len)))
            .collect(),
        authorization: tb::Authorized,
    })
}

/// JoinSplit description raw bytes (spec §7.2): vpub_old, vpub_new, anchor, 2 nullifiers,
/// 2 commitments, ephemeralKey, randomSeed, 2 macs, proof (296 PHGR13 / 192 Groth16), 2×601 ciphertexts.
fn js_raw(seed: u64, groth: bool) -> Vec<u8> {
    let pick = |s: u64| -> u64 {
        match s % 5 {
            0 => 0,
            1 => MAX_MONEY,
            2 => 1,
            _ => (s >> 8) % (MAX_MONEY + 1),
        }
    };
    let mut v = vec![];
    v.extend_from_slice(&pick(hash64(&seed.to_le_bytes())).to_le_bytes());
    v.extend_from_slice(&pick(hash64(&(seed ^ 0xabcd).to_le_bytes())).to_le_bytes());
    let rest = 32 + 64 + 64 + 32 + 32 + 64 + if groth { 192 } else { 296 } + 1202;
    v.extend_from_slice(&fill(seed, rest));
    v
}

fn build_sprout(n: u8, seed: u64, groth: bool) -> (sprout::Bundle, Vec<Vec<u8>>) {
    let raws: Vec<Vec<u8>> = (0..n as u64).map(|i| js_raw(seed.wrapping_add(i * 7919), groth)).collect();
    let joinsplits = raws
        .iter()
        .map(|r| sprout::JsDescription::read(&r[..], groth).expect("harness-built JoinSplit parses"))
        .collect();
    (
        sprout::Bundle {
            joinsplits,
            joinsplit_pubkey: fill_arr::<32>(seed ^ 0x51),
            joinsplit_sig: fill_arr::<64>(seed ^ 0x52),
        },
        raws,
    )
}

fn jubjub_point_bytes(rng: &mut ChaCha8Rng) -> [u8; 32] {
    let p = jubjub::SubgroupPoint::generator() * jubjub::Fr::random(&mut *rng);
    jubjub::ExtendedPoint::from(p).to_bytes()
}

fn mk_spend(rng: &mut ChaCha8Rng, anchor: jubjub::Base) -> SpendDescription<SAuthorized> {
    let cv = Option::<SValueCommitment>::from(SValueCommitment::from_bytes_not_small_order(&jubjub_point_bytes(rng))).expect("prime-order point");
    let rk = redjubjub::VerificationKey::<redjubjub::SpendAuth>::try_from(jubjub_point_bytes(rng)).expect("valid point");
    let mut nf = [0u8; 32];
    rng.fill_bytes(&mut nf);
    let mut proof = [0u8; 192];
    rng.fill_bytes(&mut proof);
    let mut sig = [0u8; 64];
    rng.fill_bytes(&mut sig);
    SpendDescription::from_parts(cv, anchor, SNullifier(nf), rk, proof, redjubjub::Signature::from(sig))
}

fn mk_output(rng: &mut ChaCha8Rng) -> OutputDescription<[u8; 192]> {
    let cv = Option::<SValueCommitment>::from(SValueCommitment::from_bytes_not_small_order(&jubjub_point_bytes(rng))).expect("prime-order point");
    let cmu = Option::<SCmu>::from(SCmu::from_bytes(&jubjub::Base::random(&mut *rng).to_repr())).expect("canonical");
    let mut epk = [0u8; 32];
    rng.fill_bytes(&mut epk);
    let mut enc = [0u8; 580];
    rng.fill_bytes(&mut enc);
    let mut outc = [0u8; 80];
    rng.fill_bytes(&mut outc);
    let mut proof = [0u8; 192];
    rng.fill_bytes(&mut proof);
    OutputDescription::from_parts(cv, cmu, EphemeralKeyBytes(epk), enc, outc, proof)
}

/// `force_shared`: v5/v6 encode one anchor for all spends, so a well-formed bundle shares it.
fn build_sapling(s: &SapSpec, force_shared: bool) -> Option<SBundle> {
    let mut rng = ChaCha8Rng::seed_from_u64(s.seed);
    let shared = jubjub::Base::random(&mut rng);
    let distinct_spends = (s.n_spends as usize).min(3);
    let distinct_outputs = (s.n_outputs as usize).min(3);
    let proto_spends: Vec<_> = (0..distinct_spends)
        .map(|_| {
            let a = if force_shared || s.shared_anchor { shared } else { jubjub::Base::random(&mut rng) };
            mk_spend(&mut rng, a)
        })
        .collect();
    let proto_outputs: Vec<_> = (0..distinct_outputs).map(|_| mk_output(&mut rng)).collect();
    let spends = (0..s.n_spends as usize).map(|i| proto_spends[i % distinct_spends].clone()).collect();
    let outputs = (0..s.n_outputs as usize).map(|i| proto_outputs[i % distinct_outputs].clone()).collect();
    let mut sig = [0u8; 64];
    rng.fill_bytes(&mut sig);
    SBundle::from_parts(
        spends,
        outputs,
        ZatBalance::from_i64(s.balance).expect("in range"),
        SAuthorized {
            binding_sig: redjubjub::Signature::from(sig),
        },
    )
}

fn pallas_point_bytes(rng: &mut ChaCha8Rng) -> [u8; 32] {
    (pallas::Point::generator() * pallas::Scalar::random(&mut *rng)).to_bytes()
}

fn mk_action(rng: &mut ChaCha8Rng, identity_cv: bool) -> Action<redpallas::Signature<redpallas::SpendAuth>> {
    let nf = Option::<ONullifier>::from(ONullifier::from_bytes(&pallas::Base::random(&mut *rng).to_repr())).expect("canonical");
    let rk = redpallas::VerificationKey::<redpallas::SpendAuth>::try_from(pallas_point_bytes(rng)).expect("valid point");
    let cmx = Option::<OCmx>::from(OCmx::from_bytes(&pallas::Base::random(&mut *rng).to_repr())).expect("canonical");
    let cv_bytes = if identity_cv { [0u8; 32] } else { pallas_point_bytes(rng) };
    let cv = Option::<OValueCommitment>::from(OValueCommitment::from_bytes(&cv_bytes)).expect("valid point");
    let mut enc = [0u8; 580];
    rng.fill_bytes(&mut enc);
    let mut outc = [0u8; 80];
    rng.fill_bytes(&mut outc);
    let mut sig = [0u8; 64];
    rng.fill_bytes(&mut sig);
    let note = TransmittedNoteCiphertext {
        epk_bytes: pallas_point_bytes(rng),
        enc_ciphertext: enc,
        out_ciphertext: outc,
    };
    Action::from_parts(nf, rk, cmx, note, cv, redpallas::Signature::from(sig)).expect("non-identity rk and epk")
}

fn build_orchard(s: &OrchSpec, bv: BundleVersion) -> OBundle {
    let mut rng = ChaCha8Rng::seed_from_u64(s.seed);
    let n = s.n_actions.max(1) as usize;
    let distinct = n.min(3);
    let protos: Vec<_> = (0..distinct).map(|i| mk_action(&mut rng, s.identity_cv && i == 0)).collect();
    let actions: Vec<_> = (0..n).map(|i| protos[i % distinct].clone()).collect();
    let mut byte = s.flags & 0b11;
    if bv == BundleVersion::ironwood_v3() {
        byte |= s.flags & 0b100;
    }
    let flags = Flags::from_byte(byte, bv).expect("flag byte representable under the bundle version");
    let anchor = Option::<Anchor>::from(Anchor::from_bytes(pallas::Base::random(&mut rng).to_repr())).expect("canonical");
    let proof_len = if bv == BundleVersion::orchard_insecure_v1() {
        match s.proof_mode % 6 {
            0 => Proof::expected_proof_size(n),
            1 => 0,
            2 => 1,
            3 => 252,
            4 => 253,
            _ => Proof::expected_proof_size(n) + 1,
        }
    } else {
        Proof::expected_proof_size(n)
    };
    let mut bsig = [0u8; 64];
    rng.fill_bytes(&mut bsig);
    OBundle::try_from_parts(
        nonempty::NonEmpty::from_vec(actions).expect("n >= 1"),
        flags,
        ZatBalance::from_i64(s.balance).expect("in range"),
        anchor,
        OAuthorized::from_parts(Proof::new(fill(s.seed ^ 0x77, proof_len)), redpallas::Signature::from(bsig)),
        bv,
    )
    .expect("canonical proof size and representable flags")
}

fn tx_version_of(vk: VK, sprout_version: u32) -> TxVersion {
    match vk {
        VK::Sprout => TxVersion::Sprout(sprout_version.clamp(1, 0x7fff_ffff)),
        VK::V3 => TxVersion::V3,
        VK::V4 => TxVersion::V4,
        VK::V5 => TxVersion::V5,
        VK::V6 => TxVersion::V6,
    }
}

/// Builds the transaction a shape describes (parts the version cannot carry are dropped) and the
/// raw JoinSplit encodings it was built from.
fn build_tx(s: &ShapeSpec) -> (TransactionData<Authorized>, Vec<Vec<u8>>) {
    let (vk, branch) = PAIRS[s.pair as usize % PAIRS.len()];
    let version = tx_version_of(vk, s.sprout_version);
    let transparent = build_transparent(&s.vin, &s.vout);
    let (sprout_b, raws) = match (version.has_sprout(), s.sprout) {
        (true, Some((n, seed))) if n > 0 => {
            let (b, r) = build_sprout(n, seed, version.has_sapling());
            (Some(b), r)
        }
        _ => (None, vec![]),
    };
    let sapling_b = if version.has_sapling() { s.sapling.as_ref().and_then(|x| build_sapling(x, matches!(vk, VK::V5 | VK::V6))) } else { None };
    let orchard_b = if version.has_orchard() {
        s.orchard.as_ref().map(|x| build_orchard(x, bundle_version_for_branch(branch, ValuePool::Orchard).expect("orchard supported")))
    } else {
        None
    };
    let ironwood_b = if version.has_ironwood() {
        s.ironwood.as_ref().map(|x| build_orchard(x, bundle_version_for_branch(branch, ValuePool::Ironwood).expect("ironwood supported")))
    } else {
        None
    };
    let data = if vk == VK::V6 {
        TransactionData::from_parts_v6(branch, s.lock_time, s.expiry.into(), transparent, sapling_b, orchard_b, ironwood_b)
    } else {
        TransactionData::from_parts(version, branch, s.lock_time, if version.has_overwinter() { s.expiry.into() } else { 0u32.into() }, transparent, sprout_b, sapling_b, orchard_b)
    };
    (data, raws)
}

// ---------------------------------------------------------------------------------------------
// Strategies
// ---------------------------------------------------------------------------------------------

fn arb_u32_extreme() -> impl Strategy<Value = u32> {
    prop_oneof![
        2 => Just(0u32),
        1 => Just(1u32),
        2 => Just(u32::MAX),
        1 => Just(499_999_999u32),
        1 => Just(500_000_000u32),
        1 => Just(0x7fff_ffffu32),
        1 => Just(0x8000_0000u32),
        4 => any::<u32>(),
    ]
}

fn arb_value() -> impl Strategy<Value = u64> {
    prop_oneof![Just(0u64), Just(1u64), Just(MAX_MONEY), Just(MAX_MONEY - 1), 0..=MAX_MONEY]
}

fn arb_balance() -> impl Strategy<Value = i64> {
    prop_oneof![Just(0i64), Just(1i64), Just(-1i64), Just(MAXM), Just(-MAXM), -MAXM..=MAXM]
}

fn arb_script_len(big: bool) -> BoxedStrategy<u32> {
    if big {
        prop_oneof![
            40 => 0u32..=80,
            40 => proptest::sample::select(vec![0u32, 1, 75, 76, 77, 252, 253, 254, 255, 256, 520, 10_000]),
            1 => Just(65_535u32),
            1 => Just(65_536u32),
            8 => 0u32..=1200,
        ]
        .boxed()
    } else {
        prop_oneof![8 => 0u32..=30, 1 => proptest::sample::select(vec![0u32, 1, 75, 76, 252, 253])].boxed()
    }
}

fn arb_in(big: bool) -> impl Strategy<Value = InSpec> {
    (any::<u64>(), arb_script_len(big), arb_u32_extreme(), proptest::bool::weighted(0.08)).prop_map(|(seed, script_len, sequence, null_prevout)| InSpec {
        seed,
        script_len,
        sequence,
        null_prevout,
    })
}

fn arb_out(big: bool) -> impl Strategy<Value = OutSpec> {
    (arb_value(), arb_script_len(big), any::<u64>()).prop_map(|(value, script_len, seed)| OutSpec { value, script_len, seed })
}

/// `boundary_weight`: relative weight (out of ~20) of a 252/253/254-element vector.
fn arb_vin(boundary_weight: u32) -> impl Strategy<Value = Vec<InSpec>> {
    prop_oneof![
        14 => proptest::collection::vec(arb_in(true), 0..=3),
        boundary_weight => proptest::collection::vec(arb_in(false), 252..=254),
        3 => proptest::collection::vec(arb_in(false), 4..=12),
    ]
}

fn arb_vout(boundary_weight: u32) -> impl Strategy<Value = Vec<OutSpec>> {
    prop_oneof![
        14 => proptest::collection::vec(arb_out(true), 0..=3),
        boundary_weight => proptest::collection::vec(arb_out(false), 252..=254),
        3 => proptest::collection::vec(arb_out(false), 4..=12),
    ]
}

fn arb_shielded_count(boundary_weight: u32, min: u16) -> BoxedStrategy<u16> {
    if boundary_weight == 0 {
        prop_oneof![30 => min..=2u16, 2 => 3u16..=4].boxed()
    } else {
        prop_oneof![300 => min..=3u16, 40 => 4u16..=9, boundary_weight => 252u16..=254].boxed()
    }
}

fn arb_sapling(boundary_weight: u32) -> impl Strategy<Value = SapSpec> {
    (arb_shielded_count(boundary_weight, 0), arb_shielded_count(boundary_weight, 0), arb_balance(), any::<u64>(), any::<bool>()).prop_map(|(n_spends, n_outputs, balance, seed, shared_anchor)| SapSpec {
        n_spends,
        n_outputs,
        balance,
        seed,
        shared_anchor,
    })
}

fn arb_orchard(boundary_weight: u32) -> impl Strategy<Value = OrchSpec> {
    (arb_shielded_count(boundary_weight, 1), arb_balance(), any::<u64>(), 0u8..8, 0u8..6, proptest::bool::weighted(0.1)).prop_map(|(n_actions, balance, seed, flags, proof_mode, identity_cv)| OrchSpec {
        n_actions,
        balance,
        seed,
        flags,
        proof_mode,
        identity_cv,
    })
}

fn arb_pair() -> impl Strategy<Value = u8> {
    prop_oneof![2 => Just(0u8), 1 => Just(1u8), 3 => 2u8..=10, 4 => 11u8..=15, 4 => Just(16u8)]
}

/// `bw`: weight (of ~20) of 252..254-element transparent vectors; `shielded_bw`: weight (of ~340)
/// of 252..254 shielded elements, 0 = none and at most 4 elements; `p`: presence probability of
/// each shielded bundle.
fn arb_shape(bw: u32, shielded_bw: u32, p: f64) -> impl Strategy<Value = ShapeSpec> {
    (
        arb_pair(),
        prop_oneof![Just(1u32), Just(2u32), Just(3u32), Just(0x7fff_ffffu32), 1u32..=0x7fff_ffff],
        arb_u32_extreme(),
        arb_u32_extreme(),
        arb_vin(bw),
        arb_vout(bw),
        proptest::option::weighted(p * 0.6, (1u8..=3, any::<u64>())),
        proptest::option::weighted(p, arb_sapling(shielded_bw)),
        proptest::option::weighted(p, arb_orchard(shielded_bw)),
        proptest::option::weighted(p, arb_orchard(shielded_bw)),
    )
        .prop_map(|(pair, sprout_version, lock_time, expiry, vin, vout, sprout, sapling, orchard, ironwood)| ShapeSpec {
            pair,
            sprout_version,
            lock_time,
            expiry,
            vin,
            vout,
            sprout,
            sapling,
            orchard,
            ironwood,
        })
}

// ---------------------------------------------------------------------------------------------
// Structured oracle
// ---------------------------------------------------------------------------------------------

fn first_diff_offset(a: &[u8], b: &[u8]) -> usize {
    a.iter().zip(b.iter()).position(|(x, y)| x != y).unwrap_or(a.len().min(b.len()))
}

fn is_boundary(v: u64) -> bool {
    matches!(v, 252 | 253 | 254 | 0xffff | 0x1_0000)
}

/// write → reference comparison → read → field/txid/auth equality → write again; trailing bytes;
/// branch-parameter handling. `js_raw` = reference bytes of the JoinSplits (harness-built).
fn check_structured(data: TransactionData<Authorized>, js_raw: &[Vec<u8>]) -> CaseResult {
    let version = data.version();
    let vk = vk_of(version);
    let branch = data.consensus_branch_id();
    let d0 = dump_tx(&data);
    let want = ref_serialize(&data, js_raw);
    let tx = match catch(move || data.freeze()) {
        Ok(Ok(t)) => t,
        Ok(Err(e)) => vfail!("freeze-error", "freeze() of a well-formed {version:?}/{branch:?} transaction failed: {e}"),
        Err(p) => vfail!(format!("freeze-panic:{}", panic_site(&p)), "freeze() panicked: {p}"),
    };
    let mut bytes = vec![];
    match catch(|| tx.write(&mut bytes)) {
        Ok(Ok(())) => {}
        Ok(Err(e)) => vfail!("write-error", "write of a well-formed {version:?}/{branch:?} transaction failed: {e}"),
        Err(p) => vfail!(format!("tx-write-panic:{}", panic_site(&p)), "write panicked: {p}"),
    }
    if bytes != want {
        let o = first_diff_offset(&bytes, &want);
        vfail!(
            "write-differs-from-reference",
            "{version:?}/{branch:?}: write() ({} bytes) differs from the reference serialisation ({} bytes) at offset {o}: got …{} want …{}",
            bytes.len(),
            want.len(),
            hex::encode(&bytes[o.saturating_sub(8)..(o + 24).min(bytes.len())]),
            hex::encode(&want[o.saturating_sub(8)..(o + 24).min(want.len())])
        );
    }
    let lay = match walk_tx(&bytes) {
        Some(l) if l.end == bytes.len() && l.vk == vk => l,
        other => vfail!("harness-walker-mismatch", "layout walker does not cover the reference serialisation: {:?}", other.map(|l| (l.vk, l.end, bytes.len()))),
    };
    vensure_eq!(lay.lock_time, tx.lock_time(), "harness-walker-mismatch", "lock_time located by the walker");
    if let Some(e) = lay.expiry {
        vensure_eq!(e, u32::from(tx.expiry_height()), "harness-walker-mismatch", "expiry height located by the walker");
    }
    if let Some(b) = lay.branch {
        vensure_eq!(b, u32::from(branch), "harness-walker-mismatch", "branch id located by the walker");
    }
    // read back
    let (r, pos) = parse_tx(&bytes, branch).map_err(|p| Fail::new(format!("tx-read-panic:{}", panic_site(&p)), format!("Transaction::read panicked on write() output: {p}; bytes {}", hx(&bytes))))?;
    let parsed = match r {
        Ok(t) => t,
        Err(e) => vfail!("read-rejects-own-encoding", "{version:?}/{branch:?}: read(write(tx)) failed: {e}; bytes {}", hx(&bytes)),
    };
    vensure_eq!(pos, bytes.len(), "read-consumed-mismatch", "position after reading write() output");
    if let Some(df) = d0.diff(&dump_tx(&parsed)) {
        vfail!("roundtrip-field-mismatch", "{version:?}/{branch:?}: write→read changes {df}");
    }
    vensure!(parsed.txid() == tx.txid(), "roundtrip-txid-mismatch", "{version:?}/{branch:?}: txid {} before, {} after write→read", tx.txid(), parsed.txid());
    vensure!(
        parsed.auth_commitment().as_bytes() == tx.auth_commitment().as_bytes(),
        "roundtrip-auth-commitment-mismatch",
        "{version:?}/{branch:?}: auth commitment changes across write→read"
    );
    let mut bytes2 = vec![];
    match catch(|| parsed.write(&mut bytes2)) {
        Ok(Ok(())) => {}
        other => vfail!("rewrite-failed", "second write failed: {:?}", other.map(|r| r.map_err(|e| e.to_string()))),
    }
    vensure!(bytes2 == bytes, "rewrite-not-identical", "{version:?}/{branch:?}: write(read(write(tx))) differs at offset {}", first_diff_offset(&bytes, &bytes2));
    if matches!(vk, VK::Sprout | VK::V3 | VK::V4) {
        vensure!(*tx.txid().as_ref() == sha256d(&bytes), "txid-not-sha256d", "{version:?}: txid {} != sha256d(bytes) {}", hex::encode(tx.txid().as_ref()), hex::encode(sha256d(&bytes)));
    }
    // the branch parameter of `read`: stored as given for v1–v4, ignored for v5+
    let other = BRANCHES[(branch_sel(branch) as usize + 1 + (bytes.len() % 9)) % BRANCHES.len()];
    match parse_tx(&bytes, other) {
        Ok((Ok(t), _)) => {
            let want_branch = if matches!(vk, VK::V5 | VK::V6) { branch } else { other };
            vensure_eq!(t.consensus_branch_id(), want_branch, "branch-parameter-handling", "{version:?} read with branch parameter {other:?}");
            vensure!(t.txid() == tx.txid(), "branch-parameter-handling", "{version:?}: txid depends on the branch parameter of read");
        }
        other_r => vfail!("branch-parameter-handling", "{version:?}: read with branch parameter {other:?} failed: {:?}", other_r.map(|(r, p)| (r.map(|_| ()).map_err(|e| e.to_string()), p))),
    }
    // the full byte oracle on the exact encoding and on the encoding followed by trailing bytes
    let sel = branch_sel(branch);
    let obs = check_tx_bytes(sel, &bytes)?;
    vensure!(obs.accepted && obs.reser_identical && obs.consumed == bytes.len(), "read-rejects-own-encoding", "byte oracle on write() output: {obs:?}");
    let mut st = MutStats::default();
    let txid: [u8; 32] = *tx.txid().as_ref();
    eval_tx_mutation(sel, &bytes, &txid, &lay, &Mutation::Extend(fill(bytes.len() as u64, 1 + bytes.len() % 40)), &mut st)?;

    // classification
    let n_bundles = [
        tx.transparent_bundle().is_some(),
        tx.sprout_bundle().is_some(),
        tx.sapling_bundle().is_some(),
        tx.orchard_bundle().is_some(),
        tx.ironwood_bundle().is_some(),
    ]
    .iter()
    .filter(|x| **x)
    .count();
    let boundary = lay.fields.iter().any(|f| !f.kind.is_amount() && is_boundary(f.val as u64));
    let sprout_v = if let TxVersion::Sprout(v) = version { v } else { 0 };
    let obs = Obs::new(n_bundles >= 2 || boundary)
        .key(hash64(&bytes))
        .label(vk_label(vk, sprout_v))
        .label_if(n_bundles >= 2, "bundles>=2")
        .label_if(n_bundles == 0, "all-bundles-none")
        .label_if(boundary, "count-at-compactsize-boundary")
        .label_if(tx.transparent_bundle().is_some(), "has-transparent")
        .label_if(tx.transparent_bundle().is_some() && n_bundles == 1, "transparent-only")
        .label_if(tx.sprout_bundle().is_some(), "has-sprout")
        .label_if(tx.sapling_bundle().is_some(), "has-sapling")
        .label_if(tx.sapling_bundle().map(|b| b.shielded_spends().is_empty()).unwrap_or(false), "sapling-outputs-only")
        .label_if(tx.sapling_bundle().map(|b| b.shielded_outputs().is_empty()).unwrap_or(false), "sapling-spends-only")
        .label_if(tx.orchard_bundle().is_some(), "has-orchard")
        .label_if(tx.ironwood_bundle().is_some(), "has-ironwood")
        .label_if(tx.ironwood_bundle().map(|b| b.flag_byte() & 4 != 0).unwrap_or(false), "ironwood-cross-address-bit")
        .label_if(lay.fields.iter().any(|f| matches!(f.kind, FK::ScriptSigLen | FK::ScriptPubKeyLen) && f.val >= 253), "script-len>=253")
        .label_if(lay.fields.iter().any(|f| matches!(f.kind, FK::TxInCount | FK::TxOutCount) && f.val >= 252), "transparent-count>=252")
        .label_if(lay.fields.iter().any(|f| matches!(f.kind, FK::NSpendsSapling | FK::NOutputsSapling | FK::NActionsOrchard | FK::NActionsIronwood) && f.val >= 252), "shielded-count>=252")
        .label_if(vk == VK::V4 && !matches!(branch, BranchId::Sapling | BranchId::Blossom | BranchId::Heartwood | BranchId::Canopy), "v4-in-nu5+")
        .label_if(vk == VK::V5 && branch == BranchId::Nu6_3, "v5-in-nu6.3")
        .count("bytes", bytes.len() as u64);
    Ok(obs)
}

/// Repo-generated transaction made well-formed for its (version, branch): Sapling spends of a
/// v5/v6 transaction share the first spend's anchor (the encoding carries one anchor), and the
/// Orchard/Ironwood bundles carry the `BundleVersion` their branch prescribes.
fn normalise(data: TransactionData<Authorized>) -> TransactionData<Authorized> {
    let vk = vk_of(data.version());
    let branch = data.consensus_branch_id();
    if vk == VK::Sprout {
        // pre-Overwinter encodings have no expiry height field: the well-formed value is 0
        return TransactionData::from_parts(data.version(), branch, data.lock_time(), 0u32.into(), data.transparent_bundle().cloned(), None, None, None);
    }
    data.map_bundles::<Authorized>(
        |t| t,
        |s| {
            s.and_then(|b| {
                if !matches!(vk, VK::V5 | VK::V6) || b.shielded_spends().is_empty() {
                    return Some(b);
                }
                let anchor = *b.shielded_spends()[0].anchor();
                let spends = b
                    .shielded_spends()
                    .iter()
                    .map(|s| SpendDescription::from_parts(s.cv().clone(), anchor, *s.nullifier(), *s.rk(), *s.zkproof(), *s.spend_auth_sig()))
                    .collect();
                SBundle::from_parts(spends, b.shielded_outputs().to_vec(), *b.value_balance(), *b.authorization())
            })
        },
        |o| {
            o.map(|b| {
                let pool = b.bundle_version().value_pool();
                let bv = bundle_version_for_branch(branch, pool).expect("pool supported under the generated branch");
                let flags = Flags::from_byte(b.flag_byte(), bv).expect("flag byte representable");
                OBundle::try_from_parts(b.actions().clone(), flags, *b.value_balance(), *b.anchor(), b.authorization().clone(), bv).expect("canonical proof")
            })
        },
    )
}

struct TxCase {
    data: TransactionData<Authorized>,
}

impl std::fmt::Debug for TxCase {
    fn fmt(&self, f: &mut std::fmt::Formatter<'_>) -> std::fmt::Result {
        let d = &self.data;
        let bytes = ref_serialize(d, &[]);
        write!(
            f,
            "TxCase{{{:?}/{:?} vin={} vout={} sapling={:?} orchard={:?} ironwood={:?} bytes={}}}",
            d.version(),
            d.consensus_branch_id(),
            d.transparent_bundle().map(|b| b.vin.len()).unwrap_or(0),
            d.transparent_bundle().map(|b| b.vout.len()).unwrap_or(0),
            d.sapling_bundle().map(|b| (b.shielded_spends().len(), b.shielded_outputs().len())),
            d.orchard_bundle().map(|b| b.actions().len()),
            d.ironwood_bundle().map(|b| b.actions().len()),
            hex::encode(bytes)
        )
    }
}

fn arb_repo_case() -> impl Strategy<Value = TxCase> {
    (0usize..BRANCHES.len()).prop_flat_map(|i| tx_testing::arb_txdata(BRANCHES[i]).prop_map(|d| TxCase { data: normalise(d) }))
}

// ---------------------------------------------------------------------------------------------
// Byte-mutation sub-checks over generated bases
// ---------------------------------------------------------------------------------------------

struct Base {
    bytes: Vec<u8>,
    txid: [u8; 32],
    sel: u8,
    lay: Layout,
}

fn make_base(s: &ShapeSpec) -> Result<Base, Fail> {
    let (data, _raws) = build_tx(s);
    let branch = data.consensus_branch_id();
    let tx = match catch(move || data.freeze()) {
        Ok(Ok(t)) => t,
        other => vfail!("freeze-error", "freeze failed: {:?}", other.map(|r| r.map(|_| ()).map_err(|e| e.to_string()))),
    };
    let mut bytes = vec![];
    if let Err(e) = tx.write(&mut bytes) {
        vfail!("write-error", "write failed: {e}");
    }
    let lay = match walk_tx(&bytes) {
        Some(l) if l.end == bytes.len() => l,
        _ => vfail!("harness-walker-mismatch", "walker does not cover write() output {}", hx(&bytes)),
    };
    Ok(Base {
        txid: *tx.txid().as_ref(),
        sel: branch_sel(branch),
        bytes,
        lay,
    })
}

const LOCATED_CAP: usize = 64;
const TRUNC_CAP: usize = 40;

/// Base + every located-field mutation (sampled above a cap) + truncation at every element
/// boundary (sampled above a cap) + all header swaps.
fn tx_bytes_located(case: &(ShapeSpec, Vec<u32>)) -> CaseResult {
    let (spec, sels) = case;
    let b = make_base(spec)?;
    let mut st = MutStats::default();
    let all = located_mutations(&b.lay);
    if all.len() <= LOCATED_CAP {
        for m in &all {
            eval_tx_mutation(b.sel, &b.bytes, &b.txid, &b.lay, m, &mut st)?;
        }
    } else {
        for s in sels.iter().cycle().take(LOCATED_CAP).enumerate() {
            let m = &all[pick_index(s.1.wrapping_add((s.0 as u32).wrapping_mul(0x9e37_79b9)), all.len())];
            eval_tx_mutation(b.sel, &b.bytes, &b.txid, &b.lay, m, &mut st)?;
        }
    }
    let mut cuts: Vec<usize> = b.lay.bounds.iter().copied().filter(|o| *o < b.bytes.len()).collect();
    cuts.push(b.bytes.len() - 1);
    cuts.sort();
    cuts.dedup();
    if cuts.len() <= TRUNC_CAP {
        for c in &cuts {
            eval_tx_mutation(b.sel, &b.bytes, &b.txid, &b.lay, &Mutation::Truncate(*c), &mut st)?;
        }
    } else {
        for s in sels.iter().cycle().take(TRUNC_CAP).enumerate() {
            let c = cuts[pick_index(s.1.wrapping_add((s.0 as u32).wrapping_mul(0x85eb_ca6b)), cuts.len())];
            eval_tx_mutation(b.sel, &b.bytes, &b.txid, &b.lay, &Mutation::Truncate(c), &mut st)?;
        }
    }
    for m in header_mutations(&b.lay) {
        eval_tx_mutation(b.sel, &b.bytes, &b.txid, &b.lay, &m, &mut st)?;
    }
    let obs = Obs::nontrivial()
        .key(hash64(&b.bytes))
        .label(vk_label(b.lay.vk, b.lay.header & 0x7fff_ffff))
        .label_if(all.len() > LOCATED_CAP, "located-mutations-sampled")
        .label_if(st.accepted > 0, "some-mutant-accepted");
    Ok(mut_obs(obs, &st))
}

/// Base + a handful of random mutants: 1 located, 2 truncations, 1 extension, 4 single-byte, 1 header swap.
fn tx_bytes_random(case: &(ShapeSpec, Vec<u32>, Vec<u8>)) -> CaseResult {
    let (spec, sels, tail) = case;
    let b = make_base(spec)?;
    let mut st = MutStats::default();
    let n = b.bytes.len();
    let sel = |i: usize| sels[i % sels.len()];
    let all = located_mutations(&b.lay);
    if !all.is_empty() {
        for k in 0..2 {
            let m = &all[pick_index(sel(k), all.len())];
            eval_tx_mutation(b.sel, &b.bytes, &b.txid, &b.lay, m, &mut st)?;
        }
    }
    for k in 2..4 {
        eval_tx_mutation(b.sel, &b.bytes, &b.txid, &b.lay, &Mutation::Truncate(pick_index(sel(k), n)), &mut st)?;
    }
    eval_tx_mutation(b.sel, &b.bytes, &b.txid, &b.lay, &Mutation::Extend(tail.clone()), &mut st)?;
    for k in 4..8 {
        let off = pick_index(sel(k), n);
        // half of the single-byte mutations go to the structural prefix (header, counts), where
        // they are most likely to produce a different accepted transaction
        let off = if k % 2 == 0 { off } else { b.lay.fields.get(pick_index(sel(k + 8), b.lay.fields.len().max(1))).map(|f| f.off + (sel(k) as usize % f.len)).unwrap_or(off) };
        let delta = 1 + (sel(k + 4) % 255) as u8;
        let val = match sel(k + 4) % 7 {
            0 => 0xfd,
            1 => 0xfe,
            2 => 0xff,
            3 => 0x00,
            _ => b.bytes[off].wrapping_add(delta),
        };
        eval_tx_mutation(b.sel, &b.bytes, &b.txid, &b.lay, &Mutation::SetByte { off, val }, &mut st)?;
    }
    let hm = header_mutations(&b.lay);
    let m = &hm[pick_index(sel(12), hm.len())];
    eval_tx_mutation(b.sel, &b.bytes, &b.txid, &b.lay, m, &mut st)?;
    let obs = Obs::nontrivial()
        .key(hash64(&[&b.bytes[..], &sels.iter().flat_map(|s| s.to_le_bytes()).collect::<Vec<u8>>()[..]].concat()))
        .label(vk_label(b.lay.vk, b.lay.header & 0x7fff_ffff))
        .label_if(st.general_accepted > 0, "non-must-accept-mutant-accepted");
    Ok(mut_obs(obs, &st))
}

// ---------------------------------------------------------------------------------------------
// Block headers
// ---------------------------------------------------------------------------------------------

#[derive(Clone, Debug)]
struct HeaderSpec {
    version: i32,
    seed: u64,
    time: u32,
    bits: u32,
    sol_len: u32,
    trailing: u16,
    sels: Vec<u32>,
}

fn arb_header() -> impl Strategy<Value = HeaderSpec> {
    (
        prop_oneof![Just(4i32), Just(0i32), Just(-1i32), Just(i32::MIN), Just(i32::MAX), any::<i32>()],
        any::<u64>(),
        arb_u32_extreme(),
        arb_u32_extreme(),
        prop_oneof![
            6 => proptest::sample::select(vec![0u32, 1, 36, 68, 100, 252, 253, 254, 255, 256, 400, 1344]),
            1 => Just(65_535u32),
            1 => Just(65_536u32),
            6 => 0u32..=2000,
        ],
        prop_oneof![Just(0u16), Just(1u16), 0u16..=300],
        proptest::collection::vec(any::<u32>(), 12),
    )
        .prop_map(|(version, seed, time, bits, sol_len, trailing, sels)| HeaderSpec {
            version,
            seed,
            time,
            bits,
            sol_len,
            trailing,
            sels,
        })
}

fn check_header(s: &HeaderSpec) -> CaseResult {
    let mk = || BlockHeaderData {
        version: s.version,
        prev_block: BlockHash(fill_arr::<32>(s.seed ^ 1)),
        merkle_root: fill_arr::<32>(s.seed ^ 2),
        final_sapling_root: fill_arr::<32>(s.seed ^ 3),
        time: s.time,
        bits: s.bits,
        nonce: fill_arr::<32>(s.seed ^ 4),
        solution: fill(s.seed ^ 5, s.sol_len as usize),
    };
    let want = header_fields(&mk());
    vensure_eq!(want.len(), 140 + ref_compact_vec(s.sol_len as u64).len() + s.sol_len as usize, "harness-header-length", "reference header length");
    let h = match catch(|| mk().freeze()) {
        Ok(Ok(h)) => h,
        Ok(Err(e)) => vfail!("header-freeze-error", "freeze failed: {e}"),
        Err(p) => vfail!(format!("header-freeze-panic:{}", panic_site(&p)), "freeze panicked: {p}"),
    };
    let mut bytes = vec![];
    match catch(|| h.write(&mut bytes)) {
        Ok(Ok(())) => {}
        other => vfail!("header-write-error", "write failed: {:?}", other.map(|r| r.map_err(|e| e.to_string()))),
    }
    vensure!(bytes == want, "header-write-differs-from-reference", "write() differs from the reference serialisation at offset {}", first_diff_offset(&bytes, &want));
    vensure!(h.hash().0 == sha256d(&bytes), "header-hash-not-sha256d-of-write", "freeze(): hash {} but sha256d(write()) = {}", hex::encode(h.hash().0), hex::encode(sha256d(&bytes)));
    // exact bytes, then bytes followed by trailing data
    let obs = check_header_bytes(&bytes)?;
    vensure!(obs.accepted && obs.consumed == bytes.len(), "header-read-rejects-own-encoding", "read(write(header)): {obs:?}");
    vensure!(obs.hash == h.hash().0, "header-roundtrip-hash-mismatch", "hash changes across write→read");
    let (r, _) = parse_header(&bytes).map_err(|p| Fail::new("header-read-panic", p))?;
    let back = r.map_err(|e| Fail::new("header-read-rejects-own-encoding", e.to_string()))?;
    let orig = mk();
    vensure!(
        back.version == orig.version
            && back.prev_block == orig.prev_block
            && back.merkle_root == orig.merkle_root
            && back.final_sapling_root == orig.final_sapling_root
            && back.time == orig.time
            && back.bits == orig.bits
            && back.nonce == orig.nonce
            && back.solution == orig.solution,
        "header-roundtrip-field-mismatch",
        "a field changes across write→read: {:?} vs {:?}",
        (back.version, back.time, back.bits, back.solution.len()),
        (orig.version, orig.time, orig.bits, orig.solution.len())
    );
    let lay = walk_header(&bytes).filter(|l| l.end == bytes.len()).ok_or_else(|| Fail::new("harness-walker-mismatch", "header walker"))?;
    let mut st = MutStats::default();
    let hash = h.hash().0;
    eval_header_mutation(&bytes, &hash, &lay, &Mutation::Extend(fill(s.seed ^ 6, s.trailing as usize)), &mut st)?;
    for m in located_mutations(&lay) {
        eval_header_mutation(&bytes, &hash, &lay, &m, &mut st)?;
    }
    // truncation: all structural boundaries + sampled offsets; single-byte mutations
    let mut cuts = vec![0usize, 3, 4, 36, 68, 100, 104, 108, 139, 140, bytes.len() - 1];
    if lay.fields[0].len > 1 {
        cuts.push(141);
        cuts.push(140 + lay.fields[0].len);
    }
    for k in 0..4 {
        cuts.push(pick_index(s.sels[k], bytes.len()));
    }
    cuts.sort();
    cuts.dedup();
    for c in cuts {
        if c < bytes.len() {
            eval_header_mutation(&bytes, &hash, &lay, &Mutation::Truncate(c), &mut st)?;
        }
    }
    for k in 4..10 {
        let off = if k % 2 == 0 { pick_index(s.sels[k], bytes.len()) } else { 140 + (s.sels[k] as usize % lay.fields[0].len) };
        let val = match s.sels[k] % 5 {
            0 => 0xfd,
            1 => 0xfe,
            2 => 0xff,
            _ => bytes[off].wrapping_add(1 + (s.sels[k] >> 8) as u8 % 255),
        };
        eval_header_mutation(&bytes, &hash, &lay, &Mutation::SetByte { off, val }, &mut st)?;
    }
    let obs = Obs::nontrivial()
        .key(hash64(&bytes))
        .label_if(is_boundary(s.sol_len as u64), "solution-len-at-compactsize-boundary")
        .label_if(s.sol_len == 1344, "mainnet-solution-size")
        .label_if(s.sol_len == 0, "empty-solution")
        .label_if(s.sol_len >= 253, "solution-len>=253")
        .label_if(s.trailing > 0, "trailing-bytes");
    Ok(mut_obs(obs, &st))
}

// ---------------------------------------------------------------------------------------------
// encoding_combinators: LOCAL components/zcash_encoding 0.5
// ---------------------------------------------------------------------------------------------

#[derive(Clone, Debug)]
struct CombCase {
    v: u64,
    elems: Vec<u16>,
    opt: Option<Vec<u8>>,
    raw: Vec<u8>,
    cut: u32,
}

fn arb_comb_value() -> impl Strategy<Value = u64> {
    prop_oneof![
        4 => proptest::sample::select(vec![
            0u64, 1, 251, 252, 253, 254, 255, 256, 0xfffe, 0xffff, 0x1_0000, 0x1_0001, MAX_COMPACT - 1, MAX_COMPACT, MAX_COMPACT + 1,
            0xffff_fffe, 0xffff_ffff, 0x1_0000_0000, 0x1_0000_0001, u64::MAX - 1, u64::MAX, 1 << 63,
        ]),
        3 => 0u64..=300,
        2 => 0u64..=0x2_0000,
        2 => (MAX_COMPACT - 300)..=(MAX_COMPACT + 300),
        1 => any::<u32>().prop_map(|x| x as u64),
        1 => any::<u64>(),
    ]
}

fn arb_comb() -> impl Strategy<Value = CombCase> {
    (
        arb_comb_value(),
        prop_oneof![
            6 => proptest::collection::vec(any::<u16>(), 0..=6),
            1 => proptest::collection::vec(any::<u16>(), 252..=254),
            1 => proptest::collection::vec(any::<u16>(), 0..=40),
        ],
        proptest::option::of(proptest::collection::vec(any::<u8>(), 0..=20)),
        proptest::collection::vec(prop_oneof![3 => any::<u8>(), 2 => 252u8..=255, 1 => Just(0u8)], 0..=10),
        any::<u32>(),
    )
        .prop_map(|(v, elems, opt, raw, cut)| CombCase { v, elems, opt, raw, cut })
}

fn rd_u16<R: Read>(r: &mut R) -> std::io::Result<u16> {
    let mut b = [0u8; 2];
    r.read_exact(&mut b)?;
    Ok(u16::from_le_bytes(b))
}

fn rd_u8<R: Read>(r: &mut R) -> std::io::Result<u8> {
    let mut b = [0u8; 1];
    r.read_exact(&mut b)?;
    Ok(b[0])
}

macro_rules! nopanic {
    ($what:expr, $e:expr) => {
        catch(|| $e).map_err(|p| Fail::new(format!("encoding-panic:{}", panic_site(&p)), format!("{} panicked: {p}", $what)))?
    };
}

fn check_combinators(c: &CombCase) -> CaseResult {
    use zel::{Array, CompactSize, Optional, Vector};
    let v = c.v;
    let in_bound = v <= MAX_COMPACT;
    let enc = ref_compact_vec(v);
    // --- CompactSize::write (bounded)
    let mut got = vec![];
    let r = nopanic!("CompactSize::write", CompactSize::write(&mut got, v as usize));
    match r {
        Ok(()) => {
            vensure!(in_bound, "compactsize-write-bound", "write({v}) succeeded although the value exceeds MAX_COMPACT_SIZE");
            vensure!(got == enc, "compactsize-write-bytes", "write({v}) = {} want {}", hex::encode(&got), hex::encode(&enc));
        }
        Err(_) => vensure!(!in_bound, "compactsize-write-bound", "write({v}) failed although the value is within MAX_COMPACT_SIZE"),
    }
    vensure_eq!(CompactSize::serialized_size(v as usize), enc.len(), "compactsize-serialized-size", "serialized_size({v})");
    // --- CompactSize::read on the canonical encoding
    let mut cur = Cursor::new(&enc[..]);
    let r = nopanic!("CompactSize::read", CompactSize::read(&mut cur));
    match r {
        Ok(x) => {
            vensure!(in_bound, "compactsize-read-bound", "read accepted {v} > MAX_COMPACT_SIZE");
            vensure_eq!(x, v, "compactsize-read-value", "read(canonical({v}))");
            vensure_eq!(cur.position() as usize, enc.len(), "compactsize-read-consumed", "bytes consumed for {v}");
        }
        Err(_) => vensure!(!in_bound, "compactsize-read-bound", "read rejected the canonical encoding of {v} (within the bound)"),
    }
    // --- read_t into narrower types
    macro_rules! rt {
        ($t:ty) => {{
            let r: std::io::Result<$t> = nopanic!("CompactSize::read_t", CompactSize::read_t(&enc[..]));
            let fits = in_bound && <$t>::try_from(v).is_ok();
            match r {
                Ok(x) => vensure!(fits && x as u64 == v, "compactsize-read-t", "read_t::<{}>({v}) = {x}", stringify!($t)),
                Err(_) => vensure!(!fits, "compactsize-read-t", "read_t::<{}>({v}) failed although it fits", stringify!($t)),
            }
        }};
    }
    rt!(u8);
    rt!(u16);
    rt!(u32);
    rt!(u64);
    rt!(usize);
    // --- non-canonical forms and truncations are rejected
    let mut noncanon = 0u64;
    for form in (canonical_form(v) + 1)..=3 {
        let nc = compact_in_form(v, form).unwrap();
        let r = nopanic!("CompactSize::read", CompactSize::read(&nc[..]));
        vensure!(r.is_err(), "compactsize-accepts-noncanonical", "read accepted {} as {:?} (minimal form is {})", hex::encode(&nc), r, hex::encode(&enc));
        let r: std::io::Result<u64> = nopanic!("CompactSize::read_t", CompactSize::read_t(&nc[..]));
        vensure!(r.is_err(), "compactsize-accepts-noncanonical", "read_t accepted {}", hex::encode(&nc));
        noncanon += 1;
    }
    for cut in 0..enc.len() {
        let r = nopanic!("CompactSize::read", CompactSize::read(&enc[..cut]));
        vensure!(r.is_err(), "compactsize-accepts-truncated", "read accepted {} (truncated from {})", hex::encode(&enc[..cut]), hex::encode(&enc));
    }
    // --- arbitrary bytes against the reference decoder
    let mut cur = Cursor::new(&c.raw[..]);
    let r = nopanic!("CompactSize::read", CompactSize::read(&mut cur));
    match (r, ref_read_compact(&c.raw, true)) {
        (Ok(x), Ok((w, used))) => {
            vensure!(x == w && cur.position() as usize == used, "compactsize-vs-reference", "read({}) = {x} using {} bytes; reference {w} using {used}", hex::encode(&c.raw), cur.position());
        }
        (Err(_), Err(_)) => {}
        (got, want) => vfail!("compactsize-vs-reference", "read({}) = {:?}; reference decoder says {:?}", hex::encode(&c.raw), got.map_err(|e| e.to_string()), want),
    }
    // --- Vector
    let n = c.elems.len();
    let mut want = ref_compact_vec(n as u64);
    let body: Vec<u8> = c.elems.iter().flat_map(|e| e.to_le_bytes()).collect();
    want.extend_from_slice(&body);
    let mut got = vec![];
    nopanic!("Vector::write", Vector::write(&mut got, &c.elems, |w, e| w.write_all(&e.to_le_bytes()))).map_err(|e| Fail::new("vector-write", e.to_string()))?;
    vensure!(got == want, "vector-write-bytes", "Vector::write of {n} elements");
    let mut got2 = vec![];
    nopanic!("Vector::write_sized", Vector::write_sized(&mut got2, c.elems.iter(), |w, e| w.write_all(&e.to_le_bytes()))).map_err(|e| Fail::new("vector-write", e.to_string()))?;
    vensure!(got2 == want, "vector-write-bytes", "Vector::write_sized of {n} elements");
    if let Some(ne) = nonempty::NonEmpty::from_vec(c.elems.clone()) {
        let mut got3 = vec![];
        nopanic!("Vector::write_nonempty", Vector::write_nonempty(&mut got3, &ne, |w, e| w.write_all(&e.to_le_bytes()))).map_err(|e| Fail::new("vector-write", e.to_string()))?;
        vensure!(got3 == want, "vector-write-bytes", "Vector::write_nonempty of {n} elements");
    }
    let mut padded = want.clone();
    padded.extend_from_slice(&c.raw);
    let mut cur = Cursor::new(&padded[..]);
    let back: Vec<u16> = nopanic!("Vector::read", Vector::read(&mut cur, |r| rd_u16(r))).map_err(|e| Fail::new("vector-read-rejects-own-encoding", e.to_string()))?;
    vensure!(back == c.elems && cur.position() as usize == want.len(), "vector-roundtrip", "Vector::read(write(v)) differs or consumed {} of {}", cur.position(), want.len());
    let back2: Vec<u16> = nopanic!("Vector::read_collected", Vector::read_collected(&want[..], |r| rd_u16(r))).map_err(|e| Fail::new("vector-read-rejects-own-encoding", e.to_string()))?;
    vensure!(back2 == c.elems, "vector-roundtrip", "Vector::read_collected");
    let cut = pick_index(c.cut, want.len());
    let r: std::io::Result<Vec<u16>> = nopanic!("Vector::read", Vector::read(&want[..cut], |r| rd_u16(r)));
    vensure!(r.is_err(), "vector-accepts-truncated", "Vector::read accepted the first {cut} of {} bytes", want.len());
    let pfx = ref_compact_vec(n as u64).len();
    for form in (canonical_form(n as u64) + 1)..=3 {
        let mut nc = compact_in_form(n as u64, form).unwrap();
        nc.extend_from_slice(&body);
        let r: std::io::Result<Vec<u16>> = nopanic!("Vector::read", Vector::read(&nc[..], |r| rd_u16(r)));
        vensure!(r.is_err(), "vector-accepts-noncanonical-length", "Vector::read accepted a non-minimal length prefix {}", hex::encode(&nc[..nc.len() - body.len()]));
        noncanon += 1;
    }
    for bad in [n as u64 + 1, MAX_COMPACT + 1] {
        let mut e = ref_compact_vec(bad);
        e.extend_from_slice(&body);
        let r: std::io::Result<Vec<u16>> = nopanic!("Vector::read", Vector::read(&e[..], |r| rd_u16(r)));
        vensure!(r.is_err(), "vector-accepts-overlong-count", "Vector::read accepted count {bad} over {n} elements");
    }
    let bytes8: Vec<u8> = body.clone();
    vensure_eq!(Vector::serialized_size_of_u8_vec(&bytes8), ref_compact_vec(bytes8.len() as u64).len() + bytes8.len(), "vector-serialized-size", "serialized_size_of_u8_vec");
    let _ = pfx;
    // --- Array
    let mut got = vec![];
    nopanic!("Array::write", Array::write(&mut got, c.elems.iter(), |w, e| w.write_all(&e.to_le_bytes()))).map_err(|e| Fail::new("array-write", e.to_string()))?;
    vensure!(got == body, "array-write-bytes", "Array::write of {n} elements");
    let mut cur = Cursor::new(&body[..]);
    let back: Vec<u16> = nopanic!("Array::read", Array::read(&mut cur, n, |r| rd_u16(r))).map_err(|e| Fail::new("array-read-rejects-own-encoding", e.to_string()))?;
    vensure!(back == c.elems && cur.position() as usize == body.len(), "array-roundtrip", "Array::read(write(v))");
    let r: std::io::Result<Vec<u16>> = nopanic!("Array::read", Array::read(&body[..], n + 1, |r| rd_u16(r)));
    vensure!(r.is_err(), "array-accepts-truncated", "Array::read of {} elements from {n} succeeded", n + 1);
    if n > 0 {
        let mut cur = Cursor::new(&body[..]);
        let back: Vec<u16> = nopanic!("Array::read_collected", Array::read_collected(&mut cur, n - 1, |r| rd_u16(r))).map_err(|e| Fail::new("array-read", e.to_string()))?;
        vensure!(back[..] == c.elems[..n - 1] && cur.position() as usize == body.len() - 2, "array-roundtrip", "Array::read of a prefix");
        let r: std::io::Result<Vec<u16>> = nopanic!("Array::read", Array::read(&body[..body.len() - 1], n, |r| rd_u16(r)));
        vensure!(r.is_err(), "array-accepts-truncated", "Array::read accepted a truncated last element");
    }
    // --- Optional
    let mut want = vec![];
    match &c.opt {
        None => want.push(0),
        Some(x) => {
            want.push(1);
            ref_compact(x.len() as u64, &mut want);
            want.extend_from_slice(x);
        }
    }
    let mut got = vec![];
    nopanic!("Optional::write", Optional::write(&mut got, c.opt.as_ref(), |w, x| Vector::write(w, x, |w, b| w.write_all(&[*b])))).map_err(|e| Fail::new("optional-write", e.to_string()))?;
    vensure!(got == want, "optional-write-bytes", "Optional::write({:?}) = {}", c.opt, hex::encode(&got));
    let mut cur = Cursor::new(&want[..]);
    let back: Option<Vec<u8>> = nopanic!("Optional::read", Optional::read(&mut cur, |r| Vector::read(r, |r| rd_u8(r)))).map_err(|e| Fail::new("optional-read-rejects-own-encoding", e.to_string()))?;
    vensure!(back == c.opt && cur.position() as usize == want.len(), "optional-roundtrip", "Optional::read(write(x))");
    for cutp in 0..want.len() {
        let r: std::io::Result<Option<Vec<u8>>> = nopanic!("Optional::read", Optional::read(&want[..cutp], |r| Vector::read(r, |r| rd_u8(r))));
        vensure!(r.is_err(), "optional-accepts-truncated", "Optional::read accepted {} (truncated from {})", hex::encode(&want[..cutp]), hex::encode(&want));
    }
    if let Some(flag) = c.raw.first().copied().filter(|f| *f >= 2) {
        let mut e = want.clone();
        e[0] = flag;
        let r: std::io::Result<Option<Vec<u8>>> = nopanic!("Optional::read", Optional::read(&e[..], |r| Vector::read(r, |r| rd_u8(r))));
        vensure!(r.is_err(), "optional-accepts-bad-flag", "Optional::read accepted flag byte {flag}");
    }
    Ok(Obs::new(is_boundary(v) || (MAX_COMPACT - 1..=MAX_COMPACT + 1).contains(&v) || v > 0xffff_ffff || is_boundary(n as u64))
        .key(hash64(format!("{c:?}").as_bytes()))
        .label_if(!in_bound, "above-max-compact-size")
        .label_if(in_bound, "within-bound")
        .label_if(n >= 253, "vector-len>=253")
        .label_if(c.opt.is_some(), "optional-some")
        .count("noncanonical-forms-rejected", noncanon))
}

// ---------------------------------------------------------------------------------------------
// Fixed vectors (regression bases): the repository's test-vector transactions + hand-built edge cases
// ---------------------------------------------------------------------------------------------

struct FixedVector {
    name: String,
    bytes: Vec<u8>,
    branch: BranchId,
    txid: Option<[u8; 32]>,
    auth_digest: Option<[u8; 32]>,
}

fn fixed_vectors() -> Vec<FixedVector> {
    let mut out = vec![FixedVector {
        name: "tx_read_write (mainnet v4)".into(),
        bytes: vectors::tx_read_write::TX_READ_WRITE.to_vec(),
        branch: BranchId::Canopy,
        txid: None,
        auth_digest: None,
    }];
    for (i, v) in vectors::zip_0143::make_test_vectors().into_iter().enumerate() {
        out.push(FixedVector {
            name: format!("zip_0143[{i}]"),
            bytes: v.tx,
            branch: v.consensus_branch_id,
            txid: None,
            auth_digest: None,
        });
    }
    for (i, v) in vectors::zip_0243::make_test_vectors().into_iter().enumerate() {
        out.push(FixedVector {
            name: format!("zip_0243[{i}]"),
            bytes: v.tx,
            branch: v.consensus_branch_id,
            txid: None,
            auth_digest: None,
        });
    }
    for (i, v) in vectors::zip_0244::make_test_vectors().into_iter().enumerate() {
        out.push(FixedVector {
            name: format!("zip_0244[{i}]"),
            bytes: v.tx,
            branch: BranchId::Nu5,
            txid: Some(v.txid),
            auth_digest: Some(v.auth_digest),
        });
    }
    out
}

/// Hand-picked shapes that must stay covered forever.
fn regression_shapes() -> Vec<ShapeSpec> {
    let empty = |pair: u8| ShapeSpec {
        pair,
        sprout_version: 2,
        lock_time: 0,
        expiry: 0,
        vin: vec![],
        vout: vec![],
        sprout: None,
        sapling: None,
        orchard: None,
        ironwood: None,
    };
    let tin = |n: usize, len: u32| -> Vec<InSpec> {
        (0..n)
            .map(|i| InSpec {
                seed: i as u64 * 31 + 7,
                script_len: len,
                sequence: u32::MAX,
                null_prevout: false,
            })
            .collect()
    };
    let tout = |n: usize, len: u32| -> Vec<OutSpec> {
        (0..n)
            .map(|i| OutSpec {
                value: if i % 2 == 0 { MAX_MONEY } else { 0 },
                script_len: len,
                seed: i as u64 * 17 + 3,
            })
            .collect()
    };
    let orch = |n: u16, flags: u8| OrchSpec {
        n_actions: n,
        balance: -MAXM,
        seed: 99 + n as u64,
        flags,
        proof_mode: 0,
        identity_cv: false,
    };
    let mut v = vec![];
    // every (version, branch) pair with every bundle None
    for p in 0..PAIRS.len() as u8 {
        v.push(empty(p));
    }
    // Sprout version numbers
    for sv in [1u32, 2, 3, 0x7fff_ffff] {
        let mut s = empty(0);
        s.sprout_version = sv;
        s.vin = tin(1, 0);
        s.sprout = Some((2, 5));
        v.push(s);
    }
    // transparent-only at the CompactSize boundaries, every version kind
    for p in [0u8, 1, 5, 11, 16] {
        for n in [1usize, 2, 252, 253, 254] {
            let mut s = empty(p);
            s.vin = tin(n, 1);
            s.vout = tout(n, 0);
            s.lock_time = u32::MAX;
            s.expiry = u32::MAX;
            v.push(s);
        }
        for len in [0u32, 75, 76, 252, 253, 10_000, 65_535, 65_536] {
            let mut s = empty(p);
            s.vin = tin(1, len);
            s.vout = tout(1, len);
            v.push(s);
        }
    }
    // shielded boundary counts
    for (p, ns, no) in [(5u8, 253u16, 0u16), (5, 0, 253), (14, 253, 252), (16, 1, 254), (16, 0, 1), (16, 1, 0)] {
        let mut s = empty(p);
        s.sapling = Some(SapSpec {
            n_spends: ns,
            n_outputs: no,
            balance: MAXM,
            seed: 1234,
            shared_anchor: false,
        });
        v.push(s);
    }
    for (p, n) in [(11u8, 253u16), (14, 252), (15, 254), (16, 253)] {
        let mut s = empty(p);
        s.orchard = Some(orch(n, 3));
        v.push(s);
    }
    // v6: Orchard + Ironwood with every flag byte; Ironwood alone; Orchard alone
    for f in 0u8..8 {
        let mut s = empty(16);
        s.orchard = Some(orch(2, f));
        s.ironwood = Some(orch(3, f));
        v.push(s);
        let mut s = empty(16);
        s.ironwood = Some(orch(1, f));
        v.push(s);
    }
    let mut s = empty(16);
    s.ironwood = Some(orch(253, 7));
    v.push(s);
    // pre-NU6.2 Orchard with non-canonical proof sizes
    for pm in 0u8..6 {
        let mut s = empty(11);
        let mut o = orch(2, 3);
        o.proof_mode = pm;
        s.orchard = Some(o);
        v.push(s);
    }
    // everything at once
    for p in [0u8, 1, 5, 10, 11, 15, 16] {
        let mut s = empty(p);
        s.lock_time = 0x0102_0304;
        s.expiry = 0x0a0b_0c0d;
        s.vin = tin(2, 107);
        s.vout = tout(2, 25);
        s.sprout = Some((1, 77));
        s.sapling = Some(SapSpec {
            n_spends: 2,
            n_outputs: 2,
            balance: -1,
            seed: 4321,
            shared_anchor: false,
        });
        s.orchard = Some(orch(2, 3));
        s.ironwood = Some(orch(2, 7));
        v.push(s);
    }
    v
}

/// All located mutations + truncation at every element boundary and every 13th offset + header swaps.
fn exhaustive_mutations(sel: u8, bytes: &[u8], txid: &[u8; 32], lay: &Layout, st: &mut MutStats) -> Result<(), Fail> {
    for m in located_mutations(lay) {
        eval_tx_mutation(sel, bytes, txid, lay, &m, st)?;
    }
    let mut cuts: Vec<usize> = lay.bounds.clone();
    cuts.extend((0..bytes.len()).step_by(13));
    cuts.push(bytes.len() - 1);
    cuts.sort();
    cuts.dedup();
    // cap the work: at most ~240 cuts (~60 on encodings above 64 KiB), spread evenly
    let cap = if bytes.len() > 65_536 { 60 } else { 240 };
    let stride = cuts.len().div_ceil(cap).max(1);
    for (i, c) in cuts.iter().enumerate() {
        if *c < bytes.len() && (i % stride == 0 || i + 1 == cuts.len()) {
            eval_tx_mutation(sel, bytes, txid, lay, &Mutation::Truncate(*c), st)?;
        }
    }
    for m in header_mutations(lay) {
        eval_tx_mutation(sel, bytes, txid, lay, &m, st)?;
    }
    eval_tx_mutation(sel, bytes, txid, lay, &Mutation::Extend(vec![0]), st)?;
    eval_tx_mutation(sel, bytes, txid, lay, &Mutation::Extend(bytes.to_vec()), st)?;
    Ok(())
}

fn check_fixed_vector(v: &FixedVector) -> CaseResult {
    let sel = branch_sel(v.branch);
    let obs = check_tx_bytes(sel, &v.bytes)?;
    vensure!(obs.accepted && obs.consumed == v.bytes.len(), "vector-rejected", "{}: {obs:?}", v.name);
    vensure!(obs.reser_identical, "vector-reserialization-differs", "{}: write(read(vector)) != vector", v.name);
    if let Some(t) = v.txid {
        vensure!(obs.txid == t, "vector-txid-mismatch", "{}: txid {} want {}", v.name, hex::encode(obs.txid), hex::encode(t));
    }
    if let Some(a) = v.auth_digest {
        let tx = Transaction::read(&v.bytes[..], v.branch).map_err(|e| Fail::new("vector-rejected", e.to_string()))?;
        vensure!(tx.auth_commitment().as_bytes() == a, "vector-auth-digest-mismatch", "{}: auth digest", v.name);
    }
    let lay = match walk_tx(&v.bytes) {
        Some(l) if l.end == v.bytes.len() => l,
        other => vfail!("harness-walker-mismatch", "{}: walker covers {:?} of {} bytes", v.name, other.map(|l| l.end), v.bytes.len()),
    };
    let mut st = MutStats::default();
    exhaustive_mutations(sel, &v.bytes, &obs.txid, &lay, &mut st)?;
    Ok(mut_obs(Obs::nontrivial().key(hash64(&v.bytes)).label("test-vector").label(vk_label(lay.vk, lay.header & 0x7fff_ffff)), &st))
}

fn check_regression_shape(s: &ShapeSpec) -> CaseResult {
    let (data, raws) = build_tx(s);
    let obs = check_structured(data, &raws)?;
    let b = make_base(s)?;
    let mut st = MutStats::default();
    exhaustive_mutations(b.sel, &b.bytes, &b.txid, &b.lay, &mut st)?;
    Ok(mut_obs(obs.label("regression-shape"), &st))
}

/// Evaluates `f(0..n)` on `workers` threads (same stack size and panic capture as vcore's workers).
fn par_results(n: u64, workers: u32, f: &(impl Fn(u64) -> CaseResult + Sync)) -> Vec<CaseResult> {
    let next = std::sync::atomic::AtomicU64::new(0);
    let out: std::sync::Mutex<Vec<Option<CaseResult>>> = std::sync::Mutex::new((0..n).map(|_| None).collect());
    std::thread::scope(|sc| {
        for _ in 0..workers.max(1) {
            std::thread::Builder::new()
                .stack_size(64 << 20)
                .spawn_scoped(sc, || loop {
                    let i = next.fetch_add(1, std::sync::atomic::Ordering::Relaxed);
                    if i >= n {
                        break;
                    }
                    let r = match catch(|| f(i)) {
                        Ok(r) => r,
                        Err(p) => Err(Fail::new(format!("harness-panic:{}", panic_site(&p)), format!("uncaught panic in oracle: {p}"))),
                    };
                    out.lock().unwrap()[i as usize] = Some(r);
                })
                .expect("spawn");
        }
    });
    out.into_inner().unwrap().into_iter().map(|r| r.expect("evaluated")).collect()
}

/// Minimal witnesses of the findings recorded in known_findings.json (and of their absence once
/// fixed): each goes through the plain byte oracle.
fn witnesses() -> Vec<(&'static str, u8, Vec<u8>)> {
    let mut v4 = vec![];
    v4.extend_from_slice(&V4_HEADER.to_le_bytes());
    v4.extend_from_slice(&V4_VGID.to_le_bytes());
    v4.extend_from_slice(&[0, 0]); // tx_in_count, tx_out_count
    v4.extend_from_slice(&[0; 8]); // lock_time, expiry
    v4.extend_from_slice(&1i64.to_le_bytes()); // valueBalanceSapling = 1
    v4.extend_from_slice(&[0, 0, 0]); // nSpendsSapling, nOutputsSapling, nJoinSplit
    let shape = ShapeSpec {
        pair: 16,
        sprout_version: 2,
        lock_time: 0,
        expiry: 0,
        vin: vec![],
        vout: vec![],
        sprout: None,
        sapling: None,
        orchard: Some(OrchSpec {
            n_actions: 1,
            balance: 0,
            seed: 1,
            flags: 3,
            proof_mode: 0,
            identity_cv: false,
        }),
        ironwood: None,
    };
    let b = make_base(&shape).expect("v6 base");
    let v6 = apply(&b.bytes, &b.lay, &Mutation::SetBranch(u32::from(BranchId::Nu6_2)));
    vec![
        ("v4, no Sapling spends/outputs, valueBalanceSapling = 1", branch_sel(BranchId::Canopy), v4),
        ("v6 header naming branch NU6.2 with one Orchard action", branch_sel(BranchId::Nu6_3), v6),
    ]
}

fn main() {
    let ctx = Ctx::from_args("C03", "exploration");
    let _ = CTX.set(ctx.clone());
    ctx.set_rule(
        "Structured: (a) repo arb_txdata(branch) over all 11 branches (normalised: v5/v6 Sapling spends share one anchor, Orchard/Ironwood carry the \
         branch's BundleVersion); (b) harness shapes over all 17 valid (version, branch) pairs incl. v4 and v5 in NU5..NU6.3, Sprout versions 1/2/3/2^31-1, \
         every None/Some bundle combination, transparent counts 0,1,2,252,253,254, script lengths 0/75/76/252/253/10000/65535/65536, lock_time/expiry \
         extremes, JoinSplits, Sapling shared/distinct anchors, Orchard/Ironwood with every flag byte and (pre-NU6.2) odd proof sizes; (c) fixed test vectors \
         (ZIP 143/243/244 + mainnet tx) and hand-picked regression shapes. Non-trivial = >= 2 non-empty bundles or a count/length at a CompactSize boundary; \
         distinct = hash of the encoding. Bytes: every mutated input is one edit away from a valid encoding (truncation, trailing bytes, single byte, located \
         CompactSize re-encoded non-minimally / +-1 / MAX+1, located amount out of range, branch id / version header swap); all non-trivial; distinct = hash of \
         (base, selectors). Counters give mutated inputs and the accepted/rejected split. Headers: generated BlockHeaderData with solution lengths across the \
         CompactSize forms + the same mutation classes. encoding-combinators: local zcash_encoding 0.5 vs a reference CompactSize.",
    );
    ctx.assume("a well-formed v5/v6 transaction has one Sapling anchor shared by all spends (the encoding carries exactly one), and its Orchard/Ironwood bundles carry the BundleVersion that bundle_version_for_branch prescribes for the transaction's branch");
    ctx.assume("Transaction::read stores the branch parameter for v1-v4 and ignores it for v5+ (documented on fix_consensus_branch_id)");
    ctx.assume("the parsers read sequentially from a std::io::Cursor, so the cursor position is what they report as consumed; a strict prefix of a fully consumed valid encoding must be rejected and trailing bytes must not change the result");
    ctx.assume("JoinSplit descriptions are built from harness-authored raw bytes (their ephemeral key, ciphertexts and PHGR proof have no accessor); SHA-256 (sha2) and the curve/field types are shared with the code under test as primitives");
    ctx.assume("zcash_primitives links the registry zcash_encoding 0.4 (exercised through Transaction::read); the LOCAL components/zcash_encoding 0.5 is checked directly by encoding-combinators");
    let tier = ctx.tier;

    // (c) fixed vectors and regression shapes
    let fv = std::sync::Arc::new(fixed_vectors());
    let rs = std::sync::Arc::new(regression_shapes());
    let wt = std::sync::Arc::new(witnesses());
    {
        let (fv1, fv2, rs1, rs2, wt1, wt2) = (fv.clone(), fv.clone(), rs.clone(), rs.clone(), wt.clone(), wt.clone());
        let nf = fv.len() as u64;
        let nr = rs.len() as u64;
        let eval = move |i: u64| -> CaseResult {
            if i < nf {
                check_fixed_vector(&fv1[i as usize])
            } else if i < nf + nr {
                check_regression_shape(&rs1[(i - nf) as usize])
            } else {
                let (_, sel, bytes) = &wt1[(i - nf - nr) as usize];
                let o = check_tx_bytes(*sel, bytes)?;
                Ok(Obs::nontrivial().key(hash64(bytes)).label("finding-witness").label_if(o.accepted, "witness-accepted").label_if(!o.accepted, "witness-rejected"))
            }
        };
        // vcore hands enumeration indices out in chunks of 256, i.e. this short list to a single
        // worker; the cases are independent and pure, so evaluate them on all workers first.
        let total = nf + nr + wt.len() as u64;
        let pre: Option<Vec<CaseResult>> = if ctx.is_replay() { None } else { Some(par_results(total, ctx.workers, &eval)) };
        ctx.run_enum(
            "vectors-and-regression-shapes",
            total,
            true,
            move |i| match &pre {
                Some(v) => v[i as usize].clone(),
                None => eval(i),
            },
            move |i| {
                if i < nf {
                    fv2[i as usize].name.clone()
                } else if i < nf + nr {
                    format!("{:?}", rs2[(i - nf) as usize])
                } else {
                    let (name, sel, bytes) = &wt2[(i - nf - nr) as usize];
                    format!("witness: {name}; branch parameter {:?}; bytes {}", BRANCHES[*sel as usize], hx(bytes))
                }
            },
        );
    }
    ctx.require_min_count("vectors-and-regression-shapes", "noncanonical-compactsize-rejected", 500);
    ctx.require_min_count("vectors-and-regression-shapes", "out-of-range-amount-rejected", 200);

    ctx.run_prop("encoding-combinators", arb_comb, tier.pick(300_000, 10_000_000), check_combinators);
    ctx.require_label_fraction("encoding-combinators", "above-max-compact-size", 0.1);
    ctx.require_label_fraction("encoding-combinators", "within-bound", 0.4);

    ctx.run_prop("block-headers", arb_header, tier.pick(40_000, 1_500_000), check_header);
    ctx.require_label_fraction("block-headers", "solution-len>=253", 0.3);
    ctx.require_label_fraction("block-headers", "trailing-bytes", 0.3);

    ctx.run_prop("tx-structured-shapes", || arb_shape(3, 1, 0.5), tier.pick(16_000, 400_000), |s| {
        let (data, raws) = build_tx(s);
        check_structured(data, &raws)
    });
    for l in ["v1", "v2", "sprout-version>=3", "v3", "v4", "v5", "v6"] {
        ctx.require_label_fraction("tx-structured-shapes", l, 0.01);
    }
    for l in ["bundles>=2", "has-sapling", "has-orchard"] {
        ctx.require_label_fraction("tx-structured-shapes", l, 0.15);
    }
    for l in ["has-ironwood", "has-sprout", "count-at-compactsize-boundary", "transparent-only", "v4-in-nu5+", "v5-in-nu6.3"] {
        ctx.require_label_fraction("tx-structured-shapes", l, 0.03);
    }
    for l in ["all-bundles-none", "transparent-count>=252", "script-len>=253", "ironwood-cross-address-bit"] {
        ctx.require_label_fraction("tx-structured-shapes", l, 0.005);
    }
    ctx.require_label_fraction("tx-structured-shapes", "shielded-count>=252", 0.0015);

    ctx.run_prop_with("tx-structured-repo-arb", arb_repo_case, tier.pick(800, 20_000), 64, |c| check_structured(c.data.clone(), &[]));
    ctx.require_label_fraction("tx-structured-repo-arb", "has-orchard", 0.1);
    ctx.require_label_fraction("tx-structured-repo-arb", "has-ironwood", 0.02);

    ctx.run_prop("tx-bytes-located", || (arb_shape(1, 0, 0.35), proptest::collection::vec(any::<u32>(), 16)), tier.pick(4_000, 100_000), tx_bytes_located);
    ctx.require_min_count("tx-bytes-located", "noncanonical-compactsize-rejected", 50_000);
    ctx.require_min_count("tx-bytes-located", "out-of-range-amount-rejected", 20_000);
    ctx.require_min_count("tx-bytes-located", "truncations-rejected", 50_000);
    ctx.require_min_count("tx-bytes-located", "other-mutations-accepted", 1_000);

    ctx.run_prop(
        "tx-bytes-random",
        || (arb_shape(1, 0, 0.35), proptest::collection::vec(any::<u32>(), 16), proptest::collection::vec(any::<u8>(), 1..40)),
        tier.pick(100_000, 2_500_000),
        tx_bytes_random,
    );
    ctx.require_min_count("tx-bytes-random", "mutated-accepted", 50_000);
    ctx.require_min_count("tx-bytes-random", "mutated-rejected", 200_000);
    // coverage-guided byte-level campaigns (libFuzzer targets, oracle inside the target)
    ctx.run_fuzz("tx_read", ctx.tier.pick(150_000, 10_000_000), ctx.tier.pick(4, 16), 8192);
    ctx.run_fuzz("block_header", ctx.tier.pick(500_000, 10_000_000), ctx.tier.pick(2, 8), 2048);
    ctx.finish();
}

//! The model chain/wallet the scripted store answers from, and the scripted store itself.
//!
//! Contract-respecting answers (rustdoc of `PoolMigrationRead`): one view bounded by the
//! fully-scanned height (`as_of_height`), monotone between truncations; a mined height is reported
//! only once scanned; inputs seen spent by the transaction itself imply `mined_height` reports it.

use std::cell::{Cell, RefCell};

use rand_chacha::ChaCha20Rng;
use rand_core::{CryptoRng, RngCore, SeedableRng};
use zcash_pool_migration::engine::{
    MigrationState, MigrationTransaction, MigrationTransferId, MigrationTxKind, MigrationTxState, PoolMigrationRead,
    PoolMigrationWrite, ProvedTransaction,
};
use zcash_pool_migration::satisfiability::{
    classify_input_observations, InputObservation, ReorgSettleDepth, StepSatisfiability, UnsatisfiableCause,
};
use zcash_protocol::consensus::BlockHeight;
use zcash_protocol::TxId;

use crate::model::*;
use crate::persist::Backend;

pub const STORE_CALL_LIMIT: u32 = 200_000;
pub const RNG_LIMIT: u64 = 2_000_000;
pub const RUNAWAY: &str = "c18-runaway";

#[derive(Clone, Debug, Default)]
pub struct WTx {
    pub txid: [u8; 32],
    pub deps: Vec<u32>,
    pub expiry: u32,
    pub transfer: bool,
    /// submitted to the network at some point (may mine)
    pub broadcasted: bool,
    pub mined: Option<u32>,
    /// height of the block in which a FOREIGN transaction spent this transaction's inputs
    pub foreign_spent: Option<u32>,
    /// height from which the creator of the inputs is known dead
    pub inputs_invalid: Option<u32>,
    /// height at which the anchor the transaction was proven against was displaced
    pub anchor_invalid: Option<u32>,
    /// inputs not recognisable until the scan reaches this height
    pub unknown_until: Option<u32>,
}

#[derive(Clone, Debug)]
pub struct World {
    pub tip: u32,
    pub scanned: u32,
    pub txs: Vec<WTx>,
}

impl World {
    pub fn new(b: &Built) -> World {
        let txs = snap(&b.state)
            .into_iter()
            .map(|t| WTx {
                txid: t.txid,
                deps: t.deps.clone(),
                expiry: t.expiry,
                transfer: t.transfer,
                broadcasted: t.rank >= 3,
                mined: t.mined_h,
                foreign_spent: t.mark.and_then(|(h, k)| matches!(k, zcash_pool_migration::satisfiability::UnsatisfiableKind::InputsSpent).then_some(h)),
                ..Default::default()
            })
            .collect();
        World { tip: b.tip, scanned: b.scanned, txs }
    }

    pub fn seen_mined(&self, i: u32) -> Option<u32> {
        self.txs[i as usize].mined.filter(|h| *h <= self.scanned)
    }

    /// Could the chain include transaction `i` in the next block?
    pub fn minable(&self, i: u32) -> bool {
        let w = &self.txs[i as usize];
        let h = self.tip as u64 + 1;
        w.broadcasted
            && w.mined.is_none()
            && w.foreign_spent.is_none()
            && w.inputs_invalid.is_none()
            && w.anchor_invalid.is_none()
            && w.deps.iter().all(|d| self.txs[*d as usize].mined.is_some())
            && (w.expiry == 0 || h <= w.expiry as u64)
            && self.tip < MAX_TIP
    }

    pub fn rollback(&mut self, h: u32) {
        self.tip = self.tip.min(h);
        self.scanned = self.scanned.min(h);
        for w in &mut self.txs {
            for f in [&mut w.mined, &mut w.foreign_spent, &mut w.inputs_invalid, &mut w.anchor_invalid] {
                if f.is_some_and(|x| x > h) {
                    *f = None;
                }
            }
        }
    }

    /// The contract-respecting satisfiability answer for `tx` at the fully-scanned height.
    pub fn answer(&self, tx: &MigrationTransaction, settle: u32) -> StepSatisfiability {
        let i = u32::from(tx.id());
        let w = &self.txs[i as usize];
        let as_of = self.scanned;
        let seen = |x: Option<u32>| x.is_some_and(|h| h <= as_of);
        let obs = if seen(w.mined) || seen(w.foreign_spent) {
            InputObservation::SeenSpent
        } else if seen(w.inputs_invalid) {
            InputObservation::Invalidated([0xAD; 32])
        } else if w.deps.iter().any(|d| self.seen_mined(*d).is_none()) || w.unknown_until.is_some_and(|u| u > as_of) {
            InputObservation::Unknown
        } else {
            InputObservation::Unspent
        };
        let exp = u32::from(tx.expiry_height());
        let expired = exp != 0 && (exp as u64) < as_of as u64 + 1 && !matches!(tx.state(), MigrationTxState::Mined { .. });
        let observations: Vec<([u8; 32], InputObservation)> = tx.spend_nullifiers().iter().map(|nf| (*nf, obs)).collect();
        let ans = classify_input_observations(bh(as_of), expired, &observations);
        let undecided = matches!(ans, StepSatisfiability::Satisfiable { .. } | StepSatisfiability::NotYetSatisfiable { .. });
        if undecided
            && matches!(tx.state(), MigrationTxState::Broadcast { .. })
            && matches!(tx.kind(), MigrationTxKind::Transfer { .. })
            && w.anchor_invalid.is_some_and(|h| h as u64 + settle as u64 <= as_of as u64)
        {
            return StepSatisfiability::Unsatisfiable { cause: UnsatisfiableCause::AnchorInvalidated, as_of_height: bh(as_of) };
        }
        ans
    }
}

// ---------------------------------------------------------------------------------------------
// Scripted store
// ---------------------------------------------------------------------------------------------

#[derive(Debug)]
pub enum StoreErr {
    Injected,
    Backend(String),
}

pub struct Scripted<'a> {
    pub world: &'a World,
    pub backend: &'a mut dyn Backend,
    pub settle_seen: Cell<Option<u32>>,
    /// (id, answer) for every satisfiability question of this call, in order
    pub log: RefCell<Vec<(u32, StepSatisfiability)>>,
    pub calls: Cell<u32>,
    pub fail_at: Option<u32>,
    pub last_replace: Option<MigrationState>,
    pub replaces: u32,
    pub viol: Option<&'a [ViolAns]>,
}

impl<'a> Scripted<'a> {
    pub fn new(world: &'a World, backend: &'a mut dyn Backend, fail_at: Option<u32>, viol: Option<&'a [ViolAns]>) -> Self {
        Scripted { world, backend, settle_seen: Cell::new(None), log: RefCell::new(vec![]), calls: Cell::new(0), fail_at, last_replace: None, replaces: 0, viol }
    }

    fn tick(&self) -> Result<u32, StoreErr> {
        let n = self.calls.get() + 1;
        self.calls.set(n);
        if n > STORE_CALL_LIMIT {
            panic!("{RUNAWAY}: more than {STORE_CALL_LIMIT} store calls in one advance_migration");
        }
        if self.fail_at == Some(n) {
            return Err(StoreErr::Injected);
        }
        Ok(n)
    }

    fn viol_height(&self, off: i16) -> BlockHeight {
        bh((self.world.scanned as i64 + off as i64).clamp(0, MAXH as i64) as u32)
    }
}

impl PoolMigrationRead for Scripted<'_> {
    type Error = StoreErr;

    fn get_migration(&self) -> Result<Option<MigrationState>, StoreErr> {
        self.tick()?;
        Ok(self.last_replace.clone().filter(|s| !s.is_terminal()))
    }

    fn check_step_satisfiability(&self, tx: &MigrationTransaction, settle: ReorgSettleDepth) -> Result<StepSatisfiability, StoreErr> {
        let n = self.tick()?;
        self.settle_seen.set(Some(settle.blocks()));
        let ans = match self.viol {
            None => self.world.answer(tx, settle.blocks()),
            Some(script) => {
                let v = script[n as usize % script.len()];
                let as_of_height = self.viol_height(v.as_of_off);
                match v.kind {
                    0 => StepSatisfiability::Satisfiable { as_of_height },
                    1 => StepSatisfiability::NotYetSatisfiable { as_of_height },
                    2 => StepSatisfiability::Unsatisfiable { cause: UnsatisfiableCause::InputsSpent { nullifiers: tx.spend_nullifiers().clone() }, as_of_height },
                    3 => StepSatisfiability::Unsatisfiable { cause: UnsatisfiableCause::InputsInvalidated { anchor: [1; 32] }, as_of_height },
                    4 => StepSatisfiability::Unsatisfiable { cause: UnsatisfiableCause::Expired, as_of_height },
                    5 => StepSatisfiability::Unsatisfiable { cause: UnsatisfiableCause::AnchorInvalidated, as_of_height },
                    _ => StepSatisfiability::Unsatisfiable { cause: UnsatisfiableCause::InputsSpent { nullifiers: vec![] }, as_of_height },
                }
            }
        };
        self.log.borrow_mut().push((u32::from(tx.id()), ans.clone()));
        Ok(ans)
    }

    fn mined_height(&self, txid: TxId) -> Result<Option<BlockHeight>, StoreErr> {
        let n = self.tick()?;
        match self.viol {
            None => {
                let raw: &[u8; 32] = txid.as_ref();
                Ok(self.world.txs.iter().position(|w| &w.txid == raw).and_then(|i| self.world.seen_mined(i as u32)).map(bh))
            }
            Some(script) => Ok(script[n as usize % script.len()].mined.map(|o| self.viol_height(o))),
        }
    }
}

impl PoolMigrationWrite for Scripted<'_> {
    fn replace_migration(&mut self, state: &MigrationState) -> Result<(), StoreErr> {
        self.tick()?;
        self.backend.replace(state).map_err(StoreErr::Backend)?;
        self.last_replace = Some(state.clone());
        self.replaces += 1;
        Ok(())
    }

    fn update_transaction(&mut self, _id: MigrationTransferId, _state: MigrationTxState) -> Result<(), StoreErr> {
        self.tick()?;
        Err(StoreErr::Backend("update_transaction is not used by the drive API".into()))
    }

    fn store_proved_transaction(&mut self, state: &mut MigrationState, proven: ProvedTransaction) -> Result<(), StoreErr> {
        proven.apply(state);
        self.replace_migration(state)
    }
}

// ---------------------------------------------------------------------------------------------
// Counting RNG
// ---------------------------------------------------------------------------------------------

pub struct CountingRng {
    inner: ChaCha20Rng,
    pub draws: u64,
}

impl CountingRng {
    pub fn new(salt: u8, k: u32) -> Self {
        let mut seed = [salt; 32];
        seed[..4].copy_from_slice(&k.to_le_bytes());
        CountingRng { inner: ChaCha20Rng::from_seed(seed), draws: 0 }
    }
}

impl RngCore for CountingRng {
    fn next_u32(&mut self) -> u32 {
        (self.next_u64() >> 32) as u32
    }
    fn next_u64(&mut self) -> u64 {
        self.draws += 1;
        if self.draws > RNG_LIMIT {
            panic!("{RUNAWAY}: more than {RNG_LIMIT} RNG draws in one advance_migration");
        }
        self.inner.next_u64()
    }
    fn fill_bytes(&mut self, dest: &mut [u8]) {
        rand_core::impls::fill_bytes_via_next(self, dest)
    }
    fn try_fill_bytes(&mut self, dest: &mut [u8]) -> Result<(), rand_core::Error> {
        self.fill_bytes(dest);
        Ok(())
    }
}
impl CryptoRng for CountingRng {}

//! Persistence backends (the in-memory store and the SQLite store over a real wallet database)
//! and the round-trip / conformance sub-checks.

use std::cell::RefCell;
use std::time::SystemTime;

use rusqlite::Connection;
use secrecy::SecretVec;
use vcore::{catch, vensure, vensure_eq, CaseResult, Fail, Obs};
use zcash_client_backend::data_api::chain::ChainState;
use zcash_client_backend::data_api::testing::{DataStoreFactory, TestBuilder};
use zcash_client_backend::data_api::{AccountBirthday, WalletWrite};
use zcash_client_sqlite::pool_migration::orchard_ironwood::PoolMigrations;
use zcash_client_sqlite::testing::db::{TestDb, TestDbFactory};
use zcash_client_sqlite::util::Clock;
use zcash_client_sqlite::AccountUuid;
use zcash_pool_migration::engine::{
    MigrationState, MigrationTransferId, MigrationTxState, PoolMigrationRead, PoolMigrationWrite, ProvedTransaction,
};
use zcash_pool_migration::testing::{
    assert_empty_is_none, assert_put_get_roundtrip, assert_put_replaces, assert_update_transaction, first_transaction_id,
};
use zcash_pool_migration_memory::CommitMock;
use zcash_primitives::block::BlockHash;
use zcash_protocol::consensus::BlockHeight;
use zcash_protocol::local_consensus::LocalNetwork;

pub const NET: LocalNetwork = TestBuilder::<(), ()>::DEFAULT_NETWORK;

#[derive(Clone, Copy)]
pub struct ZeroClock;
impl Clock for ZeroClock {
    fn now(&self) -> SystemTime {
        SystemTime::UNIX_EPOCH
    }
}

#[derive(Clone, Copy, Debug, PartialEq, Eq)]
pub enum BackendKind {
    Memory,
    Sqlite,
}

/// What a history needs from a persistence layer. Every method goes through the store's public
/// `PoolMigrationRead`/`PoolMigrationWrite` implementation (plus `latest_migration` for history).
pub trait Backend {
    fn name(&self) -> &'static str;
    fn reset(&mut self) -> Result<(), Fail>;
    fn replace(&mut self, s: &MigrationState) -> Result<(), String>;
    fn get(&mut self) -> Result<Option<MigrationState>, String>;
    fn latest(&mut self) -> Result<Option<MigrationState>, String>;
    fn store_proved(&mut self, state: &mut MigrationState, proven: ProvedTransaction) -> Result<(), String>;
    /// At most one non-terminal migration per account (checked by SQL where there is SQL).
    fn pending_ok(&mut self) -> Result<(), Fail>;
}

// ---------------------------------------------------------------------------------------------
// Memory
// ---------------------------------------------------------------------------------------------

pub struct Memory {
    pub mock: CommitMock,
}

impl Memory {
    pub fn new() -> Self {
        Memory { mock: CommitMock::new(18, &[]) }
    }
}

impl Backend for Memory {
    fn name(&self) -> &'static str {
        "memory"
    }
    fn reset(&mut self) -> Result<(), Fail> {
        self.mock.stored = None;
        self.mock.satisfiability.clear();
        self.mock.mined.clear();
        Ok(())
    }
    fn replace(&mut self, s: &MigrationState) -> Result<(), String> {
        self.mock.replace_migration(s).map_err(|e| format!("{e:?}"))
    }
    fn get(&mut self) -> Result<Option<MigrationState>, String> {
        self.mock.get_migration().map_err(|e| format!("{e:?}"))
    }
    fn latest(&mut self) -> Result<Option<MigrationState>, String> {
        Ok(self.mock.stored.clone())
    }
    fn store_proved(&mut self, state: &mut MigrationState, proven: ProvedTransaction) -> Result<(), String> {
        self.mock.store_proved_transaction(state, proven).map_err(|e| format!("{e:?}"))
    }
    fn pending_ok(&mut self) -> Result<(), Fail> {
        Ok(())
    }
}

// ---------------------------------------------------------------------------------------------
// SQLite (one migrated wallet database with two accounts per worker thread)
// ---------------------------------------------------------------------------------------------

pub struct SqlEnv {
    pub tdb: TestDb,
    pub a: AccountUuid,
    pub b: AccountUuid,
}

const TABLES: [&str; 8] = [
    "orchard_ironwood_migration_transaction_deps",
    "orchard_ironwood_migration_spend_nullifiers",
    "orchard_ironwood_migration_transactions",
    "orchard_ironwood_migration_prep_inputs",
    "orchard_ironwood_migration_prep_outputs",
    "orchard_ironwood_migration_prep_direct_funding",
    "orchard_ironwood_migration_crossing_values",
    "orchard_ironwood_migrations",
];

impl SqlEnv {
    fn new() -> Self {
        let mut tdb = TestDbFactory::default().new_data_store(NET, None, None).expect("new_data_store");
        let birthday = AccountBirthday::from_parts(ChainState::empty(BlockHeight::from_u32(99_999), BlockHash([0; 32])), None);
        let seed = SecretVec::new(vec![0x18u8; 32]);
        let (a, _) = tdb.db_mut().create_account("c18-a", &seed, &birthday, None).expect("create_account a");
        let (b, _) = tdb.db_mut().create_account("c18-b", &seed, &birthday, None).expect("create_account b");
        assert_ne!(a, b);
        SqlEnv { tdb, a, b }
    }

    pub fn wipe(&mut self) -> Result<(), Fail> {
        for t in TABLES {
            self.tdb.conn().execute(&format!("DELETE FROM {t}"), []).map_err(|e| Fail::new("harness-sqlite-wipe", format!("{t}: {e}")))?;
        }
        Ok(())
    }

    pub fn store(&mut self, account: AccountUuid) -> PoolMigrations<&mut Connection, LocalNetwork, ZeroClock> {
        PoolMigrations::for_account(NET, ZeroClock, self.tdb.conn_mut(), account).expect("account exists")
    }

    /// SQL: number of non-terminal rows per account id. The terminal statuses are written out
    /// from the rustdoc of `MigrationStatus::is_terminal` (Complete, Failed, Superseded, Cancelled).
    pub fn pending_counts(&self) -> Result<Vec<(i64, i64)>, Fail> {
        let conn = self.tdb.conn();
        let mut stmt = conn
            .prepare(
                "SELECT account_id, COUNT(*) FROM orchard_ironwood_migrations \
                 WHERE status NOT IN ('complete', 'failed', 'superseded', 'cancelled') GROUP BY account_id ORDER BY account_id",
            )
            .map_err(|e| Fail::new("harness-sqlite-count", e.to_string()))?;
        let rows = stmt
            .query_map([], |r| Ok((r.get::<_, i64>(0)?, r.get::<_, i64>(1)?)))
            .map_err(|e| Fail::new("harness-sqlite-count", e.to_string()))?
            .collect::<Result<Vec<_>, _>>()
            .map_err(|e| Fail::new("harness-sqlite-count", e.to_string()))?;
        Ok(rows)
    }

    pub fn check_pending(&self) -> Result<(), Fail> {
        for (acct, n) in self.pending_counts()? {
            vensure!(n <= 1, "two-pending-migrations", "account row {acct} has {n} non-terminal migration rows");
        }
        Ok(())
    }
}

thread_local! {
    static SQL: RefCell<Option<SqlEnv>> = const { RefCell::new(None) };
    static MEM: RefCell<Option<Memory>> = const { RefCell::new(None) };
}

pub fn with_sql<R>(f: impl FnOnce(&mut SqlEnv) -> R) -> R {
    SQL.with(|c| {
        let mut g = c.borrow_mut();
        if g.is_none() {
            *g = Some(SqlEnv::new());
        }
        f(g.as_mut().unwrap())
    })
}

pub fn with_mem<R>(f: impl FnOnce(&mut Memory) -> R) -> R {
    MEM.with(|c| {
        let mut g = c.borrow_mut();
        if g.is_none() {
            *g = Some(Memory::new());
        }
        f(g.as_mut().unwrap())
    })
}

/// The SQLite store of account A of the thread's wallet database.
pub struct Sqlite<'a> {
    pub env: &'a mut SqlEnv,
}

impl Backend for Sqlite<'_> {
    fn name(&self) -> &'static str {
        "sqlite"
    }
    fn reset(&mut self) -> Result<(), Fail> {
        self.env.wipe()
    }
    fn replace(&mut self, s: &MigrationState) -> Result<(), String> {
        let a = self.env.a;
        self.env.store(a).replace_migration(s).map_err(|e| format!("{e:?}"))
    }
    fn get(&mut self) -> Result<Option<MigrationState>, String> {
        let a = self.env.a;
        self.env.store(a).get_migration().map_err(|e| format!("{e:?}"))
    }
    fn latest(&mut self) -> Result<Option<MigrationState>, String> {
        let a = self.env.a;
        self.env.store(a).latest_migration().map_err(|e| format!("{e:?}"))
    }
    fn store_proved(&mut self, state: &mut MigrationState, proven: ProvedTransaction) -> Result<(), String> {
        let a = self.env.a;
        self.env.store(a).store_proved_transaction(state, proven).map_err(|e| format!("{e:?}"))
    }
    fn pending_ok(&mut self) -> Result<(), Fail> {
        self.env.check_pending()
    }
}

pub fn with_backend<R>(kind: BackendKind, f: impl FnOnce(&mut dyn Backend) -> R) -> R {
    match kind {
        BackendKind::Memory => with_mem(|m| f(m)),
        BackendKind::Sqlite => with_sql(|env| f(&mut Sqlite { env })),
    }
}

// ---------------------------------------------------------------------------------------------
// Round trip
// ---------------------------------------------------------------------------------------------

fn expect_read(what: &str, b: &mut dyn Backend, s: &MigrationState) -> Result<(), Fail> {
    let name = b.name();
    let got = b.get().map_err(|e| Fail::new("store-read-error", format!("{name}: get_migration after {what}: {e}")))?;
    let latest = b.latest().map_err(|e| Fail::new("store-read-error", format!("{name}: latest_migration after {what}: {e}")))?;
    if s.is_terminal() {
        vensure!(got.is_none(), "terminal-migration-still-pending", "{name}: after {what} of a terminal state get_migration returned {got:?}");
    } else {
        vensure!(got.as_ref() == Some(s), "persistence-roundtrip-differs", "{name}: after {what} get_migration returned\n{got:?}\nexpected\n{s:?}");
    }
    vensure!(latest.as_ref() == Some(s), "persistence-latest-differs", "{name}: after {what} latest_migration returned\n{latest:?}\nexpected\n{s:?}");
    b.pending_ok()
}

/// replace(s1); read; replace(s2); read — on one backend.
pub fn roundtrip_pair(b: &mut dyn Backend, s1: &MigrationState, s2: &MigrationState) -> Result<(), Fail> {
    b.reset()?;
    let name = b.name();
    let got = b.get().map_err(|e| Fail::new("store-read-error", format!("{name}: get_migration on an empty store: {e}")))?;
    vensure!(got.is_none(), "empty-store-not-none", "{name}: empty store returned {got:?}");
    b.replace(s1).map_err(|e| Fail::new("store-write-error", format!("{name}: replace_migration(s1) failed: {e}\n{s1:?}")))?;
    expect_read("replace(s1)", b, s1)?;
    b.replace(s2).map_err(|e| Fail::new("store-write-error", format!("{name}: second replace_migration failed: {e}\n{s2:?}")))?;
    expect_read("replace(s1); replace(s2)", b, s2)?;
    // re-persisting the same state is idempotent for every reader
    b.replace(s2).map_err(|e| Fail::new("store-write-error", format!("{name}: re-persisting failed: {e}")))?;
    expect_read("replace(s2) twice", b, s2)
}

pub fn check_roundtrip(kind: BackendKind, s1: &MigrationState, s2: &MigrationState, s3: &MigrationState) -> CaseResult {
    with_backend(kind, |b| roundtrip_pair(b, s1, s2))?;
    let mut obs = Obs::nontrivial()
        .label_if(s1.is_terminal(), "first-terminal")
        .label_if(s2.is_terminal(), "second-terminal")
        .label_if(!s1.is_terminal() && !s2.is_terminal(), "pending-replaces-pending")
        .label_if(s2.transactions().iter().any(|t| t.broadcast_failure_at().is_some()), "has-report")
        .label_if(s2.transactions().iter().any(|t| t.unsatisfiable().is_some()), "has-mark")
        .label_if(s2.transactions().iter().any(|t| t.lock_owner().is_some()), "has-lock")
        .label_if(s2.transactions().is_empty(), "no-transactions");
    if kind == BackendKind::Sqlite {
        // two accounts over one connection: interleaved writes stay isolated and each account keeps
        // at most one pending row
        with_sql(|env| -> Result<(), Fail> {
            env.wipe()?;
            let (a, b) = (env.a, env.b);
            let w = |env: &mut SqlEnv, acct: AccountUuid, s: &MigrationState, what: &str| -> Result<(), Fail> {
                env.store(acct).replace_migration(s).map_err(|e| Fail::new("store-write-error", format!("sqlite two-account {what}: {e:?}")))?;
                env.check_pending()
            };
            let r = |env: &mut SqlEnv, acct: AccountUuid, s: &MigrationState, what: &str| -> Result<(), Fail> {
                let st = env.store(acct);
                let got = st.get_migration().map_err(|e| Fail::new("store-read-error", format!("sqlite two-account {what}: {e:?}")))?;
                let want = (!s.is_terminal()).then(|| s.clone());
                vensure!(got == want, "accounts-not-isolated", "sqlite two-account {what}: get_migration returned\n{got:?}\nexpected\n{want:?}");
                let latest = st.latest_migration().map_err(|e| Fail::new("store-read-error", format!("sqlite two-account {what}: {e:?}")))?;
                vensure!(latest.as_ref() == Some(s), "accounts-not-isolated", "sqlite two-account {what}: latest_migration returned\n{latest:?}\nexpected\n{s:?}");
                Ok(())
            };
            w(env, a, s1, "A.replace(s1)")?;
            let none = env.store(b).get_migration().map_err(|e| Fail::new("store-read-error", format!("{e:?}")))?;
            vensure!(none.is_none(), "accounts-not-isolated", "account B reads {none:?} after a write for account A");
            w(env, b, s3, "B.replace(s3)")?;
            r(env, a, s1, "A after B.replace(s3)")?;
            w(env, a, s2, "A.replace(s2)")?;
            r(env, b, s3, "B after A.replace(s2)")?;
            r(env, a, s2, "A after A.replace(s2)")?;
            w(env, b, s1, "B.replace(s1)")?;
            r(env, b, s1, "B after B.replace(s1)")?;
            r(env, a, s2, "A after B.replace(s1)")?;
            Ok(())
        })?;
        obs = obs.label("two-accounts");
        // The wallet's own rollback walks the stored migrations: every stored migration whose status is not a
        // policy decision (failed / superseded / cancelled) must afterwards be exactly what
        // `MigrationState::truncate_to_height` makes of it (rustdoc of the store's truncation walk).
        let mut heights: Vec<u32> = [s2, s3]
            .iter()
            .flat_map(|s| s.transactions().iter())
            .flat_map(|t| [t.state().mined_height(), t.unsatisfiable_at(), t.broadcast_failure_at()])
            .flatten()
            .map(u32::from)
            .collect();
        heights.sort();
        heights.dedup();
        let h = if heights.is_empty() { 1_000_000 } else { heights[heights.len() * 3 / 7].saturating_sub((heights.len() % 2) as u32) };
        let changed = with_sql(|env| -> Result<bool, Fail> {
            env.wipe()?;
            let (a, b) = (env.a, env.b);
            env.store(a).replace_migration(s2).map_err(|e| Fail::new("store-write-error", format!("rollback A.replace(s2): {e:?}")))?;
            env.store(b).replace_migration(s3).map_err(|e| Fail::new("store-write-error", format!("rollback B.replace(s3): {e:?}")))?;
            let target = ChainState::empty(BlockHeight::from_u32(h), BlockHash([0; 32]));
            env.tdb.db_mut().truncate_to_chain_state(target).map_err(|e| Fail::new("wallet-rollback-error", format!("truncate_to_chain_state({h}) with stored migrations {s2:?} / {s3:?}: {e:?}")))?;
            let mut any = false;
            for (acct, s, who) in [(a, s2, "A"), (b, s3, "B")] {
                let policy = { use zcash_pool_migration::engine::MigrationStatus as St; matches!(s.status(), St::Failed | St::Superseded | St::Cancelled) };
                let mut want = s.clone();
                if !policy {
                    want.truncate_to_height(BlockHeight::from_u32(h));
                }
                any |= want != *s;
                let got = env.store(acct).latest_migration().map_err(|e| Fail::new("store-read-error", format!("rollback {who}: {e:?}")))?;
                vensure!(
                    got.as_ref() == Some(&want),
                    "wallet-rollback-differs-from-truncate",
                    "account {who}: after the wallet rolled back to {h} the stored migration is\n{got:?}\nMigrationState::truncate_to_height({h}) of what was stored gives\n{want:?}\nstored\n{s:?}"
                );
            }
            Ok(any)
        })?;
        obs = obs.label("wallet-rollback").label_if(changed, "wallet-rollback-changes-migration");
    }
    Ok(obs)
}

// ---------------------------------------------------------------------------------------------
// The repository's own conformance suite, as a regression floor
// ---------------------------------------------------------------------------------------------

fn conf<S: PoolMigrationWrite>(store: &mut S, which: u8, s1: &MigrationState, s2: &MigrationState, new: MigrationTxState) -> Result<(), Fail>
where
    S::Error: std::fmt::Debug,
{
    let r = match which {
        0 => catch(|| assert_empty_is_none(store)).map_err(|p| ("conformance-empty-is-none", p)),
        1 => catch(|| assert_put_get_roundtrip(store, s1)).map_err(|p| ("conformance-put-get-roundtrip", p)),
        2 => catch(|| assert_put_replaces(store, s1, s2)).map_err(|p| ("conformance-put-replaces", p)),
        _ => match first_transaction_id(s1) {
            Some(id) => catch(|| assert_update_transaction(store, s1, id, new)).map_err(|p| ("conformance-update-transaction", p)),
            None => Ok(()),
        },
    };
    r.map_err(|(sig, p)| Fail::new(sig, p))
}

pub fn check_conformance(kind: BackendKind, s1: &MigrationState, s2: &MigrationState, new: MigrationTxState) -> CaseResult {
    for which in 0..4u8 {
        match kind {
            BackendKind::Memory => {
                let mut m = zcash_pool_migration_memory::MockBackend::new(vec![], 100);
                conf(&mut m, which, s1, s2, new)?;
                let mut c = CommitMock::new(18, &[]);
                conf(&mut c, which, s1, s2, new)?;
            }
            BackendKind::Sqlite => with_sql(|env| -> Result<(), Fail> {
                env.wipe()?;
                let a = env.a;
                let mut st = env.store(a);
                conf(&mut st, which, s1, s2, new)?;
                drop(st);
                env.check_pending()
            })?,
        }
    }
    Ok(Obs::nontrivial().label_if(s1.transactions().is_empty(), "no-transactions").label_if(s1.is_terminal(), "terminal"))
}

/// `update_transaction` on an id the migration does not contain must be a store error, never a
/// silent success (SQLite) — and the in-memory store ignores it (documented in its source).
pub fn check_update_unknown(s: &MigrationState) -> CaseResult {
    with_sql(|env| -> Result<(), Fail> {
        env.wipe()?;
        let a = env.a;
        let mut st = env.store(a);
        st.replace_migration(s).map_err(|e| Fail::new("store-write-error", format!("{e:?}")))?;
        let r = st.update_transaction(MigrationTransferId::new(u32::MAX), MigrationTxState::Proved);
        vensure!(r.is_err(), "update-unknown-transaction-accepted", "update_transaction(u32::MAX) succeeded on {s:?}");
        let back = st.latest_migration().map_err(|e| Fail::new("store-read-error", format!("{e:?}")))?;
        vensure_eq!(back.as_ref(), Some(s), "update-unknown-transaction-mutated", "state after a rejected update");
        Ok(())
    })?;
    Ok(Obs::nontrivial())
}

//! Fixed histories kept forever (serialized `Case`s; every oracle of `run_history` applies).

/// M14-style: an overdue Proved broadcast candidate behind a large estimate (the overdue shift must
/// bring the candidate due and terminate).
pub const SHIFT_TERMINATES: &str = r#"{"base":{"Normal":200000},"scan_lag":0,"interval":144,"threshold":0,"settle":0,"status":"Committed","consistent":false,"layers":[],
"transfers":[{"st":"Signed","sched_off":-247,"exp":{"Rel":666},"mark":null,"report":null,"mined_back":11,"nfs":2,"lock":false,"deps":2681701024,"age":2,"value_sel":0},
             {"st":"Proved","sched_off":-300,"exp":"Zero","mark":null,"report":null,"mined_back":0,"nfs":1,"lock":true,"deps":0,"age":1,"value_sel":1}],
"events":[{"Step":{"est":{"Ahead":1529},"exec":true,"bc":"Ok","prove_prefix":null,"fail_at":null,"supersede":false}},
          {"Step":{"est":{"Ahead":1529},"exec":true,"bc":"Ok","prove_prefix":null,"fail_at":null,"supersede":false}},
          {"Mine":{"sel":0,"scan":true,"direct":false}},
          {"Step":{"est":{"Ahead":1529},"exec":true,"bc":"Ok","prove_prefix":null,"fail_at":null,"supersede":false}},
          {"Step":{"est":"AtScanned","exec":true,"bc":"Ok","prove_prefix":null,"fail_at":null,"supersede":false}},
          "SaveLoad",
          {"Step":{"est":"AtScanned","exec":true,"bc":"Ok","prove_prefix":null,"fail_at":null,"supersede":false}}],
"violating":null,"salt":3}"#;

/// One preparation funding a transfer, one independent transfer in the doomed window; driven to
/// completion across a rollback that un-mines the preparation, with a save/load at every stage.
pub const DRIVE_ROLLBACK_COMPLETE: &str = r#"{"base":{"Normal":200000},"scan_lag":0,"interval":144,"threshold":20,"settle":3,"status":"Committed","consistent":true,
"layers":[[{"st":"Signed","sched_off":-5,"exp":"Zero","mark":null,"report":null,"mined_back":0,"nfs":2,"lock":false,"deps":0,"age":1,"value_sel":2}]],
"transfers":[{"st":"Signed","sched_off":-3,"exp":"Canonical","mark":null,"report":null,"mined_back":0,"nfs":1,"lock":false,"deps":1,"age":2,"value_sel":2},
             {"st":"Proved","sched_off":-2,"exp":{"Rel":1},"mark":null,"report":null,"mined_back":0,"nfs":1,"lock":true,"deps":0,"age":1,"value_sel":0}],
"events":[{"Step":{"est":{"Tip":1},"exec":true,"bc":"Ok","prove_prefix":null,"fail_at":null,"supersede":false}},
          {"Step":{"est":{"Tip":1},"exec":true,"bc":"Ok","prove_prefix":null,"fail_at":null,"supersede":false}},
          "SaveLoad",
          {"Mine":{"sel":0,"scan":true,"direct":false}},
          {"Step":{"est":"AtScanned","exec":true,"bc":"Ok","prove_prefix":null,"fail_at":null,"supersede":false}},
          {"Rollback":{"depth":0}},
          {"Step":{"est":"AtScanned","exec":true,"bc":"Ok","prove_prefix":null,"fail_at":null,"supersede":false}},
          {"Rollback":{"depth":1}},
          "SaveLoad",
          {"Step":{"est":"AtScanned","exec":true,"bc":"Ok","prove_prefix":null,"fail_at":null,"supersede":false}},
          {"Mine":{"sel":0,"scan":true,"direct":true}},
          {"Step":{"est":"AtScanned","exec":true,"bc":"Ok","prove_prefix":null,"fail_at":null,"supersede":false}},
          {"Step":{"est":"AtScanned","exec":true,"bc":{"Fail":3},"prove_prefix":null,"fail_at":null,"supersede":false}},
          {"Step":{"est":"AtScanned","exec":true,"bc":"Ok","prove_prefix":null,"fail_at":null,"supersede":false}},
          {"Step":{"est":"AtScanned","exec":true,"bc":"Lost","prove_prefix":null,"fail_at":null,"supersede":false}},
          {"Mine":{"sel":0,"scan":true,"direct":false}},
          {"Step":{"est":"AtScanned","exec":true,"bc":"Ok","prove_prefix":null,"fail_at":null,"supersede":false}},
          {"Advance":{"adv":{"Small":2},"scan":true}},
          {"Step":{"est":"AtScanned","exec":true,"bc":"Ok","prove_prefix":null,"fail_at":null,"supersede":false}},
          {"Mine":{"sel":0,"scan":true,"direct":false}},
          {"Step":{"est":"AtScanned","exec":true,"bc":"Ok","prove_prefix":null,"fail_at":null,"supersede":false}},
          "SaveLoad",
          {"Rollback":{"depth":0}},
          {"Rollback":{"depth":1}},
          {"Step":{"est":"AtScanned","exec":true,"bc":"Ok","prove_prefix":null,"fail_at":null,"supersede":false}}],
"violating":null,"salt":9}"#;

/// A foreign spend kills the preparation: the stranded subtree must surface Replan (never Waiting),
/// the contracted response is terminal and sticky, and a cancelled migration stays cancelled while
/// its in-flight row mines.
pub const STRANDED_REPLAN_TERMINAL: &str = r#"{"base":{"Normal":1000000},"scan_lag":1,"interval":12,"threshold":100,"settle":1,"status":"InProgress","consistent":true,
"layers":[[{"st":"Proved","sched_off":-1,"exp":"Zero","mark":null,"report":null,"mined_back":0,"nfs":1,"lock":true,"deps":0,"age":1,"value_sel":1}],
          [{"st":"Signed","sched_off":5,"exp":{"Rel":40},"mark":null,"report":null,"mined_back":0,"nfs":1,"lock":false,"deps":1,"age":1,"value_sel":1}]],
"transfers":[{"st":"Signed","sched_off":20,"exp":"Canonical","mark":null,"report":null,"mined_back":0,"nfs":1,"lock":false,"deps":2,"age":1,"value_sel":3},
             {"st":"Broadcast","sched_off":-30,"exp":"Zero","mark":null,"report":null,"mined_back":0,"nfs":1,"lock":false,"deps":0,"age":3,"value_sel":3}],
"events":[{"Step":{"est":"AtScanned","exec":false,"bc":"Ok","prove_prefix":null,"fail_at":null,"supersede":false}},
          {"ForeignSpend":{"sel":0,"scan":true}},
          {"Step":{"est":"AtScanned","exec":true,"bc":"Ok","prove_prefix":null,"fail_at":null,"supersede":false}},
          {"RecordSat":{"sel":0}},
          {"Mine":{"sel":0,"scan":true,"direct":false}},
          {"Step":{"est":"AtScanned","exec":true,"bc":"Ok","prove_prefix":null,"fail_at":null,"supersede":false}},
          {"Rollback":{"depth":2}},
          {"Step":{"est":"AtScanned","exec":true,"bc":"Ok","prove_prefix":null,"fail_at":3,"supersede":false}},
          {"Step":{"est":"AtScanned","exec":true,"bc":"Ok","prove_prefix":null,"fail_at":null,"supersede":true}},
          "SaveLoad",
          {"Mine":{"sel":0,"scan":true,"direct":false}},
          {"Step":{"est":"AtScanned","exec":true,"bc":"Ok","prove_prefix":null,"fail_at":null,"supersede":false}},
          "Cancel",
          {"Rollback":{"depth":0}},
          "SaveLoad"],
"violating":null,"salt":1}"#;

pub const ALL: [&str; 3] = [SHIFT_TERMINATES, DRIVE_ROLLBACK_COMPLETE, STRANDED_REPLAN_TERMINAL];

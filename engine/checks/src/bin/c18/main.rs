//! C18 — A committed migration advances safely and survives persistence.
//!
//! Oracles: (1) an independent reference of the documented lifecycle / step-priority / dead-set /
//! rollback / marking rules, checked after every event of a generated history driven through
//! `satisfiability::advance_migration` over a SCRIPTED store whose answers come from a model chain;
//! (2) exact expected post-states (built from public constructors) for every consumer mutator;
//! (3) persistence round trips through the in-memory store and the SQLite store over a real wallet
//! database (SaveLoad continues with the LOADED state), SQL count of pending rows per account;
//! (4) the repository's conformance suite as a regression floor.

mod fixed;
mod hang;
mod model;
mod persist;
mod world;

use std::collections::{BTreeMap, BTreeSet};

use vcore::serde_json;
use vcore::{catch, pick_index, vensure, vensure_eq, vfail, CaseResult, Ctx, Fail, Obs};
use zcash_pool_migration::engine::{
    MigrationState, MigrationStatus, MigrationTransaction, MigrationTxKind, MigrationTxState, ProvedTransaction,
};
use zcash_pool_migration::satisfiability::{
    advance_migration, AdvanceConfig, DuenessTargets, ReorgSettleDepth, StepSatisfiability, UnsatisfiableCause, UnsatisfiableKind,
};
use zcash_pool_migration::state::{AdvanceStep, Blocker, NextAction};
use zcash_pool_migration::testing::{arb_migration_state, arb_migration_tx_state};

use model::*;
use persist::*;
use world::*;

/// `PROVABLE_ANCHOR_DEPTH`, restated from its rustdoc ("AT LEAST this many blocks ... 10").
const DEPTH: u64 = 10;
const SIG_OVERFLOW: &str = "anchor-depth-add-overflows-u32";
const SIG_STAMP: &str = "inherited-stamp-not-minimum";

static CTX: std::sync::OnceLock<std::sync::Arc<Ctx>> = std::sync::OnceLock::new();

/// `true` when `sig` is a listed known finding (counted, printed once): the case continues.
fn known(sig: &str) -> bool {
    // `inherited-stamp-not-minimum` is an OBSERVATION outside property C18's statement (the rustdoc of
    // record_satisfiability promises the minimum applicable stamp for an inherited mark; the code stamps
    // from the pass that first reaches the dependent). The derived dead set still protects every step
    // decision, which is what C18 states, so it is stepped over silently (DESIGN.md section 9.4).
    sig == SIG_STAMP || CTX.get().is_some_and(|c| c.known_hit(sig))
}

// ---------------------------------------------------------------------------------------------
// Reference predicates (from the rustdoc of state.rs / satisfiability.rs)
// ---------------------------------------------------------------------------------------------

fn expired_at(t: &T, target: u32) -> bool {
    t.rank < 4 && t.expiry != 0 && t.expiry < target
}

fn by_id(ts: &[T], id: u32) -> Option<&T> {
    ts.iter().find(|t| t.id == id)
}

fn deps_mined(ts: &[T], t: &T) -> bool {
    t.deps.iter().all(|d| by_id(ts, *d).is_some_and(|x| x.rank == 4))
}

/// marked ∪ expired-at-scanned (both unmined), closed over dependents.
fn refdead(ts: &[T], scanned: u32) -> BTreeSet<u32> {
    let mut dead: BTreeSet<u32> = ts.iter().filter(|t| t.rank < 4 && (t.mark.is_some() || expired_at(t, scanned))).map(|t| t.id).collect();
    loop {
        let more: Vec<u32> = ts.iter().filter(|t| t.rank < 4 && !dead.contains(&t.id) && t.deps.iter().any(|d| dead.contains(d))).map(|t| t.id).collect();
        if more.is_empty() {
            return dead;
        }
        dead.extend(more);
    }
}

fn ref_replan_required(state: &MigrationState, ts: &[T]) -> bool {
    let cv = state.crossing_values();
    let unsat: u128 = ts
        .iter()
        .filter(|t| t.transfer && t.rank < 4 && t.mark.is_some())
        .filter_map(|t| t.crossing.and_then(|c| cv.get(c)))
        .map(|v| v.into_u64() as u128)
        .sum();
    let total: u128 = cv.iter().map(|v| v.into_u64() as u128).sum();
    100 * unsat > state.replan_threshold().percent() as u128 * total
}

fn is_terminal_status(s: MigrationStatus) -> bool {
    matches!(s, MigrationStatus::Complete | MigrationStatus::Failed | MigrationStatus::Superseded | MigrationStatus::Cancelled)
}

/// `recompute_status` per its rustdoc.
fn ref_recompute(status: MigrationStatus, ranks: &[u8]) -> MigrationStatus {
    if is_terminal_status(status) {
        return status;
    }
    if !ranks.is_empty() && ranks.iter().all(|r| *r == 4) {
        MigrationStatus::Complete
    } else if ranks.iter().any(|r| *r >= 3) {
        MigrationStatus::InProgress
    } else {
        status
    }
}

fn prove_ready(ts: &[T], t: &T, scanned: u32, eff: u32) -> bool {
    if expired_at(t, eff) || !deps_mined(ts, t) {
        return false;
    }
    match t.boundary {
        Some(b) => b as u64 + DEPTH < scanned as u64,
        None => t.sched <= eff,
    }
}

/// The ids the kernel may offer for broadcast (unordered), per `next_broadcastable`'s rustdoc.
fn ref_broadcastable(ts: &[T], dead: &BTreeSet<u32>, eff: u32) -> Vec<u32> {
    ts.iter()
        .filter(|t| t.rank == 2 && t.sched <= eff && !dead.contains(&t.id) && t.report.is_none() && deps_mined(ts, t) && !expired_at(t, eff))
        .map(|t| t.id)
        .collect()
}

fn ref_provable(ts: &[T], dead: &BTreeSet<u32>, scanned: u32, eff: u32) -> Vec<u32> {
    let mut v: Vec<&T> = ts.iter().filter(|t| t.rank == 1 && !dead.contains(&t.id) && prove_ready(ts, t, scanned, eff)).collect();
    v.sort_by_key(|t| (t.boundary.unwrap_or(t.sched), t.id));
    v.into_iter().map(|t| t.id).collect()
}

fn ref_rebuildable(ts: &[T], dead: &BTreeSet<u32>, scanned: u32) -> Vec<u32> {
    ts.iter()
        .filter(|t| t.transfer && expired_at(t, scanned) && t.mark.is_none() && !t.deps.iter().any(|d| dead.contains(d)))
        .map(|t| t.id)
        .collect()
}

fn argmin_sched(ts: &[T], ids: &[u32]) -> Option<u32> {
    ids.iter().filter_map(|i| by_id(ts, *i)).min_by_key(|t| (t.sched, t.id)).map(|t| t.id)
}

#[derive(Debug, PartialEq, Eq)]
enum Want {
    Broadcast(u32),
    Replan,
    Prove(Vec<u32>),
    Rebuild(u32),
    ReplanOrWaiting,
    Complete,
    Waiting,
}

/// The documented priority: broadcast, early replan, prove (whole set), rebuild, late replan,
/// complete, waiting. `notyet` = ids the store cannot vouch for yet (set aside when named).
fn ref_decide(state: &MigrationState, ts: &[T], scanned: u32, eff: u32, notyet: &BTreeSet<u32>, notyet_given: bool) -> Want {
    let dead = refdead(ts, scanned);
    let keep = |v: Vec<u32>| -> Vec<u32> { v.into_iter().filter(|i| !notyet.contains(i)).collect() };
    let r = keep(ref_broadcastable(ts, &dead, eff));
    if let Some(id) = argmin_sched(ts, &r) {
        return Want::Broadcast(id);
    }
    if ref_replan_required(state, ts) {
        return Want::Replan;
    }
    let e = keep(ref_provable(ts, &dead, scanned, eff));
    if !e.is_empty() {
        return Want::Prove(e);
    }
    let rb = keep(ref_rebuildable(ts, &dead, scanned));
    if let Some(id) = argmin_sched(ts, &rb) {
        return Want::Rebuild(id);
    }
    let unmined: Vec<&T> = ts.iter().filter(|t| t.rank < 4).collect();
    if !unmined.is_empty() && unmined.iter().all(|t| dead.contains(&t.id)) {
        return if notyet_given { Want::ReplanOrWaiting } else { Want::Replan };
    }
    if !ts.is_empty() && unmined.is_empty() {
        return Want::Complete;
    }
    Want::Waiting
}

fn step_matches(step: &AdvanceStep, want: &Want) -> bool {
    match (step, want) {
        (AdvanceStep::Broadcast { id }, Want::Broadcast(w)) => u32::from(*id) == *w,
        (AdvanceStep::Replan, Want::Replan | Want::ReplanOrWaiting) => true,
        (AdvanceStep::Waiting, Want::Waiting | Want::ReplanOrWaiting) => true,
        (AdvanceStep::Prove { transactions }, Want::Prove(w)) => transactions.iter().map(|p| u32::from(p.id())).collect::<Vec<_>>() == *w,
        (AdvanceStep::Rebuild { id }, Want::Rebuild(w)) => u32::from(*id) == *w,
        (AdvanceStep::Complete, Want::Complete) => true,
        _ => false,
    }
}

/// The per-transaction status view per the rustdoc of `transaction_statuses` / `Blocker`.
fn ref_view(ts: &[T], t: &T, dead: &BTreeSet<u32>, scanned: u32, eff: u32) -> (bool, Option<NextAction>, Option<Blocker>, Option<UnsatisfiableKind>) {
    if t.rank == 4 {
        return (false, None, None, None);
    }
    if t.mark.is_some() || t.deps.iter().any(|d| dead.contains(d)) {
        return (false, None, Some(Blocker::Unsatisfiable), Some(t.mark.map(|m| m.1).unwrap_or(UnsatisfiableKind::Inherited)));
    }
    if t.report.is_some() {
        return (false, None, Some(Blocker::AwaitingReevaluation), None);
    }
    if expired_at(t, scanned) {
        return (false, None, Some(Blocker::Expired), None);
    }
    if expired_at(t, eff) {
        return (false, None, Some(Blocker::ExpiryImminent), None);
    }
    let deps_ok = deps_mined(ts, t);
    match t.rank {
        0 => (false, None, Some(Blocker::Signature), None),
        1 => {
            if !deps_ok {
                (false, None, Some(Blocker::Dependencies), None)
            } else if prove_ready(ts, t, scanned, eff) {
                (true, Some(NextAction::Prove), None, None)
            } else if t.boundary.is_some() {
                (false, None, Some(Blocker::AnchorBoundary), None)
            } else {
                (false, None, Some(Blocker::Schedule), None)
            }
        }
        2 => {
            if !deps_ok {
                (false, None, Some(Blocker::Dependencies), None)
            } else if t.sched <= eff {
                (true, Some(NextAction::Broadcast), None, None)
            } else {
                (false, None, Some(Blocker::Schedule), None)
            }
        }
        _ => (false, None, None, None),
    }
}

fn classify_panic(what: &str, p: &str) -> Fail {
    if p.contains(RUNAWAY) {
        Fail::new("advance-nontermination", format!("{what}: {p}"))
    } else if p.contains("attempt to add with overflow") && (p.contains("zcash_pool_migration/src/state.rs") || p.contains("zcash_pool_migration/src/satisfiability.rs")) {
        Fail::new(SIG_OVERFLOW, format!("{what} panicked: {p}"))
    } else {
        Fail::new("migration-panic", format!("{what} panicked: {p}"))
    }
}

fn check_view(what: &str, state: &MigrationState, targets: DuenessTargets) -> Result<(), Fail> {
    let ts = snap(state);
    let (scanned, eff) = (u32::from(targets.scanned()), u32::from(targets.effective()));
    let dead = refdead(&ts, scanned);
    let view = catch(|| state.transaction_statuses(targets)).map_err(|p| classify_panic(&format!("{what}: transaction_statuses({scanned},{eff})"), &p))?;
    vensure_eq!(view.len(), ts.len(), "status-view-length", "{what}");
    for (v, t) in view.iter().zip(ts.iter()) {
        let want = ref_view(&ts, t, &dead, scanned, eff);
        let got = (v.ready(), v.action(), v.blocked_on(), v.unsatisfiable_kind());
        vensure!(
            u32::from(v.id()) == t.id && got == want,
            "status-view-differs",
            "{what}: transaction {} at targets (scanned {scanned}, effective {eff}): view (ready, action, blocker, kind) = {got:?}, documented = {want:?}; tx = {t:?}; dead set = {dead:?}",
            t.id
        );
        vensure!(v.mined_height().map(u32::from) == t.mined_h && v.txid().is_some() == (t.rank >= 3), "status-view-differs", "{what}: mined_height/txid of {}", t.id);
    }
    let exp: Vec<u32> = catch(|| state.expired_transactions(targets)).map_err(|p| classify_panic("expired_transactions", &p))?.into_iter().map(u32::from).collect();
    let want: Vec<u32> = ts.iter().filter(|t| expired_at(t, scanned)).map(|t| t.id).collect();
    vensure_eq!(exp, want, "expired-transactions-differ", "{what}: expired_transactions at scanned {scanned}");
    vensure_eq!(state.is_terminal(), is_terminal_status(state.status()), "is-terminal-differs", "{what}: status {:?}", state.status());
    let rr = catch(|| state.replan_required()).map_err(|p| classify_panic("replan_required", &p))?;
    vensure_eq!(rr, ref_replan_required(state, &ts), "replan-required-differs", "{what}: threshold {} crossing values {:?} txs {ts:?}", state.replan_threshold().percent(), state.crossing_values());
    Ok(())
}

/// Invariants 1 and 2 and the validity of every other step, decided from the returned state alone
/// (so they hold for ANY answers of the store).
fn structural(what: &str, step: &AdvanceStep, next_is_none: bool, state: &MigrationState, post_ts: &[T], targets: DuenessTargets) -> Result<(), Fail> {
    let (scanned, eff) = (u32::from(targets.scanned()), u32::from(targets.effective()));
    let dead = refdead(post_ts, scanned);
    match step {
        AdvanceStep::Broadcast { id } => {
            let i = u32::from(*id);
            let Some(t) = by_id(post_ts, i) else { vfail!("step-names-unknown-transaction", "{what}: {step:?}") };
            vensure!(t.rank == 2, "broadcast-not-proved", "{what}: Broadcast offered for {t:?}");
            vensure!(deps_mined(post_ts, t), "broadcast-before-dependencies-mined", "{what}: Broadcast offered for {t:?}; {post_ts:?}");
            vensure!(t.sched <= eff, "broadcast-not-due", "{what}: Broadcast offered for {t:?} at effective {eff}");
            vensure!(t.expiry == 0 || t.expiry >= eff, "broadcast-expired", "{what}: Broadcast offered for {t:?} at effective {eff} (scanned {scanned})");
            vensure!(t.report.is_none(), "broadcast-under-failure-report", "{what}: {t:?}");
            vensure!(!dead.contains(&i), "broadcast-dead", "{what}: {t:?} is in the dead set {dead:?}");
            let view = catch(|| state.transaction_statuses(targets)).map_err(|p| classify_panic(&format!("{what}: transaction_statuses"), &p))?;
            let v = view.iter().find(|v| v.id() == *id).unwrap();
            vensure!(v.ready() && v.action() == Some(NextAction::Broadcast), "status-view-disagrees-with-step", "{what}: {step:?} but the view says {v:?}");
        }
        AdvanceStep::Prove { transactions } => {
            vensure!(!transactions.is_empty(), "prove-empty", "{what}");
            let ids: Vec<u32> = transactions.iter().map(|p| u32::from(p.id())).collect();
            vensure!(ids.iter().collect::<BTreeSet<_>>().len() == ids.len(), "prove-duplicate-ids", "{what}: {ids:?}");
            let mut prev_key: Option<(u32, u32)> = None;
            for p in transactions {
                let i = u32::from(p.id());
                let Some(t) = by_id(post_ts, i) else { vfail!("step-names-unknown-transaction", "{what}: {step:?}") };
                vensure!(t.rank == 1, "prove-not-signed", "{what}: {t:?}");
                vensure!(deps_mined(post_ts, t), "prove-before-dependencies-mined", "{what}: {t:?}");
                vensure!(!dead.contains(&i), "prove-dead", "{what}: {t:?} dead set {dead:?}");
                match t.boundary {
                    Some(b) => vensure!(b as u64 + DEPTH < scanned as u64, "prove-boundary-not-settled", "{what}: {t:?} at scanned {scanned}"),
                    None => vensure!(t.sched <= eff, "prove-preparation-not-due", "{what}: {t:?} at effective {eff}"),
                }
                vensure!(!expired_at(t, eff), "prove-expired", "{what}: {t:?} at effective {eff}");
                let kind_ok = match p.kind() {
                    MigrationTxKind::Transfer { crossing } => t.transfer && t.crossing == Some(crossing),
                    MigrationTxKind::Preparation { .. } => !t.transfer,
                };
                vensure!(kind_ok, "prove-target-kind", "{what}: {p:?} vs {t:?}");
                // earliest-ready first: a transfer by its boundary, a preparation by its schedule, ties by id
                let key = (t.boundary.unwrap_or(t.sched), t.id);
                vensure!(prev_key.is_none_or(|k| k < key), "prove-order", "{what}: {ids:?} not ordered earliest-ready first");
                prev_key = Some(key);
            }
        }
        AdvanceStep::Rebuild { id } => {
            let i = u32::from(*id);
            let Some(t) = by_id(post_ts, i) else { vfail!("step-names-unknown-transaction", "{what}: {step:?}") };
            vensure!(t.transfer && expired_at(t, scanned) && t.mark.is_none() && !t.deps.iter().any(|d| dead.contains(d)), "rebuild-invalid", "{what}: Rebuild offered for {t:?} at scanned {scanned}; dead {dead:?}");
            vensure!(next_is_none, "rebuild-outlook", "{what}");
        }
        AdvanceStep::Replan => {
            let unmined: Vec<&T> = post_ts.iter().filter(|t| t.rank < 4).collect();
            let all_dead = !unmined.is_empty() && unmined.iter().all(|t| dead.contains(&t.id));
            vensure!(all_dead || ref_replan_required(state, post_ts), "replan-unfounded", "{what}: Replan although the threshold is not exceeded and live work remains: {post_ts:?}");
            vensure!(next_is_none, "replan-outlook", "{what}");
        }
        AdvanceStep::Complete => {
            vensure!(!post_ts.is_empty() && post_ts.iter().all(|t| t.rank == 4), "complete-with-unmined", "{what}: {post_ts:?}");
            vensure!(next_is_none, "complete-outlook", "{what}");
        }
        AdvanceStep::Reevaluate => {
            vensure!(post_ts.iter().any(|t| t.rank < 4 && t.report.is_some()), "reevaluate-without-report", "{what}");
            vensure!(next_is_none, "reevaluate-outlook", "{what}");
        }
        AdvanceStep::Waiting => {}
    }
    Ok(())
}

// ---------------------------------------------------------------------------------------------
// record_satisfiability reference (rustdoc: direct marks, then the durable closure with the
// MINIMUM applicable stamp over the dead direct dependencies)
// ---------------------------------------------------------------------------------------------

fn ref_record(ts: &[T], scanned: u32, dets: &[(u32, StepSatisfiability)]) -> Vec<Option<(u32, UnsatisfiableKind)>> {
    let mut marks: BTreeMap<u32, Option<(u32, UnsatisfiableKind)>> = ts.iter().map(|t| (t.id, t.mark)).collect();
    for (id, a) in dets {
        if let StepSatisfiability::Unsatisfiable { cause, as_of_height } = a {
            let kind = match cause {
                UnsatisfiableCause::InputsSpent { .. } => Some(UnsatisfiableKind::InputsSpent),
                UnsatisfiableCause::InputsInvalidated { .. } => Some(UnsatisfiableKind::InputsInvalidated),
                UnsatisfiableCause::AnchorInvalidated => Some(UnsatisfiableKind::AnchorInvalidated),
                _ => None,
            };
            if let (Some(kind), Some(t)) = (kind, by_id(ts, *id)) {
                if t.rank < 4 && marks[id].is_none() {
                    marks.insert(*id, Some((u32::from(*as_of_height), kind)));
                }
            }
        }
    }
    // ids are in dependency order (depends_on points only backwards), so one pass is the fixpoint
    for t in ts {
        if t.rank == 4 || marks[&t.id].is_some() {
            continue;
        }
        let stamp = t
            .deps
            .iter()
            .filter_map(|d| by_id(ts, *d))
            .filter(|d| d.rank < 4)
            .filter_map(|d| {
                let m = marks[&d.id].map(|m| m.0);
                let e = expired_at(d, scanned).then_some(d.expiry);
                match (m, e) {
                    (Some(m), Some(e)) => Some(m.min(e)),
                    (Some(m), None) => Some(m),
                    (None, e) => e,
                }
            })
            .min();
        if let Some(s) = stamp {
            marks.insert(t.id, Some((s, UnsatisfiableKind::Inherited)));
        }
    }
    ts.iter().map(|t| marks[&t.id]).collect()
}

/// Applicable stamps a dependency closure may read off the dead direct dependencies of `t`.
fn applicable_stamps(ts: &[T], t: &T, scanned: u32) -> Vec<u32> {
    let mut v = vec![];
    for d in t.deps.iter().filter_map(|d| by_id(ts, *d)).filter(|d| d.rank < 4) {
        if let Some((s, _)) = d.mark {
            v.push(s);
        }
        if expired_at(d, scanned) {
            v.push(d.expiry);
        }
    }
    v
}

// ---------------------------------------------------------------------------------------------
// History runner
// ---------------------------------------------------------------------------------------------

#[derive(Default, Debug)]
struct Flags {
    broadcasts_offered: u64,
    proves_offered: u64,
    drives: u64,
    rollback_unmined: bool,
    expiry_passed: bool,
    mark_recorded: bool,
    report_adjudicated: bool,
    shift: bool,
    replan: bool,
    rebuild: bool,
    reevaluate: bool,
    waiting: bool,
    complete: bool,
    store_error: bool,
    lost_promoted: bool,
    sweep_promoted: bool,
    doomed_withhold: bool,
    inherited: bool,
    complete_reverted: bool,
    saveloads: u64,
    terminal_drive: bool,
    deferred: bool,
    redraw: bool,
}

struct H<'a> {
    case: &'a Case,
    state: MigrationState,
    world: World,
    backend: &'a mut dyn Backend,
    flags: Flags,
    seen_unexpired: BTreeSet<u32>,
    settle: u32,
    interval: u32,
    ev: usize,
}

fn store_fail(sig: &'static str, what: &str, e: String) -> Fail {
    Fail::new(sig, format!("{what}: {e}"))
}

impl H<'_> {
    fn what(&self, s: &str) -> String {
        format!("event #{} {s}", self.ev)
    }

    fn persist(&mut self, what: &str) -> Result<(), Fail> {
        let w = self.what(what);
        self.backend.replace(&self.state).map_err(|e| store_fail("store-write-error", &w, format!("{e}\n{:?}", self.state)))
    }

    fn targets(&self, est: Est) -> DuenessTargets {
        let scanned_t = self.world.scanned.saturating_add(1);
        match est {
            Est::AtScanned => DuenessTargets::at(bh(scanned_t)),
            Est::Tip(o) => DuenessTargets::new(bh(scanned_t), bh((self.world.tip as i64 + 1 + o as i64).clamp(0, MAXH as i64) as u32)),
            Est::Ahead(k) => DuenessTargets::new(bh(scanned_t), bh(self.world.tip.saturating_add(1).saturating_add(k as u32))),
        }
    }

    fn pick(&self, sel: u32, pred: impl Fn(&T) -> bool) -> Option<u32> {
        let ts = snap(&self.state);
        let elig: Vec<u32> = ts.iter().filter(|t| pred(t)).map(|t| t.id).collect();
        if elig.is_empty() {
            None
        } else {
            Some(elig[pick_index(sel, elig.len())])
        }
    }

    /// `advance_migration` with every documented post-condition. `Ok(None)` = the store failed
    /// (injected) and the state was re-read.
    fn drive(&mut self, est: Est, fail_at: Option<u8>) -> Result<Option<AdvanceStep>, Fail> {
        let targets = self.targets(est);
        let (scanned, eff) = (u32::from(targets.scanned()), u32::from(targets.effective()));
        let contract = self.case.violating.is_none();
        let pre = self.state.clone();
        let pre_ts = snap(&pre);
        let what = self.what(&format!("advance_migration(scanned {scanned}, effective {eff})"));
        self.flags.drives += 1;

        // expiry passing (generator-side bookkeeping)
        for t in &pre_ts {
            if t.rank < 4 {
                if expired_at(t, scanned) {
                    if self.seen_unexpired.contains(&t.id) {
                        self.flags.expiry_passed = true;
                    }
                } else {
                    self.seen_unexpired.insert(t.id);
                }
            }
            if t.rank == 2 && t.sched <= eff && !expired_at(t, scanned) && expired_at(t, eff) {
                self.flags.doomed_withhold = true;
            }
        }

        let cfg = AdvanceConfig::new(ReorgSettleDepth::new(self.settle));
        let mut rng = CountingRng::new(self.case.salt, self.ev as u32);
        let mut state = pre.clone();
        let viol = self.case.violating.as_deref();
        let mut store = Scripted::new(&self.world, &mut *self.backend, fail_at.map(|k| k as u32), viol);
        let res = hang::guarded(&what, || catch(|| advance_migration(&mut store, &mut state, targets, &cfg, &mut rng))).map_err(|p| classify_panic(&what, &p))?;
        let log = store.log.borrow().clone();
        let last_replace = store.last_replace.take();
        let replaces = store.replaces;
        drop(store);

        let adv = match res {
            Err(StoreErr::Injected) => {
                // "On an Err, treat the passed state as UNTRUSTED and re-read it"
                self.flags.store_error = true;
                let back = self.backend.latest().map_err(|e| store_fail("store-read-error", &what, e))?;
                let Some(back) = back else { vfail!("persisted-migration-lost", "{what}: store failed and no migration can be re-read") };
                let post_ts = snap(&back);
                for (a, b) in pre_ts.iter().zip(post_ts.iter()) {
                    vensure!(b.rank >= a.rank && a.id == b.id, "lifecycle-regression", "{what}: after a failed call the stored state has {} at rank {} (was {})", a.id, b.rank, a.rank);
                }
                self.state = back;
                return Ok(None);
            }
            Err(StoreErr::Backend(e)) => vfail!("store-write-error", "{what}: backend failed: {e}"),
            Ok(a) => a,
        };
        let step = adv.step().clone();
        let post_ts = snap(&state);
        let terminal = is_terminal_status(pre.status());

        // --- invariant 4: terminal statuses are never left; a terminal migration answers Complete
        if terminal {
            vensure_eq!(state.status(), pre.status(), "terminal-status-left", "{what}");
            vensure!(step == AdvanceStep::Complete, "terminal-migration-driven", "{what}: terminal migration ({:?}) was answered {step:?}", pre.status());
            vensure!(adv.next().is_none(), "terminal-migration-outlook", "{what}: outlook {:?}", adv.next());
            self.flags.terminal_drive = true;
        }

        // --- invariant 3: lifecycle only forward; identity fields untouched
        vensure_eq!(post_ts.len(), pre_ts.len(), "transactions-changed", "{what}");
        for (a, b) in pre_ts.iter().zip(post_ts.iter()) {
            vensure!(
                a.id == b.id && a.deps == b.deps && a.expiry == b.expiry && a.txid == b.txid && a.transfer == b.transfer && a.crossing == b.crossing,
                "transactions-changed",
                "{what}: identity of {} changed: {a:?} -> {b:?}",
                a.id
            );
            vensure!(b.rank >= a.rank, "lifecycle-regression", "{what}: transaction {} went from rank {} to {}", a.id, a.rank, b.rank);
            if a.rank == 4 {
                vensure_eq!(a, b, "mined-row-changed", "{what}");
            }
        }
        for (a, b) in pre.transactions().iter().zip(state.transactions().iter()) {
            vensure!(a.pczt() == b.pczt() && a.spend_nullifiers() == b.spend_nullifiers() && a.lock_owner() == b.lock_owner() && a.kind() == b.kind(), "transactions-changed", "{what}: artifact of {:?} changed", a.id());
        }
        vensure!(
            state.denominations() == pre.denominations() && state.preparation() == pre.preparation() && state.anchor_bucket_interval() == pre.anchor_bucket_interval() && state.replan_threshold() == pre.replan_threshold(),
            "plan-changed",
            "{what}"
        );

        // --- invariant 6: persistence
        if state != pre {
            vensure!(last_replace.as_ref() == Some(&state), "determination-not-persisted", "{what}: the state changed but the last replace_migration argument is\n{last_replace:?}\nreturned state\n{state:?}");
        } else {
            vensure!(replaces == 0, "write-without-discovery", "{what}: nothing was recorded but replace_migration was called {replaces} time(s)");
        }

        // --- schedule shift: only pending rows move, all by one common delta, saturating
        {
            let deltas: BTreeSet<u64> = pre_ts.iter().zip(post_ts.iter()).filter(|(_, b)| b.rank <= 2 && b.sched != MAXH).map(|(a, b)| b.sched as u64 - (a.sched as u64).min(b.sched as u64)).collect();
            let delta = deltas.iter().next().copied().unwrap_or(0);
            for (a, b) in pre_ts.iter().zip(post_ts.iter()) {
                if b.rank >= 3 {
                    vensure_eq!(a.sched, b.sched, "served-schedule-moved", "{what}: transaction {} (rank {})", a.id, b.rank);
                } else {
                    vensure!(b.sched >= a.sched, "schedule-moved-backwards", "{what}: transaction {}: {} -> {}", a.id, a.sched, b.sched);
                }
                if b.rank <= 2 {
                    // anchor boundary: redrawn only for a not-yet-proved transfer, onto the grid,
                    // never below the prior one, strictly below the most recent boundary of the new schedule
                    if a.boundary != b.boundary {
                        let iv = self.interval as u64;
                        let (pb, nb) = (a.boundary.map(|x| x as u64), b.boundary.map(|x| x as u64));
                        let ok = b.rank <= 1 && b.transfer && matches!((pb, nb), (Some(p), Some(n)) if n % iv == 0 && n >= p && n + iv <= b.sched as u64 / iv * iv) && (b.sched > a.sched || b.sched == MAXH);
                        vensure!(ok, "anchor-redraw-invalid", "{what}: transaction {} boundary {:?} -> {:?} (schedule {} -> {}, interval {iv}, rank {})", a.id, a.boundary, b.boundary, a.sched, b.sched, b.rank);
                        self.flags.redraw = true;
                    }
                } else {
                    vensure_eq!(a.boundary, b.boundary, "anchor-redraw-invalid", "{what}: in-flight transaction {}", a.id);
                }
            }
            vensure!(deltas.len() <= 1, "shift-not-uniform", "{what}: pending schedules moved by different amounts {deltas:?}: {pre_ts:?} -> {post_ts:?}");
            if delta > 0 {
                vensure!(!terminal, "terminal-migration-shifted", "{what}");
                for (a, b) in pre_ts.iter().zip(post_ts.iter()) {
                    if b.rank <= 2 {
                        vensure_eq!(b.sched as u64, (a.sched as u64 + delta).min(MAXH as u64), "shift-not-uniform", "{what}: transaction {}", a.id);
                    }
                }
                self.flags.shift = true;
            }
        }

        if !contract {
            // contract-violating answers: no-panic / termination, the unconditional parts above, and
            // the guards the property states for ALL oracle answers (they are decided from the state).
            if !terminal {
                structural(&what, &step, adv.next().is_none(), &state, &post_ts, targets)?;
                if matches!(step, AdvanceStep::Broadcast { .. }) {
                    self.flags.broadcasts_offered += 1;
                }
            }
            self.state = state;
            return Ok(Some(step));
        }

        // --- the in-flight sweep: inclusion is derived from the store, before any verdict
        for (a, b) in pre_ts.iter().zip(post_ts.iter()) {
            let seen = self.world.seen_mined(a.id);
            if a.rank < 4 && b.rank == 4 {
                vensure!(a.rank >= 2 && seen.is_some() && b.mined_h == seen, "promotion-without-inclusion", "{what}: transaction {} promoted {a:?} -> {b:?}, store's mined_height = {seen:?}", a.id);
                vensure!(b.mark.is_none() && b.report.is_none(), "mined-row-keeps-judgment", "{what}: {b:?}");
                self.flags.sweep_promoted = true;
                if a.rank == 2 {
                    self.flags.lost_promoted = true;
                }
            }
            if (a.rank == 2 || a.rank == 3) && seen.is_some() {
                vensure!(b.rank == 4, "inclusion-not-recorded", "{what}: the store reports {} mined at {seen:?} but it stays {b:?}", a.id);
            }
        }

        // --- marks: first observation wins; every new mark is backed by an answer or inherited
        let mut new_marks = false;
        for (a, b) in pre_ts.iter().zip(post_ts.iter()) {
            if b.rank == 4 {
                continue;
            }
            if let Some(m) = a.mark {
                vensure_eq!(b.mark, Some(m), "mark-restamped", "{what}: transaction {}", a.id);
                continue;
            }
            let Some((stamp, kind)) = b.mark else { continue };
            new_marks = true;
            self.flags.mark_recorded = true;
            if kind == UnsatisfiableKind::Inherited {
                self.flags.inherited = true;
                let app = applicable_stamps(&post_ts, b, scanned);
                vensure!(app.contains(&stamp), "inherited-mark-unfounded", "{what}: transaction {} inherited stamp {stamp}; applicable stamps of its dead direct dependencies: {app:?}; {post_ts:?}", a.id);
            } else {
                let backed = log.iter().any(|(id, ans)| {
                    *id == a.id
                        && matches!(ans, StepSatisfiability::Unsatisfiable { cause, as_of_height } if u32::from(*as_of_height) == stamp && match cause {
                            UnsatisfiableCause::InputsSpent { .. } => kind == UnsatisfiableKind::InputsSpent,
                            UnsatisfiableCause::InputsInvalidated { .. } => kind == UnsatisfiableKind::InputsInvalidated,
                            UnsatisfiableCause::AnchorInvalidated => kind == UnsatisfiableKind::AnchorInvalidated,
                            _ => false,
                        })
                });
                vensure!(backed, "mark-without-evidence", "{what}: transaction {} marked ({stamp}, {kind:?}) but the store never answered so; answers: {log:?}", a.id);
                vensure!(self.world.seen_mined(a.id).is_none(), "mark-on-included-transaction", "{what}: {b:?}");
            }
        }
        if new_marks {
            // the durable closure ran to a fixpoint
            for t in post_ts.iter().filter(|t| t.rank < 4 && t.mark.is_none()) {
                let app = applicable_stamps(&post_ts, t, scanned);
                vensure!(app.is_empty(), "closure-incomplete", "{what}: marks were recorded but {} (dead direct dependency, stamps {app:?}) stays unmarked: {post_ts:?}", t.id);
            }
        }
        // in-flight determinations (InputsSpent / AnchorInvalidated on a broadcast, unmined, unmarked row)
        for (a, b) in pre_ts.iter().zip(post_ts.iter()) {
            if a.rank == 3 && a.mark.is_none() && self.world.seen_mined(a.id).is_none() {
                let tx = &pre.transactions()[pre_ts.iter().position(|x| x.id == a.id).unwrap()];
                if let StepSatisfiability::Unsatisfiable { cause: UnsatisfiableCause::InputsSpent { .. } | UnsatisfiableCause::AnchorInvalidated, as_of_height } = self.world.answer(tx, self.settle) {
                    vensure!(b.mark.is_some_and(|m| m.0 == u32::from(as_of_height)), "in-flight-death-not-recorded", "{what}: in-flight {} is dead per the store but carries {:?}", a.id, b.mark);
                }
            }
        }

        // --- reports: adjudicated exactly when the store's answers rest at or above the reported tip
        let as_of = self.world.scanned;
        let mut pending = false;
        for (a, b) in pre_ts.iter().zip(post_ts.iter()) {
            if terminal {
                if b.rank < 4 {
                    vensure_eq!(a.report, b.report, "terminal-report-touched", "{what}: {}", a.id);
                }
                continue;
            }
            vensure!(b.report.is_none() || b.report == a.report, "report-invented", "{what}: {a:?} -> {b:?}");
            if b.rank == 4 {
                continue;
            }
            match a.report {
                Some(tip) if tip > as_of => {
                    vensure_eq!(b.report, Some(tip), "report-discharged-early", "{what}: store answers as of {as_of}, reported tip {tip}");
                    pending = true;
                }
                Some(tip) => {
                    vensure!(b.report.is_none(), "report-not-adjudicated", "{what}: store answers as of {as_of} >= reported tip {tip} but the report stands on {}", a.id);
                    self.flags.report_adjudicated = true;
                }
                None => {}
            }
        }
        if !terminal {
            if pending {
                vensure!(step == AdvanceStep::Reevaluate, "reevaluate-not-surfaced", "{what}: a report stands above the scanned height but the step is {step:?}");
                vensure!(adv.next().is_none(), "reevaluate-outlook", "{what}: {:?}", adv.next());
            } else {
                vensure!(step != AdvanceStep::Reevaluate, "reevaluate-without-report", "{what}");
            }
        }

        // --- the step itself
        check_view(&what, &state, targets)?;
        if !terminal && !pending {
            let notyet: BTreeSet<u32> = state
                .transactions()
                .iter()
                .filter(|t| matches!(self.world.answer(t, self.settle), StepSatisfiability::NotYetSatisfiable { .. }))
                .map(|t| u32::from(t.id()))
                .collect();
            let notyet_given = log.iter().any(|(_, a)| matches!(a, StepSatisfiability::NotYetSatisfiable { .. }));
            if notyet_given {
                self.flags.deferred = true;
            }
            let dead = refdead(&post_ts, scanned);
            structural(&what, &step, adv.next().is_none(), &state, &post_ts, targets)?;
            match &step {
                AdvanceStep::Broadcast { id } => {
                    let i = u32::from(*id);
                    let last = log.iter().rev().find(|(x, _)| *x == i).map(|(_, a)| a.clone());
                    vensure!(
                        matches!(last, Some(StepSatisfiability::Satisfiable { .. }) | Some(StepSatisfiability::Unsatisfiable { cause: UnsatisfiableCause::Expired, .. })),
                        "step-not-vouched-for",
                        "{what}: {step:?} surfaced but the store's last answer for it was {last:?}"
                    );
                    self.flags.broadcasts_offered += 1;
                }
                AdvanceStep::Prove { transactions } => {
                    for p in transactions {
                        let i = u32::from(p.id());
                        let last = log.iter().rev().find(|(x, _)| *x == i).map(|(_, a)| a.clone());
                        vensure!(
                            matches!(last, Some(StepSatisfiability::Satisfiable { .. }) | Some(StepSatisfiability::Unsatisfiable { cause: UnsatisfiableCause::Expired, .. })),
                            "step-not-vouched-for",
                            "{what}: {step:?} surfaced but the store's last answer for {i} was {last:?}"
                        );
                    }
                    self.flags.proves_offered += 1;
                }
                AdvanceStep::Rebuild { .. } => self.flags.rebuild = true,
                AdvanceStep::Replan => self.flags.replan = true,
                AdvanceStep::Complete => self.flags.complete = true,
                AdvanceStep::Waiting => {
                    // invariant 5: never silently stranded
                    let unmined: Vec<&T> = post_ts.iter().filter(|t| t.rank < 4).collect();
                    let all_dead = !unmined.is_empty() && unmined.iter().all(|t| dead.contains(&t.id));
                    vensure!(!all_dead || notyet_given, "silently-stranded", "{what}: Waiting although every unmined transaction is dead and nothing was deferred: {post_ts:?}");
                    self.flags.waiting = true;
                }
                AdvanceStep::Reevaluate => {}
            }
            // the documented priority, as one decision
            let want = ref_decide(&state, &post_ts, scanned, eff, &notyet, notyet_given);
            vensure!(
                step_matches(&step, &want),
                "step-priority-differs",
                "{what}: step {step:?}, documented decision {want:?}; not-yet-satisfiable ids {notyet:?}; dead {dead:?}; replan_required {}; txs {post_ts:?}",
                ref_replan_required(&state, &post_ts)
            );
        } else if pending {
            self.flags.reevaluate = true;
        }
        if terminal {
            self.flags.complete = true;
        }
        self.state = state;
        Ok(Some(step))
    }

    fn execute(&mut self, step: &AdvanceStep, bc: Bc, prove_prefix: Option<u8>, supersede: bool) -> Result<(), Fail> {
        match step {
            AdvanceStep::Prove { transactions } => {
                let n = prove_prefix.map_or(transactions.len(), |k| (k as usize).min(transactions.len()));
                for p in &transactions[..n] {
                    self.store_proof(u32::from(p.id()), false)?;
                }
            }
            AdvanceStep::Broadcast { id } => {
                let i = u32::from(*id);
                match bc {
                    Bc::Ok => {
                        let pre = self.state.clone();
                        catch(|| self.state.mark_broadcast(*id)).map_err(|p| classify_panic("mark_broadcast", &p))?;
                        let ranks: Vec<u8> = snap(&pre).iter().map(|t| if t.id == i { 3 } else { t.rank }).collect();
                        let want = rebuild(&pre, ref_recompute(pre.status(), &ranks), |t| {
                            if t.id() == *id {
                                tx_with(t, MigrationTxState::Broadcast { txid: t.txid() }, None, None, t.unsatisfiable(), t.broadcast_failure_at())
                            } else {
                                t.clone()
                            }
                        });
                        vensure!(self.state == want, "mark-broadcast-differs", "{}: mark_broadcast({i}) gave\n{:?}\ndocumented\n{want:?}", self.what("execute"), self.state);
                        self.world.txs[i as usize].broadcasted = true;
                    }
                    Bc::Fail(off) => {
                        let tip = (self.world.tip as i64 + off as i64).clamp(0, MAX_TIP as i64) as u32;
                        self.report_failure(i, tip)?;
                    }
                    Bc::Lost => self.world.txs[i as usize].broadcasted = true,
                }
                self.persist("after broadcast")?;
            }
            AdvanceStep::Replan => {
                // the contracted response (not always taken, so that the history goes on)
                if supersede {
                    self.supersede()?;
                }
            }
            AdvanceStep::Reevaluate => {
                // the consumer's response: sync to at least the reported tip
                let top = snap(&self.state).iter().filter_map(|t| t.report).max().unwrap_or(0).min(MAX_TIP);
                self.world.tip = self.world.tip.max(top);
                self.world.scanned = self.world.tip;
            }
            AdvanceStep::Rebuild { .. } | AdvanceStep::Waiting | AdvanceStep::Complete => {}
        }
        Ok(())
    }

    fn store_proof(&mut self, i: u32, lock: bool) -> Result<(), Fail> {
        let pre = self.state.clone();
        let id = tid(i);
        let pczt = vec![0xF0, i as u8, self.ev as u8];
        let what = self.what(&format!("store proof {i}"));
        let owner = lock.then(|| zcash_pool_migration::engine::MigrationLockOwner::from_bytes([i as u8 ^ 0x5A; 32]));
        if lock {
            catch(|| self.state.set_transaction_proved(id, pczt.clone(), owner)).map_err(|p| classify_panic(&what, &p))?;
            self.persist("after set_transaction_proved")?;
        } else {
            let mut st = self.state.clone();
            self.backend.store_proved(&mut st, ProvedTransaction::from_parts(id, pczt.clone())).map_err(|e| store_fail("store-write-error", &what, e))?;
            let stored = self.backend.latest().map_err(|e| store_fail("store-read-error", &what, e))?;
            vensure!(stored.as_ref() == Some(&st), "proof-not-persisted", "{what}: store_proved_transaction left the store with\n{stored:?}\nstate\n{st:?}");
            self.state = st;
        }
        let want = rebuild(&pre, pre.status(), |t| if t.id() == id { tx_with(t, MigrationTxState::Proved, Some(pczt.clone()), Some(owner), t.unsatisfiable(), t.broadcast_failure_at()) } else { t.clone() });
        vensure!(self.state == want, "store-proof-differs", "{what}: got\n{:?}\ndocumented\n{want:?}", self.state);
        Ok(())
    }

    fn report_failure(&mut self, i: u32, tip: u32) -> Result<(), Fail> {
        let pre = self.state.clone();
        catch(|| self.state.report_broadcast_failure(tid(i), bh(tip))).map_err(|p| classify_panic("report_broadcast_failure", &p))?;
        let want = rebuild(&pre, pre.status(), |t| {
            if u32::from(t.id()) == i && matches!(t.state(), MigrationTxState::Proved) {
                tx_with(t, t.state(), None, None, t.unsatisfiable(), Some(bh(tip)))
            } else {
                t.clone()
            }
        });
        vensure!(self.state == want, "report-broadcast-failure-differs", "{}: report_broadcast_failure({i}, {tip}) gave\n{:?}\ndocumented\n{want:?}", self.what("report"), self.state);
        Ok(())
    }

    fn supersede(&mut self) -> Result<(), Fail> {
        let pre = self.state.clone();
        self.state.mark_superseded();
        let st = if is_terminal_status(pre.status()) { pre.status() } else { MigrationStatus::Superseded };
        let want = rebuild(&pre, st, |t| t.clone());
        vensure!(self.state == want, "mark-superseded-differs", "{}: got {:?} from {:?}", self.what("mark_superseded"), self.state.status(), pre.status());
        self.persist("after mark_superseded")
    }

    fn apply(&mut self, ev: &Event) -> Result<(), Fail> {
        let prev = self.state.clone();
        let prev_ts = snap(&prev);
        let mut rolled_back: Option<u32> = None;
        match ev {
            Event::Step { est, exec, bc, prove_prefix, fail_at, supersede } => {
                if let Some(step) = self.drive(*est, *fail_at)? {
                    if *exec {
                        self.execute(&step, *bc, *prove_prefix, *supersede)?;
                    }
                }
            }
            Event::Advance { adv, scan } => {
                let tip = self.world.tip;
                let new = match adv {
                    Adv::Small(d) => tip.saturating_add(*d as u32),
                    Adv::Medium(d) => tip.saturating_add(*d as u32),
                    Adv::ToPoint(sel, off) => {
                        let mut pts: Vec<u32> = vec![];
                        for t in &prev_ts {
                            if t.rank < 4 {
                                pts.push(t.sched.saturating_sub(1));
                                if t.expiry != 0 {
                                    pts.push(t.expiry);
                                }
                                if let Some(b) = t.boundary {
                                    pts.push(b.saturating_add(DEPTH as u32));
                                }
                                if let Some(r) = t.report {
                                    pts.push(r);
                                }
                            }
                        }
                        pts.retain(|p| *p > tip);
                        pts.sort();
                        pts.dedup();
                        if pts.is_empty() {
                            tip.saturating_add(1)
                        } else {
                            (pts[pick_index(*sel, pts.len().min(6))] as i64 + *off as i64).clamp(tip as i64, MAXH as i64) as u32
                        }
                    }
                };
                self.world.tip = new.min(MAX_TIP);
                if *scan {
                    self.world.scanned = self.world.tip;
                }
            }
            Event::Scan => self.world.scanned = self.world.tip,
            Event::Mine { sel, scan, direct } => {
                let cands: Vec<u32> = (0..self.world.txs.len() as u32).filter(|i| self.world.minable(*i)).collect();
                if !cands.is_empty() {
                    let i = cands[pick_index(*sel, cands.len())];
                    let h = self.world.tip + 1;
                    self.world.tip = h;
                    self.world.txs[i as usize].mined = Some(h);
                    if *scan {
                        self.world.scanned = h;
                    }
                    // a consumer standing outside the drive loop may record what the scan has seen
                    if *direct && h <= self.world.scanned && by_id(&prev_ts, i).is_some_and(|t| t.rank == 3) {
                        catch(|| self.state.mark_mined(tid(i), bh(h))).map_err(|p| classify_panic("mark_mined", &p))?;
                        let ranks: Vec<u8> = prev_ts.iter().map(|t| if t.id == i { 4 } else { t.rank }).collect();
                        let want = rebuild(&prev, ref_recompute(prev.status(), &ranks), |t| {
                            if u32::from(t.id()) == i {
                                tx_with(t, MigrationTxState::Mined { txid: t.txid(), height: bh(h) }, None, None, None, None)
                            } else {
                                t.clone()
                            }
                        });
                        vensure!(self.state == want, "mark-mined-differs", "{}: mark_mined({i}, {h}) gave\n{:?}\ndocumented\n{want:?}", self.what("mine"), self.state);
                        self.persist("after mark_mined")?;
                    }
                }
            }
            Event::Rollback { depth } => {
                let h = self.world.scanned.saturating_sub(*depth as u32);
                self.world.rollback(h);
                catch(|| self.state.truncate_to_height(bh(h))).map_err(|p| classify_panic("truncate_to_height", &p))?;
                // the four documented effects, and nothing else
                let demoted: Vec<u32> = prev_ts.iter().filter(|t| t.mined_h.is_some_and(|m| m > h)).map(|t| t.id).collect();
                let any_unmined_after = prev_ts.iter().any(|t| t.rank < 4 || demoted.contains(&t.id));
                let status = if prev.status() == MigrationStatus::Complete && any_unmined_after { MigrationStatus::InProgress } else { prev.status() };
                let want = rebuild(&prev, status, |t| {
                    let st = match t.state() {
                        MigrationTxState::Mined { txid, height } if u32::from(height) > h => MigrationTxState::Broadcast { txid },
                        s => s,
                    };
                    let mark = t.unsatisfiable().filter(|(s, _)| u32::from(*s) <= h);
                    let report = t.broadcast_failure_at().filter(|r| u32::from(*r) <= h);
                    tx_with(t, st, None, None, mark, report)
                });
                vensure!(self.state == want, "truncate-differs", "{}: truncate_to_height({h}) gave\n{:?}\ndocumented\n{want:?}\nfrom\n{prev:?}", self.what("rollback"), self.state);
                if !demoted.is_empty() {
                    self.flags.rollback_unmined = true;
                }
                if prev.status() == MigrationStatus::Complete && status == MigrationStatus::InProgress {
                    self.flags.complete_reverted = true;
                }
                rolled_back = Some(h);
                self.persist("after truncate_to_height")?;
            }
            Event::ForeignSpend { sel, scan } => {
                let cands: Vec<u32> = (0..self.world.txs.len() as u32)
                    .filter(|i| {
                        let w = &self.world.txs[*i as usize];
                        w.mined.is_none() && w.foreign_spent.is_none() && w.deps.iter().all(|d| self.world.txs[*d as usize].mined.is_some())
                    })
                    .collect();
                if !cands.is_empty() && self.world.tip < MAX_TIP {
                    let i = cands[pick_index(*sel, cands.len())];
                    self.world.tip += 1;
                    self.world.txs[i as usize].foreign_spent = Some(self.world.tip);
                    if *scan {
                        self.world.scanned = self.world.tip;
                    }
                }
            }
            Event::AnchorInvalidate { sel } => {
                let cands: Vec<u32> = (0..self.world.txs.len() as u32).filter(|i| { let w = &self.world.txs[*i as usize]; w.transfer && w.broadcasted && w.mined.is_none() && w.anchor_invalid.is_none() }).collect();
                if !cands.is_empty() {
                    let i = cands[pick_index(*sel, cands.len())];
                    self.world.txs[i as usize].anchor_invalid = Some(self.world.tip);
                }
            }
            Event::InputsInvalidate { sel } => {
                let cands: Vec<u32> = (0..self.world.txs.len() as u32).filter(|i| { let w = &self.world.txs[*i as usize]; w.mined.is_none() && w.inputs_invalid.is_none() && w.deps.is_empty() }).collect();
                if !cands.is_empty() {
                    let i = cands[pick_index(*sel, cands.len())];
                    self.world.txs[i as usize].inputs_invalid = Some(self.world.tip);
                }
            }
            Event::UnknownInputs { sel, dur } => {
                if let Some(i) = self.pick(*sel, |t| t.rank < 3) {
                    if self.world.txs[i as usize].mined.is_none() {
                        self.world.txs[i as usize].unknown_until = Some(self.world.scanned.saturating_add(*dur as u32));
                    }
                }
            }
            Event::ApplySignature { sel } => {
                let target = self.pick(*sel, |t| t.rank == 0).or_else(|| self.pick(*sel, |_| true));
                if let Some(i) = target {
                    let signed = vec![0x51, i as u8, self.ev as u8];
                    let ok = catch(|| self.state.apply_signature(tid(i), signed.clone())).map_err(|p| classify_panic("apply_signature", &p))?;
                    let was_awaiting = by_id(&prev_ts, i).is_some_and(|t| t.rank == 0);
                    vensure_eq!(ok, was_awaiting, "apply-signature-result", "{}: apply_signature({i})", self.what("sig"));
                    let want = rebuild(&prev, prev.status(), |t| if u32::from(t.id()) == i && was_awaiting { tx_with(t, MigrationTxState::Signed, Some(signed.clone()), None, t.unsatisfiable(), t.broadcast_failure_at()) } else { t.clone() });
                    vensure!(self.state == want, "apply-signature-differs", "{}: apply_signature({i}) gave\n{:?}\ndocumented\n{want:?}", self.what("sig"), self.state);
                    self.persist("after apply_signature")?;
                }
                // an unknown id is refused and changes nothing
                let before = self.state.clone();
                let ok = self.state.apply_signature(tid(9999), vec![1]);
                vensure!(!ok && self.state == before, "apply-signature-unknown-id", "{}", self.what("sig"));
            }
            Event::StoreProof { sel, lock } => {
                // the production flow proves Signed transactions only
                if let Some(i) = self.pick(*sel, |t| t.rank == 1) {
                    self.store_proof(i, *lock)?;
                }
            }
            Event::ReportFailure { sel, off, any } => {
                let target = if *any { self.pick(*sel, |_| true) } else { self.pick(*sel, |t| t.rank == 2) };
                if let Some(i) = target {
                    let tip = (self.world.tip as i64 + *off as i64).clamp(0, MAX_TIP as i64) as u32;
                    self.report_failure(i, tip)?;
                    self.persist("after report_broadcast_failure")?;
                }
            }
            Event::RecordSat { sel } => {
                // the prove path's door: record the store's answer about a pending transaction
                if let Some(i) = self.pick(*sel, |t| t.rank <= 2) {
                    if self.case.violating.is_none() {
                        let targets = self.targets(Est::AtScanned);
                        let scanned = u32::from(targets.scanned());
                        let tx = self.state.transactions().iter().find(|t| u32::from(t.id()) == i).unwrap().clone();
                        let ans = self.world.answer(&tx, self.settle);
                        let dets = vec![(tid(i), ans.clone())];
                        catch(|| self.state.record_satisfiability(targets, &dets)).map_err(|p| classify_panic("record_satisfiability", &p))?;
                        let want_marks = ref_record(&prev_ts, scanned, &[(i, ans.clone())]);
                        let got = snap(&self.state);
                        let want = rebuild(&prev, prev.status(), |t| {
                            let k = prev_ts.iter().position(|x| x.id == u32::from(t.id())).unwrap();
                            tx_with(t, t.state(), None, None, want_marks[k].map(|(s, kd)| (bh(s), kd)), t.broadcast_failure_at())
                        });
                        if self.state != want {
                            // distinguish the pass-order effect on inherited stamps from any other difference
                            let only_stamps = got.iter().zip(want_marks.iter()).all(|(g, w)| match (g.mark, w) {
                                (a, b) if a == *b => true,
                                (Some((gs, UnsatisfiableKind::Inherited)), Some((ws, UnsatisfiableKind::Inherited))) => gs > *ws && applicable_stamps(&got, g, scanned).contains(&gs),
                                _ => false,
                            }) && rebuild(&self.state, prev.status(), |t| tx_with(t, t.state(), None, None, None, t.broadcast_failure_at())) == rebuild(&prev, prev.status(), |t| tx_with(t, t.state(), None, None, None, t.broadcast_failure_at()));
                            let sig = if only_stamps { SIG_STAMP } else { "record-satisfiability-differs" };
                            if !(only_stamps && known(SIG_STAMP)) {
                            vfail!(sig, "{}: record_satisfiability(scanned {scanned}, [({i}, {ans:?})]) gave marks {:?}, documented {want_marks:?}; txs before: {prev_ts:?}", self.what("record"), got.iter().map(|t| t.mark).collect::<Vec<_>>());
                            }
                        }
                        if got.iter().zip(prev_ts.iter()).any(|(g, p)| g.mark.is_some() && p.mark.is_none()) {
                            self.flags.mark_recorded = true;
                        }
                        self.persist("after record_satisfiability")?;
                    }
                }
            }
            Event::Cancel => {
                self.state.mark_cancelled();
                let st = if is_terminal_status(prev.status()) { prev.status() } else { MigrationStatus::Cancelled };
                let want = rebuild(&prev, st, |t| t.clone());
                vensure!(self.state == want, "mark-cancelled-differs", "{}: got {:?} from {:?}", self.what("mark_cancelled"), self.state.status(), prev.status());
                self.persist("after mark_cancelled")?;
            }
            Event::Supersede => self.supersede()?,
            Event::SaveLoad => {
                let what = self.what("save/load");
                self.backend.replace(&self.state).map_err(|e| store_fail("store-write-error", &what, e))?;
                let got = self.backend.get().map_err(|e| store_fail("store-read-error", &what, e))?;
                let loaded = if self.state.is_terminal() {
                    vensure!(got.is_none(), "terminal-migration-still-pending", "{what} ({}): get_migration returned {got:?}", self.backend.name());
                    self.backend.latest().map_err(|e| store_fail("store-read-error", &what, e))?
                } else {
                    got
                };
                vensure!(loaded.as_ref() == Some(&self.state), "persistence-roundtrip-differs", "{what} ({}): loaded\n{loaded:?}\nsaved\n{:?}", self.backend.name(), self.state);
                self.backend.pending_ok()?;
                self.state = loaded.unwrap();
                self.flags.saveloads += 1;
            }
        }

        // --- invariants 3 and 4 over EVERY event
        let now_ts = snap(&self.state);
        let what = self.what(&format!("{ev:?}"));
        vensure_eq!(now_ts.len(), prev_ts.len(), "transactions-changed", "{what}");
        for (a, b) in prev_ts.iter().zip(now_ts.iter()) {
            vensure!(a.id == b.id && a.txid == b.txid && a.deps == b.deps && a.expiry == b.expiry, "transactions-changed", "{what}: {a:?} -> {b:?}");
            match rolled_back {
                None => vensure!(b.rank >= a.rank, "lifecycle-regression", "{what}: transaction {} went from rank {} to {}", a.id, a.rank, b.rank),
                Some(h) => {
                    let want = if a.mined_h.is_some_and(|m| m > h) { 3 } else { a.rank };
                    vensure_eq!(b.rank, want, "rollback-lifecycle", "{what}: transaction {} (mined {:?}) after a rollback to {h}", a.id, a.mined_h);
                }
            }
        }
        if is_terminal_status(prev.status()) {
            let left = self.state.status() != prev.status();
            let allowed = prev.status() == MigrationStatus::Complete
                && self.state.status() == MigrationStatus::InProgress
                && rolled_back.is_some()
                && prev_ts.iter().zip(now_ts.iter()).any(|(a, b)| a.rank == 4 && b.rank < 4);
            vensure!(!left || allowed, "terminal-status-left", "{what}: status {:?} -> {:?}", prev.status(), self.state.status());
        }
        Ok(())
    }
}

fn run_history(case: &Case, kind: BackendKind) -> CaseResult {
    let json = serde_json::to_string(case).unwrap_or_default();
    let key = vcore::hash64(json.as_bytes()) | 1;
    hang::set_case(if kind == BackendKind::Memory { "history-memory" } else { "history-sqlite" }, json);
    let built = build(case);
    with_backend(kind, |backend| -> CaseResult {
        backend.reset()?;
        let state = built.state.clone();
        let mut h = H {
            case,
            state,
            world: World::new(&built),
            backend,
            flags: Flags::default(),
            seen_unexpired: BTreeSet::new(),
            settle: case.settle as u32,
            interval: built.interval,
            ev: 0,
        };
        // the commit: the migration is persisted before anything drives it
        h.persist("commit")?;
        let t0 = h.targets(Est::AtScanned);
        check_view("initial state", &h.state, t0)?;
        for t in snap(&h.state) {
            if t.rank < 4 && !expired_at(&t, u32::from(t0.scanned())) {
                h.seen_unexpired.insert(t.id);
            }
        }
        for (k, ev) in case.events.iter().enumerate() {
            h.ev = k;
            h.apply(ev)?;
        }
        let f = &h.flags;
        let nontrivial = f.broadcasts_offered >= 1 && (f.rollback_unmined || f.expiry_passed || f.mark_recorded || f.report_adjudicated);
        Ok(Obs::new(nontrivial)
            .key(key)
            .label_if(f.broadcasts_offered > 0, "broadcast-offered")
            .label_if(f.proves_offered > 0, "prove-offered")
            .label_if(f.rollback_unmined, "rollback-unmined")
            .label_if(f.expiry_passed, "expiry-passed")
            .label_if(f.mark_recorded, "mark-recorded")
            .label_if(f.inherited, "mark-inherited")
            .label_if(f.report_adjudicated, "report-adjudicated")
            .label_if(f.shift, "schedule-shift")
            .label_if(f.redraw, "anchor-redraw")
            .label_if(f.replan, "replan")
            .label_if(f.rebuild, "rebuild")
            .label_if(f.reevaluate, "reevaluate")
            .label_if(f.waiting, "waiting")
            .label_if(f.complete, "complete")
            .label_if(f.store_error, "store-error-injected")
            .label_if(f.sweep_promoted, "sweep-promoted")
            .label_if(f.lost_promoted, "lost-broadcast-promoted")
            .label_if(f.doomed_withhold, "doomed-window")
            .label_if(f.complete_reverted, "complete-reverted-by-rollback")
            .label_if(f.terminal_drive, "terminal-driven")
            .label_if(f.deferred, "not-yet-deferral")
            .label_if(f.saveloads > 0, "save-load")
            .label_if(case.violating.is_some(), "contract-violating-store")
            .label_if(built.near_max, "near-u32-max")
            .label_if(matches!(case.base, BaseH::Low(_)), "near-zero")
            .label_if(is_terminal_status(built.state.status()), "terminal-start")
            .count("events", case.events.len() as u64)
            .count("drives", f.drives)
            .count("broadcasts-offered", f.broadcasts_offered)
            .count("save-loads", f.saveloads))
    })
}

// ---------------------------------------------------------------------------------------------
// Regression cases kept forever
// ---------------------------------------------------------------------------------------------

fn regression(i: u64) -> CaseResult {
    use std::num::NonZeroU32;
    use zcash_pool_migration::denomination::DenominationPlan;
    use zcash_pool_migration::preparation::PreparationPlan;
    use zcash_pool_migration::satisfiability::ReplanThreshold;
    use zcash_pool_migration::scheduling::{AnchorBucketInterval, PROVABLE_ANCHOR_DEPTH};
    use zcash_protocol::value::Zatoshis;
    use zcash_protocol::TxId;
    let z = Zatoshis::const_from_u64;
    let mk = |txs: Vec<MigrationTransaction>, n_cross: usize, interval: u32| {
        MigrationState::from_parts(
            MigrationStatus::Committed,
            DenominationPlan::from_stored_parts(vec![z(1_000_000); n_cross], z(15_000), None, z(0), z(5_000_000), z(1_000_000 * n_cross as u64)).unwrap(),
            PreparationPlan::from_parts(vec![], vec![]),
            txs,
            AnchorBucketInterval::custom(NonZeroU32::new(interval).unwrap()),
            ReplanThreshold::DEFAULT,
        )
    };
    let tx = |id: u32, kind: MigrationTxKind, deps: Vec<u32>, sched: u32, expiry: u32, boundary: Option<u32>, st: MigrationTxState| {
        MigrationTransaction::from_parts(tid(id), kind, vec![1, 2, 3], deps.into_iter().map(tid).collect(), bh(sched), bh(expiry), boundary.map(bh), TxId::from_bytes(txid_for(0, id)), st, None, None, vec![[id as u8 + 1; 32]], None)
    };
    match i {
        0 => {
            vensure_eq!(PROVABLE_ANCHOR_DEPTH as u64, DEPTH, "harness-constant", "PROVABLE_ANCHOR_DEPTH");
            Ok(Obs::nontrivial())
        }
        1 => {
            // an anchor boundary within PROVABLE_ANCHOR_DEPTH of u32::MAX: `boundary + DEPTH` is
            // computed in u32 (state.rs, prove_ready); every other height addition saturates.
            let s = mk(vec![tx(0, MigrationTxKind::Transfer { crossing: 0 }, vec![], u32::MAX - 1, 0, Some(u32::MAX - 5), MigrationTxState::Signed)], 1, 1);
            let targets = DuenessTargets::at(bh(u32::MAX));
            let v = catch(|| s.transaction_statuses(targets)).map_err(|p| classify_panic("transaction_statuses(Signed transfer, anchor_boundary = u32::MAX - 5, targets u32::MAX)", &p))?;
            vensure!(v[0].blocked_on() == Some(Blocker::AnchorBoundary), "near-max-view", "{:?}", v[0]);
            Ok(Obs::nontrivial())
        }
        2 => {
            // the same through the drive API
            let mut s = mk(vec![tx(0, MigrationTxKind::Transfer { crossing: 0 }, vec![], u32::MAX - 1, 0, Some(u32::MAX - 5), MigrationTxState::Signed)], 1, 1);
            let b = Built { state: s.clone(), tip: u32::MAX - 2, scanned: u32::MAX - 2, near_max: true, interval: 1 };
            let world = World::new(&b);
            with_mem(|m| -> CaseResult {
                m.reset()?;
                let mut store = Scripted::new(&world, m, None, None);
                let mut rng = CountingRng::new(0, 0);
                let cfg = AdvanceConfig::new(ReorgSettleDepth::new(3));
                let r = catch(|| advance_migration(&mut store, &mut s, DuenessTargets::at(bh(u32::MAX - 1)), &cfg, &mut rng)).map_err(|p| classify_panic("advance_migration(Signed transfer, anchor_boundary = u32::MAX - 5)", &p))?;
                vensure!(matches!(r, Ok(ref a) if *a.step() == AdvanceStep::Waiting), "near-max-step", "{r:?}");
                Ok(Obs::nontrivial())
            })
        }
        3 => {
            // record_satisfiability: the inherited stamp is documented as the MINIMUM over the dead
            // direct dependencies. p0 marked at 50; p1 (depends on p0) inherits 50 in the first pass;
            // p2 directly marked at 100; p3 depends on p1 and p2.
            let prep = |l, k| MigrationTxKind::Preparation { layer: l, index: k };
            let mut s = mk(
                vec![
                    tx(0, prep(0, 0), vec![], 100, 0, None, MigrationTxState::Signed),
                    tx(1, prep(1, 0), vec![0], 100, 0, None, MigrationTxState::Signed),
                    tx(2, prep(1, 1), vec![], 100, 0, None, MigrationTxState::Signed),
                    tx(3, prep(2, 0), vec![1, 2], 100, 0, None, MigrationTxState::Signed),
                    tx(4, MigrationTxKind::Transfer { crossing: 0 }, vec![3], 100, 0, Some(0), MigrationTxState::Signed),
                ],
                1,
                144,
            );
            let spent = |h: u32| StepSatisfiability::Unsatisfiable { cause: UnsatisfiableCause::InputsSpent { nullifiers: vec![[9; 32]] }, as_of_height: bh(h) };
            s.record_satisfiability(DuenessTargets::at(bh(200)), &[(tid(2), spent(100))]);
            s.record_satisfiability(DuenessTargets::at(bh(200)), &[(tid(0), spent(50))]);
            let got: Vec<Option<u32>> = snap(&s).iter().map(|t| t.mark.map(|m| m.0)).collect();
            // p3 was stamped in the first call from p2 alone (its only dead dependency then): fine.
            vensure_eq!(got, vec![Some(50), Some(50), Some(100), Some(100), Some(100)], "harness-regression-3a", "two calls");
            // one call, both determinations: p3's dead direct dependencies are p1 (50) and p2 (100)
            let mut s2 = rebuild(&s, s.status(), |t| tx_with(t, t.state(), None, None, None, None));
            s2.record_satisfiability(DuenessTargets::at(bh(200)), &[(tid(2), spent(100)), (tid(0), spent(50))]);
            let ts = snap(&s2);
            let got: Vec<Option<u32>> = ts.iter().map(|t| t.mark.map(|m| m.0)).collect();
            // observation outside the property's statement (see `known`): counted, not reported
            if !(got[3] == Some(50) && got[4] == Some(50)) {
                return Ok(Obs::nontrivial().label("observation:inherited-stamp-not-minimum"));
            }
            Ok(Obs::nontrivial())
        }
        _ => Ok(Obs::trivial()),
    }
}

fn main() {
    // one global malloc-statistics mutex less (16 workers over SQLite)
    unsafe { rusqlite::ffi::sqlite3_config(rusqlite::ffi::SQLITE_CONFIG_MEMSTATUS, 0 as std::os::raw::c_int) };
    let ctx = Ctx::from_args("C18", "exploration");
    let _ = CTX.set(ctx.clone());
    {
        // a hanging advance_migration is a violation of invariant 7, reported with a direct replay
        let c = ctx.clone();
        hang::start_monitor(move |sub, case_json, what| {
            let dir = c.root.join("work").join("violations");
            let _ = std::fs::create_dir_all(&dir);
            let path = dir.join(format!("C18-{sub}-hang-{:016x}.json", vcore::hash64(case_json.as_bytes())));
            let case: serde_json::Value = serde_json::from_str(case_json).unwrap_or(serde_json::Value::Null);
            let msg = format!("{what}: advance_migration did not return within {} s (normal cost: microseconds): the drive loop does not terminate", hang::HANG_MS / 1000);
            let doc = serde_json::json!({"property": "C18", "sub": sub, "kind": "direct", "tier": c.tier.name(), "seed": c.seed, "worker": 0, "index": null,
                "signature": "advance-nontermination", "message": msg, "shrunk_case": case_json, "direct": case});
            let _ = std::fs::write(&path, serde_json::to_string_pretty(&doc).unwrap());
            c.external_violation(sub, &path, &format!("signature=advance-nontermination {msg}\n  case: {case_json}"));
            println!("RESULT property=C18 tier={} seed={} violations=1", c.tier.name(), c.seed);
        });
    }
    if let Some(direct) = ctx.replay.as_ref().and_then(|r| r.direct.clone()) {
        // direct replay of a serialized case (written by the hang monitor)
        let sub = ctx.replay.as_ref().map(|r| r.sub.clone()).unwrap_or_default();
        let case: Case = match serde_json::from_value(direct) {
            Ok(c) => c,
            Err(e) => {
                eprintln!("cannot parse the direct case: {e}");
                std::process::exit(2)
            }
        };
        let kind = if sub == "history-sqlite" { BackendKind::Sqlite } else { BackendKind::Memory };
        match catch(|| run_history(&case, kind)) {
            Ok(Ok(_)) => {
                println!("RESULT property=C18 direct replay held");
                std::process::exit(0)
            }
            Ok(Err(f)) => {
                println!("VIOLATION property=C18 replay=(direct)\n  sub-check={sub} signature={} message={}", f.signature, f.msg);
                std::process::exit(1)
            }
            Err(p) => {
                println!("VIOLATION property=C18 replay=(direct)\n  sub-check={sub} signature=harness-panic message={p}");
                std::process::exit(1)
            }
        }
    }
    ctx.set_rule(
        "Case = well-formed committed migration (DAG: <=3 preparation layers of <=3 txs with backward dependencies, 1-5 transfers each on <=1 preparation; \
         states AwaitingSignature..Mined, marks, reports, expiry in {0, canonical, past, doomed window}, on-grid anchors, any status, any threshold; \
         base height normal / near 0 / near u32::MAX) + 6..40 events (drive+execute, time, mining, rollback, foreign spends, anchor/input invalidation, \
         signature, proof, failure report, record_satisfiability, cancel, supersede, save/load, injected store failure). Scripted store answers from a model \
         chain (contract-respecting) or, labelled, from arbitrary scripted answers. Non-trivial = >= 1 broadcast offered and >= 1 of {rollback un-mining a tx, \
         an expiry passing, a mark recorded, a failure report adjudicated}; distinct = hash of the case. Round trips: arb_migration_state x3 per case on both stores.",
    );
    ctx.assume("scripted store contract (rustdoc of PoolMigrationRead): one view bounded by the fully-scanned height, as_of_height monotone between truncations, a mined height is reported only once scanned, inputs spent by the transaction itself imply mined_height reports it; the consumer persists after every mutation and calls truncate_to_height on every rollback");
    ctx.assume("a terminal migration's TRANSACTIONS may still be promoted to Mined by the drive API's in-flight sweep (status and step are asserted, not row immutability)");
    ctx.assume("generated states never carry a mark or report on a Mined row, an empty nullifier cache, or status Complete with an unmined transaction (unreachable through the public mutators)");
    ctx.assume("contract-violating store answers: only no-panic, termination, lifecycle monotonicity, persistence-on-change and terminal stickiness are asserted");
    ctx.assume("inherited stamps recorded inside advance_migration are checked for membership in the applicable stamps (several record passes per call); the exact-minimum rule is checked on single record_satisfiability calls");
    let tier = ctx.tier;

    ctx.run_enum("regression", 4, true, regression, |i| format!("regression case {i}"));
    ctx.run_enum(
        "regression-histories",
        2 * fixed::ALL.len() as u64,
        true,
        |i| {
            let case: Case = serde_json::from_str(fixed::ALL[i as usize / 2]).map_err(|e| Fail::new("harness-fixed-case", format!("fixed history {}: {e}", i / 2)))?;
            run_history(&case, if i % 2 == 0 { BackendKind::Memory } else { BackendKind::Sqlite })
        },
        |i| format!("fixed history {} on {}: {}", i / 2, if i % 2 == 0 { "memory" } else { "sqlite" }, fixed::ALL[i as usize / 2]),
    );

    let max_ev = tier.pick(40usize, 80);
    ctx.run_prop("history-memory", move || arb_case(max_ev), tier.pick(1_200_000, 20_000_000), |c| run_history(c, BackendKind::Memory));
    for l in ["broadcast-offered", "prove-offered", "mark-recorded", "rollback-unmined", "save-load"] {
        ctx.require_label_fraction("history-memory", l, 0.10);
    }
    for l in ["expiry-passed", "report-adjudicated", "schedule-shift", "replan", "waiting", "complete", "contract-violating-store", "near-u32-max", "terminal-start", "not-yet-deferral", "sweep-promoted", "doomed-window"] {
        ctx.require_label_fraction("history-memory", l, 0.02);
    }
    for l in ["rebuild", "reevaluate", "lost-broadcast-promoted", "store-error-injected", "complete-reverted-by-rollback", "mark-inherited", "anchor-redraw"] {
        ctx.require_min_count("history-memory", l, 50);
    }

    ctx.run_prop("history-sqlite", move || arb_case(24), tier.pick(30_000, 400_000), |c| run_history(c, BackendKind::Sqlite));
    ctx.require_label_fraction("history-sqlite", "save-load", 0.10);

    let three = || (arb_migration_state(), arb_migration_state(), arb_migration_state());
    ctx.run_prop("roundtrip-memory", three, tier.pick(50_000, 2_000_000), |(a, b, c)| check_roundtrip(BackendKind::Memory, a, b, c));
    ctx.run_prop("roundtrip-sqlite", three, tier.pick(6_000, 300_000), |(a, b, c)| check_roundtrip(BackendKind::Sqlite, a, b, c));
    for l in ["first-terminal", "second-terminal", "pending-replaces-pending", "has-report", "has-mark"] {
        ctx.require_label_fraction("roundtrip-sqlite", l, 0.05);
    }
    // well-formed states through both stores as well (terminal and non-terminal, with locks)
    ctx.run_prop(
        "roundtrip-wellformed-sqlite",
        || (arb_case(6), arb_case(6), arb_case(6)),
        tier.pick(3_000, 100_000),
        |(a, b, c)| check_roundtrip(BackendKind::Sqlite, &build(a).state, &build(b).state, &build(c).state),
    );

    let conf = || (arb_migration_state(), arb_migration_state(), arb_migration_tx_state());
    ctx.run_prop("conformance-memory", conf, tier.pick(5_000, 100_000), |(a, b, n)| check_conformance(BackendKind::Memory, a, b, *n));
    ctx.run_prop("conformance-sqlite", conf, tier.pick(2_000, 60_000), |(a, b, n)| check_conformance(BackendKind::Sqlite, a, b, *n));
    ctx.run_prop("update-unknown-sqlite", arb_migration_state, tier.pick(500, 10_000), check_update_unknown);

    ctx.finish();
}

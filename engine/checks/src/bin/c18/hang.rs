//! Hang monitor: `advance_migration` must terminate (invariant 7). The store-call and RNG-draw
//! counters catch loops that consult the store or draw randomness; a loop that does neither can
//! only be seen from outside. Every worker publishes when it entered the call; a monitor thread
//! reports a call that has been running for `HANG_MS` (normal cost: microseconds) as a violation
//! with a DIRECT replay (the serialized case), and ends the process with exit code 1.

use std::sync::atomic::{AtomicU64, Ordering};
use std::sync::{Arc, Mutex, OnceLock};
use std::time::Instant;

pub const HANG_MS: u64 = 120_000;

pub struct Slot {
    /// milliseconds since process start at which the current call began; 0 = not inside a call
    start: AtomicU64,
    info: Mutex<(String, String, String)>, // (sub-check, case json, what)
}

static SLOTS: Mutex<Vec<Arc<Slot>>> = Mutex::new(Vec::new());
static T0: OnceLock<Instant> = OnceLock::new();

thread_local! {
    static MY: Arc<Slot> = {
        let s = Arc::new(Slot { start: AtomicU64::new(0), info: Mutex::new(Default::default()) });
        SLOTS.lock().unwrap().push(s.clone());
        s
    };
}

fn now_ms() -> u64 {
    T0.get_or_init(Instant::now).elapsed().as_millis() as u64 + 1
}

/// Called once per history: what to report if a call of this history hangs.
pub fn set_case(sub: &str, case_json: String) {
    MY.with(|s| {
        let mut g = s.info.lock().unwrap();
        g.0 = sub.to_string();
        g.1 = case_json;
    });
}

/// Runs `f` (one `advance_migration` call) under the monitor.
pub fn guarded<R>(what: &str, f: impl FnOnce() -> R) -> R {
    MY.with(|s| {
        s.info.lock().unwrap().2 = what.to_string();
        s.start.store(now_ms(), Ordering::SeqCst);
    });
    let r = f();
    MY.with(|s| s.start.store(0, Ordering::SeqCst));
    r
}

/// Starts the monitor thread. `report(sub, case_json, what)` must print the VIOLATION line.
pub fn start_monitor(report: impl Fn(&str, &str, &str) + Send + 'static) {
    let _ = now_ms();
    std::thread::spawn(move || loop {
        std::thread::sleep(std::time::Duration::from_millis(500));
        let now = now_ms();
        let slots: Vec<Arc<Slot>> = SLOTS.lock().unwrap().clone();
        for s in slots {
            let st = s.start.load(Ordering::SeqCst);
            if st != 0 && now.saturating_sub(st) > HANG_MS {
                let g = s.info.lock().unwrap();
                report(&g.0, &g.1, &g.2);
                std::process::exit(1);
            }
        }
    });
}

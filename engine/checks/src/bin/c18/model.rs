//! C18 case model: a well-formed committed migration (dependency DAG of preparation layers and
//! transfers) plus a history of events, all symbolic relative to a base height so that shrinking
//! keeps the case well-formed.

use std::num::NonZeroU32;

use proptest::collection::vec as pvec;
use proptest::prelude::*;
use proptest::sample::select;
use serde::{Deserialize, Serialize};
use vcore::pick_index;
use zcash_pool_migration::denomination::DenominationPlan;
use zcash_pool_migration::engine::{
    MigrationLockOwner, MigrationState, MigrationStatus, MigrationTransaction, MigrationTransferId, MigrationTxKind,
    MigrationTxState,
};
use zcash_pool_migration::preparation::{PrepInput, PrepOutput, PrepTransaction, PreparationPlan};
use zcash_pool_migration::satisfiability::{ReplanThreshold, UnsatisfiableKind};
use zcash_pool_migration::scheduling::AnchorBucketInterval;
use zcash_protocol::consensus::BlockHeight;
use zcash_protocol::value::Zatoshis;
use zcash_protocol::TxId;

pub const MAXH: u32 = u32::MAX;
/// The chain tip never exceeds this, so that `tip + 1` (the target convention) is representable.
pub const MAX_TIP: u32 = u32::MAX - 1;
/// ZIP 318 canonical expiry, restated from the rustdoc of `zip318::expiry_height`.
pub const EXPIRY_MODULUS: u64 = 34_560;
pub const EXPIRY_WINDOW: u64 = 69_120;

pub fn bh(h: u32) -> BlockHeight {
    BlockHeight::from_u32(h)
}
pub fn tid(i: u32) -> MigrationTransferId {
    MigrationTransferId::new(i)
}

#[derive(Clone, Copy, Debug, Serialize, Deserialize)]
pub enum BaseH {
    Normal(u32),
    Low(u32),
    /// u32::MAX - 2 - k
    NearMax(u32),
}

#[derive(Clone, Copy, Debug, PartialEq, Eq, Serialize, Deserialize)]
pub enum StSel {
    Awaiting,
    Signed,
    Proved,
    Broadcast,
    Mined,
}

#[derive(Clone, Copy, Debug, Serialize, Deserialize)]
pub enum ExpSel {
    Zero,
    /// canonical rolling expiry of the scheduled height
    Canonical,
    /// base + offset (negative: already past; small positive: passes during the history / doomed window)
    Rel(i32),
}

#[derive(Clone, Copy, Debug, Serialize, Deserialize)]
pub enum MarkSel {
    Spent,
    InputsInv,
    AnchorInv,
    Inherited,
}

#[derive(Clone, Copy, Debug, Serialize, Deserialize)]
pub enum StatusSel {
    Planning,
    Committed,
    InProgress,
    Complete,
    Failed,
    Superseded,
    Cancelled,
}

#[derive(Clone, Debug, Serialize, Deserialize)]
pub struct TxGen {
    pub st: StSel,
    pub sched_off: i32,
    pub exp: ExpSel,
    /// (kind, blocks below the scanned tip the observation rests on)
    pub mark: Option<(MarkSel, u16)>,
    /// observed tip of a standing broadcast-failure report, relative to the base
    pub report: Option<i8>,
    pub mined_back: u16,
    pub nfs: u8,
    pub lock: bool,
    /// preparation: bit mask over all earlier-layer preparations; transfer: 0 = no dependency,
    /// otherwise selects one preparation
    pub deps: u32,
    /// transfer: age (in grid intervals) of the drawn anchor boundary below the schedule
    pub age: u8,
    pub value_sel: u8,
}

#[derive(Clone, Copy, Debug, Serialize, Deserialize)]
pub enum Est {
    AtScanned,
    /// chain tip + 1 + offset
    Tip(i8),
    Ahead(u16),
}

#[derive(Clone, Copy, Debug, Serialize, Deserialize)]
pub enum Bc {
    Ok,
    /// rejected by the node; observed tip = chain tip + offset
    Fail(i8),
    /// submitted, but the record (`mark_broadcast`) was lost
    Lost,
}

#[derive(Clone, Copy, Debug, Serialize, Deserialize)]
pub enum Adv {
    Small(u8),
    Medium(u16),
    /// jump to the k-th interesting height above the tip (+ offset -1..=1)
    ToPoint(u32, i8),
}

#[derive(Clone, Debug, Serialize, Deserialize)]
pub enum Event {
    /// `advance_migration`, optionally followed by executing the returned step.
    Step { est: Est, exec: bool, bc: Bc, prove_prefix: Option<u8>, fail_at: Option<u8>, supersede: bool },
    Advance { adv: Adv, scan: bool },
    Scan,
    Mine { sel: u32, scan: bool, direct: bool },
    Rollback { depth: u16 },
    ForeignSpend { sel: u32, scan: bool },
    AnchorInvalidate { sel: u32 },
    InputsInvalidate { sel: u32 },
    UnknownInputs { sel: u32, dur: u8 },
    ApplySignature { sel: u32 },
    StoreProof { sel: u32, lock: bool },
    ReportFailure { sel: u32, off: i8, any: bool },
    RecordSat { sel: u32 },
    Cancel,
    Supersede,
    SaveLoad,
}

/// One scripted answer of a contract-VIOLATING store.
#[derive(Clone, Copy, Debug, Serialize, Deserialize)]
pub struct ViolAns {
    pub kind: u8,
    pub as_of_off: i16,
    pub mined: Option<i16>,
}

#[derive(Clone, Debug, Serialize, Deserialize)]
pub struct Case {
    pub base: BaseH,
    pub scan_lag: u8,
    pub interval: u32,
    pub threshold: u8,
    pub settle: u8,
    pub status: StatusSel,
    pub consistent: bool,
    pub layers: Vec<Vec<TxGen>>,
    pub transfers: Vec<TxGen>,
    pub events: Vec<Event>,
    pub violating: Option<Vec<ViolAns>>,
    pub salt: u8,
}

// ---------------------------------------------------------------------------------------------
// Strategies
// ---------------------------------------------------------------------------------------------

fn arb_st() -> impl Strategy<Value = StSel> {
    prop_oneof![
        1 => Just(StSel::Awaiting),
        4 => Just(StSel::Signed),
        4 => Just(StSel::Proved),
        2 => Just(StSel::Broadcast),
        3 => Just(StSel::Mined),
    ]
}

fn arb_exp() -> impl Strategy<Value = ExpSel> {
    prop_oneof![
        3 => Just(ExpSel::Zero),
        3 => Just(ExpSel::Canonical),
        2 => (-30i32..=-1).prop_map(ExpSel::Rel),
        3 => (0i32..=60).prop_map(ExpSel::Rel),
        1 => (61i32..=2000).prop_map(ExpSel::Rel),
    ]
}

fn arb_mark() -> impl Strategy<Value = Option<(MarkSel, u16)>> {
    prop_oneof![
        8 => Just(None),
        1 => (prop_oneof![Just(MarkSel::Spent), Just(MarkSel::InputsInv), Just(MarkSel::AnchorInv), Just(MarkSel::Inherited)], 0u16..60)
            .prop_map(Some),
    ]
}

fn arb_txgen() -> impl Strategy<Value = TxGen> {
    (
        arb_st(),
        prop_oneof![
            3 => -40i32..=0,
            2 => 1i32..=40,
            2 => 41i32..=400,
            1 => -400i32..=-41,
            1 => 1000i32..=40_000,
        ],
        arb_exp(),
        arb_mark(),
        prop_oneof![9 => Just(None), 1 => (-20i8..=30).prop_map(Some)],
        0u16..200,
        1u8..=3,
        any::<bool>(),
        any::<u32>(),
        1u8..=4,
        0u8..6,
    )
        .prop_map(|(st, sched_off, exp, mark, report, mined_back, nfs, lock, deps, age, value_sel)| TxGen {
            st,
            sched_off,
            exp,
            mark,
            report,
            mined_back,
            nfs,
            lock,
            deps,
            age,
            value_sel,
        })
}

fn arb_est() -> impl Strategy<Value = Est> {
    prop_oneof![
        3 => Just(Est::AtScanned),
        4 => (-3i8..=40).prop_map(Est::Tip),
        1 => (41u16..=5000).prop_map(Est::Ahead),
    ]
}

fn arb_bc() -> impl Strategy<Value = Bc> {
    prop_oneof![6 => Just(Bc::Ok), 2 => (-2i8..=6).prop_map(Bc::Fail), 1 => Just(Bc::Lost)]
}

fn arb_adv() -> impl Strategy<Value = Adv> {
    prop_oneof![
        3 => (0u8..=3).prop_map(Adv::Small),
        2 => (4u16..=200).prop_map(Adv::Medium),
        4 => (any::<u32>(), -1i8..=1).prop_map(|(s, o)| Adv::ToPoint(s, o)),
    ]
}

fn arb_event() -> impl Strategy<Value = Event> {
    prop_oneof![
        108 => ((arb_est(), prop::bool::weighted(0.35)), arb_bc(), prop_oneof![4 => Just(None), 1 => (0u8..3).prop_map(Some)], prop_oneof![24 => Just(None), 1 => (1u8..12).prop_map(Some)])
            .prop_map(|((est, supersede), bc, prove_prefix, fail_at)| Event::Step { est, exec: true, bc, prove_prefix, fail_at, supersede }),
        15 => (arb_est(), prop_oneof![12 => Just(None), 1 => (1u8..12).prop_map(Some)])
            .prop_map(|(est, fail_at)| Event::Step { est, exec: false, bc: Bc::Ok, prove_prefix: None, fail_at, supersede: false }),
        42 => (arb_adv(), prop::bool::weighted(0.8)).prop_map(|(adv, scan)| Event::Advance { adv, scan }),
        9 => Just(Event::Scan),
        36 => (any::<u32>(), prop::bool::weighted(0.8), prop::bool::weighted(0.2)).prop_map(|(sel, scan, direct)| Event::Mine { sel, scan, direct }),
        15 => prop_oneof![3 => 0u16..4, 2 => 4u16..40, 1 => 40u16..400].prop_map(|depth| Event::Rollback { depth }),
        12 => (any::<u32>(), prop::bool::weighted(0.8)).prop_map(|(sel, scan)| Event::ForeignSpend { sel, scan }),
        6 => any::<u32>().prop_map(|sel| Event::AnchorInvalidate { sel }),
        3 => any::<u32>().prop_map(|sel| Event::InputsInvalidate { sel }),
        6 => (any::<u32>(), 1u8..30).prop_map(|(sel, dur)| Event::UnknownInputs { sel, dur }),
        6 => any::<u32>().prop_map(|sel| Event::ApplySignature { sel }),
        9 => (any::<u32>(), any::<bool>()).prop_map(|(sel, lock)| Event::StoreProof { sel, lock }),
        9 => (any::<u32>(), -2i8..=8, prop::bool::weighted(0.25)).prop_map(|(sel, off, any)| Event::ReportFailure { sel, off, any }),
        6 => any::<u32>().prop_map(|sel| Event::RecordSat { sel }),
        1 => Just(Event::Cancel),
        1 => Just(Event::Supersede),
        15 => Just(Event::SaveLoad),
    ]
}

fn arb_viol() -> impl Strategy<Value = Option<Vec<ViolAns>>> {
    prop_oneof![
        9 => Just(None),
        1 => pvec((0u8..7, -400i16..=400, prop_oneof![2 => Just(None), 1 => (-300i16..=300).prop_map(Some)])
                .prop_map(|(kind, as_of_off, mined)| ViolAns { kind, as_of_off, mined }), 1..8)
            .prop_map(Some),
    ]
}

pub fn arb_case(max_events: usize) -> impl Strategy<Value = Case> {
    let base = prop_oneof![
        8 => (200_000u32..3_000_000).prop_map(BaseH::Normal),
        1 => (0u32..400).prop_map(BaseH::Low),
        1 => (0u32..3000).prop_map(BaseH::NearMax),
    ];
    let interval = prop_oneof![
        4 => Just(144u32),
        3 => select(vec![1u32, 2, 5, 12, 36, 100, 1000]),
        1 => 1u32..=300,
    ];
    let status = prop_oneof![
        10 => Just(StatusSel::Committed),
        8 => Just(StatusSel::InProgress),
        2 => Just(StatusSel::Planning),
        1 => Just(StatusSel::Complete),
        1 => Just(StatusSel::Failed),
        1 => Just(StatusSel::Superseded),
        1 => Just(StatusSel::Cancelled),
    ];
    (
        (base, 0u8..4, interval, select(vec![0u8, 0, 10, 20, 20, 20, 50, 99, 100]), select(vec![0u8, 1, 3, 10]), status, prop::bool::weighted(0.7)),
        pvec(pvec(arb_txgen(), 0..=3), 0..=3),
        pvec(arb_txgen(), 1..=5),
        pvec(arb_event(), 6..=max_events),
        arb_viol(),
        any::<u8>(),
    )
        .prop_map(|((base, scan_lag, interval, threshold, settle, status, consistent), layers, transfers, events, violating, salt)| Case {
            base,
            scan_lag,
            interval,
            threshold,
            settle,
            status,
            consistent,
            layers: layers.into_iter().filter(|l| !l.is_empty()).collect(),
            transfers,
            events,
            violating,
            salt,
        })
}

// ---------------------------------------------------------------------------------------------
// Building the MigrationState
// ---------------------------------------------------------------------------------------------

pub struct Built {
    pub state: MigrationState,
    /// initial chain tip / fully-scanned height
    pub tip: u32,
    pub scanned: u32,
    pub near_max: bool,
    pub interval: u32,
}

pub fn canonical_expiry(h: u32) -> u32 {
    let h = h as u64;
    (h - h % EXPIRY_MODULUS + EXPIRY_WINDOW).min(MAXH as u64) as u32
}

fn clamp(x: i64) -> u32 {
    x.clamp(0, MAXH as i64) as u32
}

pub fn txid_for(salt: u8, i: u32) -> [u8; 32] {
    let h = blake2b_simd::Params::new().hash_length(32).hash(&[&[salt, 0xC1, 0x18][..], &i.to_le_bytes()[..]].concat());
    let mut out = [0u8; 32];
    out.copy_from_slice(h.as_bytes());
    out
}

fn nf_for(salt: u8, i: u32, k: u8) -> [u8; 32] {
    let h = blake2b_simd::Params::new().hash_length(32).hash(&[&[salt, 0x4e, k][..], &i.to_le_bytes()[..]].concat());
    let mut out = [0u8; 32];
    out.copy_from_slice(h.as_bytes());
    out
}

const VALUES: [u64; 6] = [10_000, 100_000, 1_000_000, 2_000_000, 50_000_000, 1_000_000_000];

pub fn build(case: &Case) -> Built {
    let (tip, near_max) = match case.base {
        BaseH::Normal(h) => (h, false),
        BaseH::Low(h) => (h, false),
        BaseH::NearMax(k) => (MAX_TIP - 1 - k, true),
    };
    let scanned = tip.saturating_sub(case.scan_lag as u32);
    // near the top of the range only fine grids have boundaries within reach of the heights used
    let interval = if near_max { [1u32, 2, 3, 5, 12][case.interval as usize % 5] } else { case.interval.max(1) };
    let iv = interval as u64;

    // ids: preparations layer by layer, then transfers
    let mut prep_ids: Vec<Vec<u32>> = vec![];
    let mut next = 0u32;
    for l in &case.layers {
        prep_ids.push((0..l.len() as u32).map(|k| next + k).collect());
        next += l.len() as u32;
    }
    let all_preps: Vec<u32> = prep_ids.iter().flatten().copied().collect();

    struct Row {
        id: u32,
        kind: MigrationTxKind,
        deps: Vec<u32>,
        g: TxGen,
    }
    let mut rows: Vec<Row> = vec![];
    for (li, l) in case.layers.iter().enumerate() {
        let earlier: Vec<u32> = prep_ids[..li].iter().flatten().copied().collect();
        for (k, g) in l.iter().enumerate() {
            let deps: Vec<u32> = earlier.iter().enumerate().filter(|(b, _)| (g.deps >> (b % 32)) & 1 == 1).map(|(_, id)| *id).collect();
            rows.push(Row { id: prep_ids[li][k], kind: MigrationTxKind::Preparation { layer: li, index: k }, deps, g: g.clone() });
        }
    }
    for (c, g) in case.transfers.iter().enumerate() {
        let deps = if all_preps.is_empty() || g.deps % 4 == 0 { vec![] } else { vec![all_preps[pick_index(g.deps, all_preps.len())]] };
        rows.push(Row { id: next + c as u32, kind: MigrationTxKind::Transfer { crossing: c }, deps, g: g.clone() });
    }

    let force_mined = matches!(case.status, StatusSel::Complete);
    let mut txs: Vec<MigrationTransaction> = vec![];
    // (state selector actually used, mined height) per id, for dependency-consistent coercion
    let mut decided: Vec<(StSel, u32)> = vec![];
    for r in &rows {
        let g = &r.g;
        let sched = clamp(tip as i64 + g.sched_off as i64);
        let expiry = match g.exp {
            ExpSel::Zero => 0,
            ExpSel::Canonical => canonical_expiry(sched),
            ExpSel::Rel(o) => clamp(tip as i64 + o as i64).max(1),
        };
        let boundary = match r.kind {
            MigrationTxKind::Transfer { .. } => {
                let mr = sched as u64 / iv * iv;
                Some(mr.saturating_sub(g.age as u64 * iv) as u32)
            }
            MigrationTxKind::Preparation { .. } => None,
        };
        let mut st = if force_mined { StSel::Mined } else { g.st };
        let mut mined_h = scanned.saturating_sub(g.mined_back as u32);
        if case.consistent && !force_mined {
            let deps_mined = r.deps.iter().all(|d| decided[*d as usize].0 == StSel::Mined);
            if !deps_mined && matches!(st, StSel::Proved | StSel::Broadcast | StSel::Mined) {
                st = StSel::Signed;
            }
            if st == StSel::Mined {
                let floor = r.deps.iter().map(|d| decided[*d as usize].1 as u64 + 1).max().unwrap_or(0);
                if floor > scanned as u64 {
                    st = StSel::Broadcast;
                } else {
                    mined_h = mined_h.max(floor as u32);
                }
            }
        }
        decided.push((st, mined_h));
        let txid = TxId::from_bytes(txid_for(case.salt, r.id));
        let state = match st {
            StSel::Awaiting => MigrationTxState::AwaitingSignature,
            StSel::Signed => MigrationTxState::Signed,
            StSel::Proved => MigrationTxState::Proved,
            StSel::Broadcast => MigrationTxState::Broadcast { txid },
            StSel::Mined => MigrationTxState::Mined { txid, height: bh(mined_h) },
        };
        let mined = st == StSel::Mined;
        let mark = if mined {
            None
        } else {
            g.mark.map(|(k, back)| {
                let kind = match k {
                    MarkSel::Spent => UnsatisfiableKind::InputsSpent,
                    MarkSel::InputsInv => UnsatisfiableKind::InputsInvalidated,
                    MarkSel::AnchorInv => UnsatisfiableKind::AnchorInvalidated,
                    MarkSel::Inherited => UnsatisfiableKind::Inherited,
                };
                (bh(scanned.saturating_sub(back as u32)), kind)
            })
        };
        // a report is recorded only on a Proved transaction (a consumer may then still record a
        // broadcast, so Broadcast rows can carry one too); never on a mined one.
        let report = if matches!(st, StSel::Proved | StSel::Broadcast) { g.report.map(|o| bh(clamp(tip as i64 + o as i64))) } else { None };
        let lock = if g.lock && matches!(st, StSel::Proved | StSel::Broadcast | StSel::Mined) {
            Some(MigrationLockOwner::from_bytes(nf_for(case.salt, r.id, 0xFF)))
        } else {
            None
        };
        let nfs: Vec<[u8; 32]> = (0..g.nfs.max(1)).map(|k| nf_for(case.salt, r.id, k)).collect();
        let pczt = vec![0xB0 | (st as u8), r.id as u8, case.salt];
        txs.push(MigrationTransaction::from_parts(
            tid(r.id),
            r.kind,
            pczt,
            r.deps.iter().map(|d| tid(*d)).collect(),
            bh(sched),
            bh(expiry),
            boundary.map(bh),
            txid,
            state,
            lock,
            mark,
            nfs,
            report,
        ));
    }

    let z = |v: u64| Zatoshis::const_from_u64(v);
    let crossing_values: Vec<Zatoshis> = case.transfers.iter().map(|g| z(VALUES[g.value_sel as usize % VALUES.len()])).collect();
    let total: u64 = crossing_values.iter().map(|v| v.into_u64()).sum();
    let denominations = DenominationPlan::from_stored_parts(crossing_values.clone(), z(15_000), Some(z(4321)), z(10_000 * all_preps.len() as u64), z(total + 1_000_000), z(total))
        .expect("small values");
    let layers: Vec<Vec<PrepTransaction>> = case
        .layers
        .iter()
        .enumerate()
        .map(|(li, l)| {
            l.iter()
                .enumerate()
                .map(|(k, g)| {
                    let v = z(VALUES[g.value_sel as usize % VALUES.len()] + 15_000);
                    let input = if li == 0 {
                        PrepInput::Wallet { index: k, value: v }
                    } else {
                        PrepInput::Prior { layer: li - 1, transaction: 0, output: 0, value: v }
                    };
                    PrepTransaction::from_parts(vec![input], vec![PrepOutput::Funding(v), PrepOutput::Change(z(1))])
                })
                .collect()
        })
        .collect();
    let direct: Vec<(usize, Zatoshis)> = rows
        .iter()
        .filter(|r| matches!(r.kind, MigrationTxKind::Transfer { .. }) && r.deps.is_empty())
        .map(|r| (r.id as usize, z(VALUES[r.g.value_sel as usize % VALUES.len()] + 15_000)))
        .collect();
    let preparation = PreparationPlan::from_parts(layers, direct);
    let status = match case.status {
        StatusSel::Planning => MigrationStatus::Planning,
        StatusSel::Committed => MigrationStatus::Committed,
        StatusSel::InProgress => MigrationStatus::InProgress,
        StatusSel::Complete => MigrationStatus::Complete,
        StatusSel::Failed => MigrationStatus::Failed,
        StatusSel::Superseded => MigrationStatus::Superseded,
        StatusSel::Cancelled => MigrationStatus::Cancelled,
    };
    let state = MigrationState::from_parts(
        status,
        denominations,
        preparation,
        txs,
        AnchorBucketInterval::custom(NonZeroU32::new(interval).unwrap()),
        ReplanThreshold::new(case.threshold.min(100)).unwrap(),
    );
    Built { state, tip, scanned, near_max, interval }
}

// ---------------------------------------------------------------------------------------------
// Snapshots of the public state (what the reference model reads)
// ---------------------------------------------------------------------------------------------

#[derive(Clone, Debug, PartialEq, Eq)]
pub struct T {
    pub id: u32,
    pub transfer: bool,
    pub crossing: Option<usize>,
    pub deps: Vec<u32>,
    pub sched: u32,
    pub expiry: u32,
    pub boundary: Option<u32>,
    /// AwaitingSignature 0 < Signed 1 < Proved 2 < Broadcast 3 < Mined 4
    pub rank: u8,
    pub mined_h: Option<u32>,
    pub mark: Option<(u32, UnsatisfiableKind)>,
    pub report: Option<u32>,
    pub txid: [u8; 32],
}

pub fn rank_of(s: &MigrationTxState) -> u8 {
    match s {
        MigrationTxState::AwaitingSignature => 0,
        MigrationTxState::Signed => 1,
        MigrationTxState::Proved => 2,
        MigrationTxState::Broadcast { .. } => 3,
        MigrationTxState::Mined { .. } => 4,
    }
}

pub fn snap(state: &MigrationState) -> Vec<T> {
    state
        .transactions()
        .iter()
        .map(|t| T {
            id: u32::from(t.id()),
            transfer: matches!(t.kind(), MigrationTxKind::Transfer { .. }),
            crossing: t.kind().transfer_crossing(),
            deps: t.depends_on().iter().map(|d| u32::from(*d)).collect(),
            sched: u32::from(t.scheduled_height()),
            expiry: u32::from(t.expiry_height()),
            boundary: t.anchor_boundary().map(u32::from),
            rank: rank_of(&t.state()),
            mined_h: t.state().mined_height().map(u32::from),
            mark: t.unsatisfiable().map(|(h, k)| (u32::from(h), k)),
            report: t.broadcast_failure_at().map(u32::from),
            txid: *t.txid().as_ref(),
        })
        .collect()
}

/// Rebuilds `st` with each transaction mapped through `f` and the given status: how the reference
/// model states an expected post-state (only public constructors are used).
pub fn rebuild(st: &MigrationState, status: MigrationStatus, f: impl Fn(&MigrationTransaction) -> MigrationTransaction) -> MigrationState {
    MigrationState::from_parts(
        status,
        st.denominations().clone(),
        st.preparation().clone(),
        st.transactions().iter().map(f).collect(),
        st.anchor_bucket_interval(),
        st.replan_threshold(),
    )
}

#[allow(clippy::too_many_arguments)]
pub fn tx_with(
    t: &MigrationTransaction,
    state: MigrationTxState,
    pczt: Option<Vec<u8>>,
    lock: Option<Option<MigrationLockOwner>>,
    mark: Option<(BlockHeight, UnsatisfiableKind)>,
    report: Option<BlockHeight>,
) -> MigrationTransaction {
    MigrationTransaction::from_parts(
        t.id(),
        t.kind(),
        pczt.unwrap_or_else(|| t.pczt().clone()),
        t.depends_on().clone(),
        t.scheduled_height(),
        t.expiry_height(),
        t.anchor_boundary(),
        t.txid(),
        state,
        lock.unwrap_or_else(|| t.lock_owner()),
        mark,
        t.spend_nullifiers().clone(),
        report,
    )
}

//! C10 — Address strings: parsing and encoding are inverse and enforce ZIP 316.
//!
//! Oracles (all written from the protocol spec §5.6, ZIP 173, ZIP 316, ZIP 320, BIP 173/350 — not
//! from the crate):
//!   * an independent encoder for every address kind (own Bech32/Bech32m, own Base58Check framing,
//!     own F4Jumble, own CompactSize, own unified-container layout) — validated against the
//!     official ZIP 316 test vectors exported by the crate and the rustdoc vectors;
//!   * an independent ZIP 316 validity predicate over the *bytes* of a container payload;
//!   * round trip / canonical form relations on the crate itself.

use std::collections::{BTreeMap, BTreeSet};
use std::convert::Infallible;
use std::sync::Arc;

use proptest::collection::vec as pvec;
use proptest::prelude::*;
use proptest::sample::select;
use sha2::{Digest, Sha256};
use vcore::serde_json::json;
use vcore::{catch, hash64, pick_index, vensure, vensure_eq, vfail, CaseResult, Ctx, Fail, Obs};

use zcash_address::unified::{self, Encoding, Item as _};
use zcash_address::{ConversionError, ParseError, ToAddress, TryFromAddress, ZcashAddress};
use zcash_protocol::consensus::{
    BlockHeight, NetworkType, NetworkUpgrade, Parameters, MAIN_NETWORK, TEST_NETWORK,
};
use zcash_protocol::local_consensus::LocalNetwork;

// ---------------------------------------------------------------------------------------------
// Constants taken from the specifications (NOT from zcash_protocol::constants)
// ---------------------------------------------------------------------------------------------

const NETS: [NetworkType; 3] = [NetworkType::Main, NetworkType::Test, NetworkType::Regtest];

fn net_idx(n: NetworkType) -> usize {
    match n {
        NetworkType::Main => 0,
        NetworkType::Test => 1,
        NetworkType::Regtest => 2,
    }
}

// Protocol spec §5.6.3.1 / ZIP 173
const HRP_SAPLING: [&str; 3] = ["zs", "ztestsapling", "zregtestsapling"];
// ZIP 320
const HRP_TEX: [&str; 3] = ["tex", "textest", "texregtest"];
// ZIP 316
const HRP_UA: [&str; 3] = ["u", "utest", "uregtest"];
const HRP_UFVK: [&str; 3] = ["uview", "uviewtest", "uviewregtest"];
const HRP_UIVK: [&str; 3] = ["uivk", "uivktest", "uivkregtest"];
// Protocol spec §5.6.1.1 / §5.6.2 (regtest shares the testnet lead bytes)
const B58_P2PKH: [[u8; 2]; 3] = [[0x1c, 0xb8], [0x1d, 0x25], [0x1d, 0x25]];
const B58_P2SH: [[u8; 2]; 3] = [[0x1c, 0xbd], [0x1c, 0xba], [0x1c, 0xba]];
const B58_SPROUT: [[u8; 2]; 3] = [[0x16, 0x9a], [0x16, 0xb6], [0x16, 0xb6]];

/// ZIP 316: valid F4Jumble message lengths.
const F4_MIN: usize = 48;
const F4_MAX: usize = 4_194_368;
/// ZIP 316 / CompactSize: largest typecode.
const MAX_TYPECODE: u64 = 0x0200_0000;

const BECH32_CONST: u32 = 1;
const BECH32M_CONST: u32 = 0x2bc8_30a3;

type RItem = (u32, Vec<u8>);

fn hx(b: &[u8]) -> String {
    if b.len() <= 48 {
        hex::encode(b)
    } else {
        format!("{}…({} bytes)", hex::encode(&b[..48]), b.len())
    }
}

fn show_items(items: &[RItem]) -> String {
    let v: Vec<String> = items.iter().map(|(t, d)| format!("({t:#x},{})", hx(d))).collect();
    format!("[{}]", v.join(", "))
}

fn short(s: &str) -> String {
    if s.len() <= 400 {
        s.to_string()
    } else {
        let mut a = 200;
        while !s.is_char_boundary(a) {
            a -= 1;
        }
        let mut b = s.len() - 100;
        while !s.is_char_boundary(b) {
            b += 1;
        }
        format!("{}…{}[{} bytes]", &s[..a], &s[b..], s.len())
    }
}

/// Deterministic byte expansion of a generated seed (seed 0 => zeros, seed 1 => 0xff).
fn expand(seed: u64, len: usize) -> Vec<u8> {
    match seed {
        0 => return vec![0u8; len],
        1 => return vec![0xffu8; len],
        _ => {}
    }
    let mut out = Vec::with_capacity(len + 64);
    let mut ctr = 0u64;
    while out.len() < len {
        let mut st = blake2b_simd::Params::new().hash_length(64).personal(b"c10-expand").to_state();
        st.update(&seed.to_le_bytes());
        st.update(&ctr.to_le_bytes());
        out.extend_from_slice(st.finalize().as_bytes());
        ctr += 1;
    }
    out.truncate(len);
    out
}

// ---------------------------------------------------------------------------------------------
// Reference primitives
// ---------------------------------------------------------------------------------------------

/// Minimal CompactSize.
fn cs(n: u64) -> Vec<u8> {
    if n < 253 {
        vec![n as u8]
    } else if n <= 0xffff {
        let mut v = vec![253];
        v.extend_from_slice(&(n as u16).to_le_bytes());
        v
    } else if n <= 0xffff_ffff {
        let mut v = vec![254];
        v.extend_from_slice(&(n as u32).to_le_bytes());
        v
    } else {
        let mut v = vec![255];
        v.extend_from_slice(&n.to_le_bytes());
        v
    }
}

/// CompactSize with a forced width (3, 5 or 9 bytes; anything else = minimal). Values that do not
/// fit the width fall back to minimal.
fn cs_width(n: u64, width: u8) -> Vec<u8> {
    match width {
        3 if n <= 0xffff => {
            let mut v = vec![253];
            v.extend_from_slice(&(n as u16).to_le_bytes());
            v
        }
        5 if n <= 0xffff_ffff => {
            let mut v = vec![254];
            v.extend_from_slice(&(n as u32).to_le_bytes());
            v
        }
        9 => {
            let mut v = vec![255];
            v.extend_from_slice(&n.to_le_bytes());
            v
        }
        _ => cs(n),
    }
}

#[derive(Clone, Copy, Debug, PartialEq, Eq, PartialOrd, Ord)]
enum Rej {
    Variant,
    UnknownHrp,
    B32Padding,
    Length,
    Padding,
    CsNonCanonical,
    Truncated,
    TypecodeRange,
    KnownLen,
    P2shInViewingKey,
    Order,
    Duplicate,
    BothTransparent,
    OnlyTransparent,
}

impl Rej {
    fn name(self) -> &'static str {
        match self {
            Rej::Variant => "not-bech32m",
            Rej::UnknownHrp => "unknown-hrp",
            Rej::B32Padding => "bech32-padding",
            Rej::Length => "length-outside-f4jumble-range",
            Rej::Padding => "padding",
            Rej::CsNonCanonical => "non-minimal-compactsize",
            Rej::Truncated => "truncated-item",
            Rej::TypecodeRange => "typecode-out-of-range",
            Rej::KnownLen => "known-item-length",
            Rej::P2shInViewingKey => "p2sh-in-viewing-key",
            Rej::Order => "unsorted",
            Rej::Duplicate => "duplicate-typecode",
            Rej::BothTransparent => "p2pkh-and-p2sh",
            Rej::OnlyTransparent => "only-transparent",
        }
    }
    fn label(self) -> &'static str {
        match self {
            Rej::Variant => "rej:not-bech32m",
            Rej::UnknownHrp => "rej:unknown-hrp",
            Rej::B32Padding => "rej:bech32-padding",
            Rej::Length => "rej:length",
            Rej::Padding => "rej:padding",
            Rej::CsNonCanonical => "rej:non-minimal-compactsize",
            Rej::Truncated => "rej:truncated-item",
            Rej::TypecodeRange => "rej:typecode-range",
            Rej::KnownLen => "rej:known-item-length",
            Rej::P2shInViewingKey => "rej:p2sh-in-viewing-key",
            Rej::Order => "rej:unsorted",
            Rej::Duplicate => "rej:duplicate-typecode",
            Rej::BothTransparent => "rej:p2pkh-and-p2sh",
            Rej::OnlyTransparent => "rej:only-transparent",
        }
    }
}

/// Reads a canonical CompactSize (Bitcoin rule: shortest form only).
fn ref_cs_read(buf: &[u8], pos: &mut usize) -> Result<u64, Rej> {
    let flag = *buf.get(*pos).ok_or(Rej::Truncated)?;
    *pos += 1;
    let (width, min) = match flag {
        0..=252 => return Ok(flag as u64),
        253 => (2usize, 253u64),
        254 => (4, 0x1_0000),
        255 => (8, 0x1_0000_0000),
    };
    if buf.len() < *pos + width {
        return Err(Rej::Truncated);
    }
    let mut le = [0u8; 8];
    le[..width].copy_from_slice(&buf[*pos..*pos + width]);
    *pos += width;
    let v = u64::from_le_bytes(le);
    if v < min {
        return Err(Rej::CsNonCanonical);
    }
    Ok(v)
}

fn f4_h(i: u8, out_len: usize, u: &[u8]) -> Vec<u8> {
    let mut pers = *b"UA_F4Jumble_H\0\0\0";
    pers[13] = i;
    blake2b_simd::Params::new().hash_length(out_len).personal(&pers).hash(u).as_bytes().to_vec()
}

fn f4_g(i: u8, out_len: usize, u: &[u8]) -> Vec<u8> {
    let mut out = Vec::with_capacity(out_len + 64);
    let mut j: u32 = 0;
    while out.len() < out_len {
        let mut pers = *b"UA_F4Jumble_G\0\0\0";
        pers[13] = i;
        pers[14] = (j & 0xff) as u8;
        pers[15] = (j >> 8) as u8;
        out.extend_from_slice(blake2b_simd::Params::new().hash_length(64).personal(&pers).hash(u).as_bytes());
        j += 1;
    }
    out.truncate(out_len);
    out
}

fn xor_into(a: &mut [u8], b: &[u8]) {
    assert_eq!(a.len(), b.len());
    for (x, y) in a.iter_mut().zip(b) {
        *x ^= *y;
    }
}

/// ZIP 316 F4Jumble (reference). Caller guarantees a valid length.
fn ref_f4jumble(m: &[u8]) -> Vec<u8> {
    let l_l = std::cmp::min(64, m.len() / 2);
    let l_r = m.len() - l_l;
    let mut a = m[..l_l].to_vec();
    let mut b = m[l_l..].to_vec();
    xor_into(&mut b, &f4_g(0, l_r, &a)); // x = b ^ G0(a)
    xor_into(&mut a, &f4_h(0, l_l, &b)); // y = a ^ H0(x)
    xor_into(&mut b, &f4_g(1, l_r, &a)); // d = x ^ G1(y)
    xor_into(&mut a, &f4_h(1, l_l, &b)); // c = y ^ H1(d)
    a.extend_from_slice(&b);
    a
}

fn ref_f4jumble_inv(m: &[u8]) -> Vec<u8> {
    let l_l = std::cmp::min(64, m.len() / 2);
    let l_r = m.len() - l_l;
    let mut c = m[..l_l].to_vec();
    let mut d = m[l_l..].to_vec();
    xor_into(&mut c, &f4_h(1, l_l, &d)); // y = c ^ H1(d)
    xor_into(&mut d, &f4_g(1, l_r, &c)); // x = d ^ G1(y)
    xor_into(&mut c, &f4_h(0, l_l, &d)); // a = y ^ H0(x)
    xor_into(&mut d, &f4_g(0, l_r, &c)); // b = x ^ G0(a)
    c.extend_from_slice(&d);
    c
}

const B32_CHARSET: &[u8; 32] = b"qpzry9x8gf2tvdw0s3jn54khce6mua7l";
const B58_ALPHABET: &[u8; 58] = b"123456789ABCDEFGHJKLMNPQRSTUVWXYZabcdefghijkmnopqrstuvwxyz";

fn polymod_step(chk: u32, v: u8) -> u32 {
    const GEN: [u32; 5] = [0x3b6a_57b2, 0x2650_8e6d, 0x1ea1_19fa, 0x3d42_33dd, 0x2a14_62b3];
    let b = chk >> 25;
    let mut c = ((chk & 0x01ff_ffff) << 5) ^ (v as u32);
    for (i, g) in GEN.iter().enumerate() {
        if (b >> i) & 1 == 1 {
            c ^= g;
        }
    }
    c
}

fn polymod_hrp(hrp: &str) -> u32 {
    let mut chk = 1u32;
    for c in hrp.bytes() {
        chk = polymod_step(chk, c >> 5);
    }
    chk = polymod_step(chk, 0);
    for c in hrp.bytes() {
        chk = polymod_step(chk, c & 31);
    }
    chk
}

#[derive(Clone, Copy, Debug, PartialEq, Eq)]
enum B32Pad {
    /// BIP 173: pad with zero bits to a whole 5-bit group.
    Canonical,
    /// Non-zero bits in the padding of the final group (no effect if there is no padding).
    NonZero(u8),
    /// One superfluous trailing 5-bit group after the canonical data.
    ExtraFe(u8),
}

fn bytes_to_fes(data: &[u8], pad: B32Pad) -> Vec<u8> {
    let mut out = Vec::with_capacity(data.len() * 8 / 5 + 2);
    let mut acc: u32 = 0;
    let mut bits: u32 = 0;
    for &b in data {
        acc = ((acc << 8) | b as u32) & 0xffff;
        bits += 8;
        while bits >= 5 {
            bits -= 5;
            out.push(((acc >> bits) & 31) as u8);
        }
    }
    if bits > 0 {
        let padbits = 5 - bits;
        let mask = (1u32 << padbits) - 1;
        let fill = match pad {
            B32Pad::NonZero(v) => {
                let f = (v as u32) & mask;
                if f == 0 {
                    1
                } else {
                    f
                }
            }
            _ => 0,
        };
        out.push((((acc << padbits) & 31) | fill) as u8);
    }
    if let B32Pad::ExtraFe(v) = pad {
        out.push(v & 31);
    }
    out
}

/// Bech32 / Bech32m string from 5-bit groups (HRP must be lowercase ASCII 33..=126).
fn b32_encode_fes(hrp: &str, fes: &[u8], konst: u32) -> String {
    let mut chk = polymod_hrp(hrp);
    for f in fes {
        chk = polymod_step(chk, *f);
    }
    for _ in 0..6 {
        chk = polymod_step(chk, 0);
    }
    let pm = chk ^ konst;
    let mut s = String::with_capacity(hrp.len() + 1 + fes.len() + 6);
    s.push_str(hrp);
    s.push('1');
    for f in fes {
        s.push(B32_CHARSET[*f as usize] as char);
    }
    for i in 0..6 {
        s.push(B32_CHARSET[((pm >> (5 * (5 - i))) & 31) as usize] as char);
    }
    s
}

fn b32_encode(hrp: &str, data: &[u8], konst: u32) -> String {
    b32_encode_fes(hrp, &bytes_to_fes(data, B32Pad::Canonical), konst)
}

/// Structural Bech32 decode (no length limit): (lowercase hrp, data groups without the checksum,
/// checksum residue constant). `None` for mixed case / bad characters / too short.
fn b32_decode(s: &str) -> Option<(String, Vec<u8>, u32)> {
    if !s.is_ascii() {
        return None;
    }
    let has_upper = s.bytes().any(|c| c.is_ascii_uppercase());
    let has_lower = s.bytes().any(|c| c.is_ascii_lowercase());
    if has_upper && has_lower {
        return None;
    }
    let lower = s.to_ascii_lowercase();
    let pos = lower.rfind('1')?;
    if pos == 0 {
        return None;
    }
    let hrp = &lower[..pos];
    if !hrp.bytes().all(|c| (33..=126).contains(&c)) {
        return None;
    }
    let data = &lower.as_bytes()[pos + 1..];
    if data.len() < 6 {
        return None;
    }
    let mut fes = Vec::with_capacity(data.len());
    for c in data {
        fes.push(B32_CHARSET.iter().position(|x| x == c)? as u8);
    }
    let mut chk = polymod_hrp(hrp);
    for f in &fes {
        chk = polymod_step(chk, *f);
    }
    fes.truncate(fes.len() - 6);
    Some((hrp.to_string(), fes, chk))
}

fn sha256d4(b: &[u8]) -> [u8; 4] {
    let h = Sha256::digest(Sha256::digest(b));
    [h[0], h[1], h[2], h[3]]
}

fn b58check(prefix: &[u8], data: &[u8]) -> String {
    let mut v = prefix.to_vec();
    v.extend_from_slice(data);
    let c = sha256d4(&v);
    v.extend_from_slice(&c);
    bs58::encode(v).into_string()
}

// ---------------------------------------------------------------------------------------------
// Unified containers: reference layout, reference predicate
// ---------------------------------------------------------------------------------------------

#[derive(Clone, Copy, Debug, PartialEq, Eq, PartialOrd, Ord)]
enum CKind {
    Addr,
    Fvk,
    Ivk,
}

const CKINDS: [CKind; 3] = [CKind::Addr, CKind::Fvk, CKind::Ivk];

impl CKind {
    fn hrps(self) -> &'static [&'static str; 3] {
        match self {
            CKind::Addr => &HRP_UA,
            CKind::Fvk => &HRP_UFVK,
            CKind::Ivk => &HRP_UIVK,
        }
    }
    fn hrp(self, net: NetworkType) -> &'static str {
        self.hrps()[net_idx(net)]
    }
    fn net_of(self, hrp: &str) -> Option<NetworkType> {
        self.hrps().iter().position(|h| *h == hrp).map(|i| NETS[i])
    }
    /// ZIP 316 item lengths: Some(Some(n)) = known typecode with length n, Some(None) = typecode
    /// not allowed in this container kind, None = not a known typecode.
    fn known_len(self, tc: u64) -> Option<Option<usize>> {
        match (self, tc) {
            (CKind::Addr, 0) | (CKind::Addr, 1) => Some(Some(20)),
            (CKind::Addr, 2) | (CKind::Addr, 3) => Some(Some(43)),
            (CKind::Fvk, 0) | (CKind::Ivk, 0) => Some(Some(65)),
            (CKind::Fvk, 1) | (CKind::Ivk, 1) => Some(None),
            (CKind::Fvk, 2) => Some(Some(128)),
            (CKind::Fvk, 3) => Some(Some(96)),
            (CKind::Ivk, 2) | (CKind::Ivk, 3) => Some(Some(64)),
            _ => None,
        }
    }
    fn name(self) -> &'static str {
        match self {
            CKind::Addr => "address",
            CKind::Fvk => "ufvk",
            CKind::Ivk => "uivk",
        }
    }
}

fn hrp_padding(hrp: &str) -> [u8; 16] {
    let mut p = [0u8; 16];
    p[..hrp.len()].copy_from_slice(hrp.as_bytes());
    p
}

fn raw_item(tc: u32, data: &[u8]) -> Vec<u8> {
    let mut v = cs(tc as u64);
    v.extend_from_slice(&cs(data.len() as u64));
    v.extend_from_slice(data);
    v
}

fn raw_len(items: &[RItem]) -> usize {
    items.iter().map(|(t, d)| cs(*t as u64).len() + cs(d.len() as u64).len() + d.len()).sum::<usize>() + 16
}

/// Canonical ZIP 316 message (before jumbling).
fn ref_container_msg(hrp: &str, items: &[RItem]) -> Vec<u8> {
    let mut m = Vec::with_capacity(raw_len(items));
    for (t, d) in items {
        m.extend_from_slice(&raw_item(*t, d));
    }
    m.extend_from_slice(&hrp_padding(hrp));
    m
}

/// Canonical ZIP 316 string. Precondition: message length within the F4Jumble range.
fn ref_container_string(hrp: &str, items: &[RItem]) -> String {
    b32_encode(hrp, &ref_f4jumble(&ref_container_msg(hrp, items)), BECH32M_CONST)
}

/// ZIP 316 validity of the bytes carried by a Bech32m string with prefix `hrp`, for container kind
/// `kind`. Ok(items) or the set of violated rules (item-level problems stop at the first one, as the
/// remainder cannot be delimited).
fn ref_container_verdict(kind: CKind, hrp: &str, payload: &[u8]) -> Result<Vec<RItem>, BTreeSet<Rej>> {
    let one = |r: Rej| -> BTreeSet<Rej> { [r].into_iter().collect() };
    if !(F4_MIN..=F4_MAX).contains(&payload.len()) {
        return Err(one(Rej::Length));
    }
    let msg = ref_f4jumble_inv(payload);
    let (body, tail) = msg.split_at(msg.len() - 16);
    if hrp.len() > 16 || tail != hrp_padding(hrp) {
        return Err(one(Rej::Padding));
    }
    let mut items: Vec<RItem> = vec![];
    let mut pos = 0usize;
    while pos < body.len() {
        let tc = ref_cs_read(body, &mut pos).map_err(one)?;
        if tc > MAX_TYPECODE {
            return Err(one(Rej::TypecodeRange));
        }
        let len = ref_cs_read(body, &mut pos).map_err(one)?;
        if len > (body.len() - pos) as u64 {
            return Err(one(Rej::Truncated));
        }
        let data = &body[pos..pos + len as usize];
        pos += len as usize;
        match kind.known_len(tc) {
            Some(None) => return Err(one(Rej::P2shInViewingKey)),
            Some(Some(n)) if n != data.len() => return Err(one(Rej::KnownLen)),
            _ => {}
        }
        items.push((tc as u32, data.to_vec()));
    }
    let reasons = structural_reasons(&items.iter().map(|(t, _)| *t).collect::<Vec<_>>());
    if reasons.is_empty() {
        Ok(items)
    } else {
        Err(reasons)
    }
}

/// Composition rules of ZIP 316 on a list of typecodes (in encoded order).
fn structural_reasons(tcs: &[u32]) -> BTreeSet<Rej> {
    let mut r = BTreeSet::new();
    if tcs.windows(2).any(|w| w[1] < w[0]) {
        r.insert(Rej::Order);
    }
    let mut seen = BTreeSet::new();
    if tcs.iter().any(|t| !seen.insert(*t)) {
        r.insert(Rej::Duplicate);
    }
    if tcs.contains(&0) && tcs.contains(&1) {
        r.insert(Rej::BothTransparent);
    }
    if tcs.iter().all(|t| *t < 2) {
        r.insert(Rej::OnlyTransparent);
    }
    r
}

// ---------------------------------------------------------------------------------------------
// Bridge to the crate under test
// ---------------------------------------------------------------------------------------------

/// Everything a `ZcashAddress` can hold, in raw form.
#[derive(Clone, Debug, PartialEq, Eq)]
enum RawKind {
    Sprout([u8; 64]),
    Sapling([u8; 43]),
    P2pkh([u8; 20]),
    P2sh([u8; 20]),
    Tex([u8; 20]),
    Unified(Vec<RItem>),
}

impl RawKind {
    fn name(&self) -> &'static str {
        match self {
            RawKind::Sprout(_) => "sprout",
            RawKind::Sapling(_) => "sapling",
            RawKind::P2pkh(_) => "p2pkh",
            RawKind::P2sh(_) => "p2sh",
            RawKind::Tex(_) => "tex",
            RawKind::Unified(_) => "unified",
        }
    }
    /// Kinds whose testnet and regtest encodings coincide (protocol spec; documented on
    /// `NetworkType::Regtest` and `convert_if_network`).
    fn shares_test_regtest(&self) -> bool {
        matches!(self, RawKind::Sprout(_) | RawKind::P2pkh(_) | RawKind::P2sh(_))
    }
    fn is_bech32(&self) -> bool {
        matches!(self, RawKind::Sapling(_) | RawKind::Tex(_) | RawKind::Unified(_))
    }
}

impl TryFromAddress for RawKind {
    type Error = Infallible;
    fn try_from_sprout(_n: NetworkType, d: [u8; 64]) -> Result<Self, ConversionError<Infallible>> {
        Ok(RawKind::Sprout(d))
    }
    fn try_from_sapling(_n: NetworkType, d: [u8; 43]) -> Result<Self, ConversionError<Infallible>> {
        Ok(RawKind::Sapling(d))
    }
    fn try_from_unified(_n: NetworkType, d: unified::Address) -> Result<Self, ConversionError<Infallible>> {
        Ok(RawKind::Unified(items_raw(&d)))
    }
    fn try_from_transparent_p2pkh(_n: NetworkType, d: [u8; 20]) -> Result<Self, ConversionError<Infallible>> {
        Ok(RawKind::P2pkh(d))
    }
    fn try_from_transparent_p2sh(_n: NetworkType, d: [u8; 20]) -> Result<Self, ConversionError<Infallible>> {
        Ok(RawKind::P2sh(d))
    }
    fn try_from_tex(_n: NetworkType, d: [u8; 20]) -> Result<Self, ConversionError<Infallible>> {
        Ok(RawKind::Tex(d))
    }
}

/// A type that only understands Sapling: used to check the `Unsupported` default.
#[derive(Debug)]
struct OnlySapling;
impl TryFromAddress for OnlySapling {
    type Error = Infallible;
    fn try_from_sapling(_n: NetworkType, _d: [u8; 43]) -> Result<Self, ConversionError<Infallible>> {
        Ok(OnlySapling)
    }
}

trait Cont: Encoding + Clone + PartialEq + std::fmt::Debug + Sized {
    const KIND: CKind;
    /// Builds the crate's item for a raw item; None if a known typecode has the wrong length or is
    /// not representable in this container.
    fn mk(tc: u32, data: &[u8]) -> Option<Self::Item>;
    fn raw(item: &Self::Item) -> RItem;
}

impl Cont for unified::Address {
    const KIND: CKind = CKind::Addr;
    fn mk(tc: u32, data: &[u8]) -> Option<unified::Receiver> {
        use unified::Receiver as R;
        Some(match tc {
            0 => R::P2pkh(data.try_into().ok()?),
            1 => R::P2sh(data.try_into().ok()?),
            2 => R::Sapling(data.try_into().ok()?),
            3 => R::Orchard(data.try_into().ok()?),
            _ => R::Unknown { typecode: tc, data: data.to_vec() },
        })
    }
    fn raw(item: &unified::Receiver) -> RItem {
        use unified::Receiver as R;
        match item {
            R::P2pkh(d) => (0, d.to_vec()),
            R::P2sh(d) => (1, d.to_vec()),
            R::Sapling(d) => (2, d.to_vec()),
            R::Orchard(d) => (3, d.to_vec()),
            R::Unknown { typecode, data } => (*typecode, data.clone()),
        }
    }
}

impl Cont for unified::Ufvk {
    const KIND: CKind = CKind::Fvk;
    fn mk(tc: u32, data: &[u8]) -> Option<unified::Fvk> {
        use unified::Fvk as F;
        Some(match tc {
            0 => F::P2pkh(data.try_into().ok()?),
            1 => return None,
            2 => F::Sapling(data.try_into().ok()?),
            3 => F::Orchard(data.try_into().ok()?),
            _ => F::Unknown { typecode: tc, data: data.to_vec() },
        })
    }
    fn raw(item: &unified::Fvk) -> RItem {
        use unified::Fvk as F;
        match item {
            F::P2pkh(d) => (0, d.to_vec()),
            F::Sapling(d) => (2, d.to_vec()),
            F::Orchard(d) => (3, d.to_vec()),
            F::Unknown { typecode, data } => (*typecode, data.clone()),
        }
    }
}

impl Cont for unified::Uivk {
    const KIND: CKind = CKind::Ivk;
    fn mk(tc: u32, data: &[u8]) -> Option<unified::Ivk> {
        use unified::Ivk as I;
        Some(match tc {
            0 => I::P2pkh(data.try_into().ok()?),
            1 => return None,
            2 => I::Sapling(data.try_into().ok()?),
            3 => I::Orchard(data.try_into().ok()?),
            _ => I::Unknown { typecode: tc, data: data.to_vec() },
        })
    }
    fn raw(item: &unified::Ivk) -> RItem {
        use unified::Ivk as I;
        match item {
            I::P2pkh(d) => (0, d.to_vec()),
            I::Sapling(d) => (2, d.to_vec()),
            I::Orchard(d) => (3, d.to_vec()),
            I::Unknown { typecode, data } => (*typecode, data.clone()),
        }
    }
}

fn items_raw<C: Cont>(c: &C) -> Vec<RItem> {
    c.items_as_parsed().iter().map(C::raw).collect()
}

fn mk_items<C: Cont>(items: &[RItem]) -> Option<Vec<C::Item>> {
    items.iter().map(|(t, d)| C::mk(*t, d)).collect()
}

#[derive(Clone, Copy, Debug)]
enum AnyNet {
    Main,
    Test,
    Reg(LocalNetwork),
}

impl Parameters for AnyNet {
    fn network_type(&self) -> NetworkType {
        match self {
            AnyNet::Main => MAIN_NETWORK.network_type(),
            AnyNet::Test => TEST_NETWORK.network_type(),
            AnyNet::Reg(l) => l.network_type(),
        }
    }
    fn activation_height(&self, nu: NetworkUpgrade) -> Option<BlockHeight> {
        match self {
            AnyNet::Main => MAIN_NETWORK.activation_height(nu),
            AnyNet::Test => TEST_NETWORK.activation_height(nu),
            AnyNet::Reg(l) => l.activation_height(nu),
        }
    }
}

fn any_nets() -> [AnyNet; 3] {
    let h = Some(BlockHeight::from_u32(1));
    [
        AnyNet::Main,
        AnyNet::Test,
        AnyNet::Reg(LocalNetwork {
            overwinter: h,
            sapling: h,
            blossom: h,
            heartwood: h,
            canopy: h,
            nu5: h,
            nu6: h,
            nu6_1: h,
            nu6_2: h,
            nu6_3: h,
        }),
    ]
}

/// Specification encoding of an address (independent of the crate).
fn ref_encode_addr(net: NetworkType, k: &RawKind) -> String {
    let i = net_idx(net);
    match k {
        RawKind::Sprout(d) => b58check(&B58_SPROUT[i], d),
        RawKind::P2pkh(d) => b58check(&B58_P2PKH[i], d),
        RawKind::P2sh(d) => b58check(&B58_P2SH[i], d),
        RawKind::Sapling(d) => b32_encode(HRP_SAPLING[i], d, BECH32_CONST),
        RawKind::Tex(d) => b32_encode(HRP_TEX[i], d, BECH32M_CONST),
        RawKind::Unified(items) => ref_container_string(HRP_UA[i], items),
    }
}

/// Builds a `ZcashAddress` through the public constructors.
fn build_zaddr(net: NetworkType, k: &RawKind) -> Result<ZcashAddress, Fail> {
    Ok(match k {
        RawKind::Sprout(d) => ZcashAddress::from_sprout(net, *d),
        RawKind::Sapling(d) => ZcashAddress::from_sapling(net, *d),
        RawKind::P2pkh(d) => ZcashAddress::from_transparent_p2pkh(net, *d),
        RawKind::P2sh(d) => ZcashAddress::from_transparent_p2sh(net, *d),
        RawKind::Tex(d) => ZcashAddress::from_tex(net, *d),
        RawKind::Unified(items) => {
            let its = mk_items::<unified::Address>(items)
                .ok_or_else(|| Fail::new("harness-bug", format!("generator produced invalid items {}", show_items(items))))?;
            let ua = catch(|| unified::Address::try_from_items(its))
                .map_err(|p| Fail::new("try-from-items-panic", format!("try_from_items panicked on {}: {p}", show_items(items))))?
                .map_err(|e| Fail::new("try-from-items-rejects-valid", format!("try_from_items({}) = {e:?}", show_items(items))))?;
            ZcashAddress::from_unified(net, ua)
        }
    })
}

fn parse_z(s: &str) -> Result<Result<ZcashAddress, ParseError>, Fail> {
    catch(|| ZcashAddress::try_from_encoded(s))
        .map_err(|p| Fail::new("parse-panic", format!("ZcashAddress::try_from_encoded({:?}) panicked: {p}", short(s))))
}

fn split_z(z: &ZcashAddress) -> Result<(NetworkType, RawKind), Fail> {
    match catch(|| z.clone().convert::<(NetworkType, RawKind)>()) {
        Ok(Ok(v)) => Ok(v),
        Ok(Err(e)) => Err(Fail::new("convert-fails", format!("convert::<(NetworkType, RawKind)>() of {z:?} failed: {e}"))),
        Err(p) => Err(Fail::new("convert-panic", format!("convert of {z:?} panicked: {p}"))),
    }
}

/// Round trip + conversions for one `ZcashAddress` whose content (net, kind) is known.
fn check_zaddr(z: &ZcashAddress, net: NetworkType, kind: &RawKind, built_via_public_api: bool) -> CaseResult {
    let (n0, k0) = split_z(z)?;
    vensure_eq!(k0, *kind, "convert-data", "convert() returned other data than the address was built from");
    // ToAddress maps regtest to testnet for the shared encodings (documented on NetworkType::Regtest).
    let stored_net = if built_via_public_api && kind.shares_test_regtest() && net == NetworkType::Regtest { NetworkType::Test } else { net };
    vensure_eq!(n0, stored_net, "convert-net", "convert() network for {} built on {net:?}", kind.name());

    let s = catch(|| z.encode()).map_err(|p| Fail::new("encode-panic", format!("encode of {z:?} panicked: {p}")))?;
    vensure_eq!(s, z.to_string(), "encode-vs-display", "encode() and Display differ");
    let want = ref_encode_addr(net, kind);
    vensure_eq!(s, want, "encode-differs-from-spec", "{} on {net:?}: crate encoding differs from the specification encoding", kind.name());

    let parsed = parse_z(&s)?.map_err(|e| Fail::new("roundtrip-rejected", format!("own encoding {} of {} on {net:?} rejected: {e:?}", short(&s), kind.name())))?;
    vensure_eq!(s.parse::<ZcashAddress>().ok(), Some(parsed.clone()), "fromstr-vs-try-from-encoded", "FromStr and try_from_encoded differ");
    let parsed_net = if kind.shares_test_regtest() && net == NetworkType::Regtest { NetworkType::Test } else { net };
    let (n1, k1) = split_z(&parsed)?;
    vensure_eq!(k1, *kind, "roundtrip-data", "{} on {net:?}: parse(encode(a)) has other data; string {}", kind.name(), short(&s));
    vensure_eq!(n1, parsed_net, "roundtrip-net", "{} on {net:?}: parse(encode(a)) has the wrong network", kind.name());
    if parsed_net == n0 {
        vensure!(parsed == *z, "roundtrip-eq", "parse(encode(a)) != a for {z:?}");
    }
    vensure_eq!(parsed.encode(), s, "roundtrip-reencode", "encode(parse(encode(a))) differs");

    // convert_if_network: exactly the address's network, plus the documented test->regtest exception.
    for want_net in NETS {
        let r = catch(|| parsed.clone().convert_if_network::<(NetworkType, RawKind)>(want_net))
            .map_err(|p| Fail::new("convert-panic", format!("convert_if_network panicked: {p}")))?;
        let allowed = want_net == parsed_net
            || (kind.shares_test_regtest() && parsed_net == NetworkType::Test && want_net == NetworkType::Regtest);
        match r {
            Ok((n, k)) => {
                vensure!(allowed, "convert-if-network-accepts", "{} parsed as {parsed_net:?} converted for {want_net:?}", kind.name());
                vensure_eq!(k, *kind, "convert-if-network-data", "data changed");
                vensure!(n == want_net || n == parsed_net, "convert-if-network-net", "network handed to the target type is {n:?}, requested {want_net:?}, address {parsed_net:?}");
            }
            Err(ConversionError::IncorrectNetwork { expected, actual }) => {
                vensure!(!allowed, "convert-if-network-rejects", "{} parsed as {parsed_net:?} NOT converted for {want_net:?}", kind.name());
                vensure!(expected == want_net && actual == parsed_net, "convert-if-network-error", "IncorrectNetwork{{expected:{expected:?},actual:{actual:?}}} for address {parsed_net:?} requested {want_net:?}");
            }
            Err(e) => vfail!("convert-if-network-error", "unexpected error {e}"),
        }
    }
    // Unsupported kinds are reported as such (TryFromAddress defaults).
    match catch(|| parsed.clone().convert::<OnlySapling>()).map_err(|p| Fail::new("convert-panic", p))? {
        Ok(_) => vensure!(matches!(kind, RawKind::Sapling(_)), "convert-unsupported", "{} converted into a Sapling-only type", kind.name()),
        Err(ConversionError::Unsupported(_)) => vensure!(!matches!(kind, RawKind::Sapling(_)), "convert-unsupported", "Sapling reported unsupported"),
        Err(e) => vfail!("convert-unsupported", "unexpected error {e}"),
    }
    // The unified string is also what the container codec produces / accepts.
    let mut nontrivial = false;
    let mut has_unknown = false;
    if let RawKind::Unified(items) = kind {
        nontrivial = items.len() >= 2 || items.iter().any(|(t, _)| *t >= 4);
        has_unknown = items.iter().any(|(t, _)| *t >= 4);
        match catch(|| unified::Address::decode(&s)).map_err(|p| Fail::new("decode-panic", p))? {
            Ok((n, ua)) => {
                vensure_eq!(n, net, "container-decode-net", "unified::Address::decode network");
                vensure_eq!(items_raw(&ua), *items, "unknown-items-not-preserved", "unified::Address::decode items differ");
            }
            Err(e) => vfail!("roundtrip-rejected", "unified::Address::decode rejected {}: {e:?}", short(&s)),
        }
    }
    Ok(Obs::new(nontrivial)
        .key(hash64(s.as_bytes()))
        .label(kind.name())
        .label(match net {
            NetworkType::Main => "net:main",
            NetworkType::Test => "net:test",
            NetworkType::Regtest => "net:regtest",
        })
        .label_if(has_unknown, "unified-with-unknown")
        .label_if(parsed_net != net, "regtest-parsed-as-test"))
}

/// Round trip of a unified container built through `try_from_items` from valid sorted `items`.
fn check_container_roundtrip<C: Cont>(net: NetworkType, items: &[RItem], perm_seed: u64) -> CaseResult {
    let kind = C::KIND;
    let mut its = mk_items::<C>(items)
        .ok_or_else(|| Fail::new("harness-bug", format!("generator produced invalid {} items {}", kind.name(), show_items(items))))?;
    // try_from_items documents that it sorts: feed a permutation.
    if its.len() > 1 {
        let n = its.len();
        let mut st = perm_seed;
        for i in (1..n).rev() {
            st = st.wrapping_mul(6364136223846793005).wrapping_add(1442695040888963407);
            let j = ((st >> 33) as usize) % (i + 1);
            its.swap(i, j);
        }
    }
    let c = catch(|| C::try_from_items(its))
        .map_err(|p| Fail::new("try-from-items-panic", format!("{} try_from_items panicked: {p}", kind.name())))?
        .map_err(|e| Fail::new("try-from-items-rejects-valid", format!("{} try_from_items({}) = {e:?}", kind.name(), show_items(items))))?;
    vensure!(items_raw(&c) == items, "try-from-items-order", "{}: items_as_parsed after try_from_items = {} want {}", kind.name(), show_items(&items_raw(&c)), show_items(items));
    for (it, (t, d)) in c.items_as_parsed().iter().zip(items) {
        vensure!(it.typed_encoding() == raw_item(*t, d), "typed-encoding", "{}: typed_encoding of item {t:#x} = {} want {}", kind.name(), hx(&it.typed_encoding()), hx(&raw_item(*t, d)));
    }
    let hrp = kind.hrp(net);
    let s = catch(|| c.encode(&net)).map_err(|p| Fail::new("encode-panic", format!("{} encode of {} panicked: {p}", kind.name(), show_items(items))))?;
    let want = ref_container_string(hrp, items);
    vensure!(s == want, "encode-differs-from-spec", "{} {}: crate string {} != ZIP 316 string {}", kind.name(), show_items(items), short(&s), short(&want));
    match catch(|| C::decode(&s)).map_err(|p| Fail::new("decode-panic", format!("{} decode panicked: {p}", kind.name())))? {
        Ok((n, c2)) => {
            vensure_eq!(n, net, "roundtrip-net", "{} decode network", kind.name());
            vensure!(items_raw(&c2) == items, "unknown-items-not-preserved", "{}: decode(encode(c)) items {} want {}", kind.name(), show_items(&items_raw(&c2)), show_items(items));
            vensure!(c2 == c, "roundtrip-eq", "{}: decode(encode(c)) != c", kind.name());
            let s2 = catch(|| c2.encode(&net)).map_err(|p| Fail::new("encode-panic", p))?;
            vensure!(s2 == s, "roundtrip-reencode", "{}: re-encoding differs", kind.name());
            // items() is a permutation (preference order) from which the container can be rebuilt (rustdoc example).
            let pref = c2.items();
            let mut pr: Vec<RItem> = pref.iter().map(C::raw).collect();
            let rebuilt = catch(|| C::try_from_items(pref)).map_err(|p| Fail::new("try-from-items-panic", p))?;
            vensure!(rebuilt.as_ref().ok() == Some(&c), "items-rebuild", "{}: try_from_items(items()) != container", kind.name());
            pr.sort();
            let mut sorted = items.to_vec();
            sorted.sort();
            vensure!(pr == sorted, "items-permutation", "{}: items() is not a permutation of the parsed items", kind.name());
        }
        Err(e) => vfail!("roundtrip-rejected", "{} own encoding {} of {} rejected: {e:?}", kind.name(), short(&s), show_items(items)),
    }
    // The other container codecs must refuse the prefix; ZcashAddress accepts only addresses.
    macro_rules! other {
        ($t:ty) => {
            if <$t as Cont>::KIND != kind {
                match catch(|| <$t>::decode(&s)).map_err(|p| Fail::new("decode-panic", p))? {
                    Err(unified::ParseError::UnknownPrefix(h)) => vensure!(h == hrp, "error-variant-mismatch", "UnknownPrefix({h}) for {hrp}"),
                    Err(e) => vfail!("error-variant-mismatch", "{} string given to the {} codec: {e:?}", kind.name(), <$t as Cont>::KIND.name()),
                    Ok(_) => vfail!("accepts-invalid:unknown-hrp", "{} string accepted by the {} codec", kind.name(), <$t as Cont>::KIND.name()),
                }
            }
        };
    }
    other!(unified::Address);
    other!(unified::Ufvk);
    other!(unified::Uivk);
    match parse_z(&s)? {
        Ok(z) => {
            vensure!(kind == CKind::Addr, "accepts-invalid:unknown-hrp", "ZcashAddress accepted a {} string", kind.name());
            let (n, k) = split_z(&z)?;
            vensure!(n == net && k == RawKind::Unified(items.to_vec()), "roundtrip-data", "ZcashAddress parse of a unified address: {n:?} {k:?}");
        }
        Err(e) => {
            vensure!(kind != CKind::Addr, "roundtrip-rejected", "ZcashAddress rejected a valid unified address: {e:?}");
            vensure!(e == ParseError::NotZcash, "error-variant-mismatch", "viewing key string given to ZcashAddress: {e:?}");
        }
    }
    let unknown = items.iter().filter(|(t, _)| *t >= 4).count();
    Ok(Obs::new(items.len() >= 2 || unknown >= 1)
        .key(hash64(s.as_bytes()))
        .label(kind.name())
        .label_if(unknown > 0, "with-unknown")
        .label_if(unknown == items.len(), "unknown-only")
        .label_if(items.len() >= 4, "items>=4")
        .label_if(s.len() > 1023, "longer-than-bip173-limit")
        .label_if(items.iter().any(|(_, d)| d.len() >= 253), "item-len>=253")
        .label_if(items.iter().any(|(_, d)| d.len() >= 65536), "item-len>=65536")
        .label_if(items.iter().any(|(t, _)| *t >= 253), "typecode>=253")
        .label_if(items.iter().any(|(t, _)| *t >= 0x10000), "typecode>=65536")
        .label_if(items.iter().any(|(t, _)| *t as u64 == MAX_TYPECODE), "typecode=max"))
}

// ---------------------------------------------------------------------------------------------
// Generators: valid item sets
// ---------------------------------------------------------------------------------------------

#[derive(Clone, Debug)]
struct BaseSpec {
    kind: CKind,
    net: u8,
    /// 0 none, 1 P2PKH, 2 P2SH (P2PKH for viewing keys)
    transparent: u8,
    sapling: bool,
    orchard: bool,
    /// (typecode, data length, data seed)
    unknown: Vec<(u32, u32, u64)>,
    seed: u64,
    /// Some(t): stretch/shrink one unknown item so that the raw message is exactly `t` bytes.
    exact_total: Option<u32>,
}

impl BaseSpec {
    /// Same spec, restricted to message lengths inside the F4Jumble range.
    fn valid_len(mut self) -> Self {
        if let Some(t) = self.exact_total {
            self.exact_total = Some(t.max(F4_MIN as u32));
        }
        self
    }
    fn net(&self) -> NetworkType {
        NETS[self.net as usize % 3]
    }
    /// Valid, sorted item list for `self.kind` whose message length is inside the F4Jumble range
    /// (unless `exact_total` asks for something else).
    fn items(&self) -> Vec<RItem> {
        let k = self.kind;
        let mut m: BTreeMap<u32, Vec<u8>> = BTreeMap::new();
        let klen = |tc: u64| k.known_len(tc).flatten().unwrap();
        match (self.transparent % 3, k) {
            (0, _) => {}
            (2, CKind::Addr) => {
                m.insert(1, expand(self.seed ^ 0x11, 20));
            }
            _ => {
                m.insert(0, expand(self.seed ^ 0x10, klen(0)));
            }
        }
        if self.sapling {
            m.insert(2, expand(self.seed ^ 0x12, klen(2)));
        }
        if self.orchard {
            m.insert(3, expand(self.seed ^ 0x13, klen(3)));
        }
        for (tc, len, seed) in &self.unknown {
            let tc = (*tc).clamp(4, MAX_TYPECODE as u32);
            m.entry(tc).or_insert_with(|| expand(*seed, *len as usize));
        }
        if !m.keys().any(|t| *t >= 2) {
            m.insert(2, expand(self.seed ^ 0x12, klen(2)));
        }
        let mut items: Vec<RItem> = m.into_iter().collect();
        let target = self.exact_total.map(|t| t as usize);
        let total = raw_len(&items);
        let want = match target {
            Some(t) => Some(t),
            None if total < F4_MIN => Some(F4_MIN),
            None => None,
        };
        if let Some(want) = want {
            // adjust (or add) an unknown item; keep CompactSize widths in mind by iterating
            if !items.iter().any(|(t, _)| *t >= 4) {
                items.push((0xfffa, vec![]));
            }
            let idx = items.iter().rposition(|(t, _)| *t >= 4).unwrap();
            for _ in 0..4 {
                let total = raw_len(&items);
                if total == want {
                    break;
                }
                let cur = items[idx].1.len();
                let new = if total < want { cur + (want - total) } else { cur.saturating_sub(total - want) };
                items[idx].1 = expand(self.seed ^ 0x99, new);
            }
        }
        items
    }
}

fn arb_unknown_typecode() -> impl Strategy<Value = u32> {
    prop_oneof![
        4 => select(vec![4u32, 5, 0x7f, 0xdf, 0xe0, 0xfc, 0xfd, 0xfe, 0xff, 0x100, 0xfff9, 0xfffa, 0xffff, 0x1_0000, 0x1_0001, 0x01ff_ffff, 0x0200_0000]),
        3 => 4u32..0x100,
        2 => 0x100u32..0x1_0000,
        1 => 0x1_0000u32..=0x0200_0000,
    ]
}

fn arb_unknown_len(big_weight: u32) -> impl Strategy<Value = u32> {
    prop_oneof![
        60 => 0u32..80,
        30 => select(vec![0u32, 1, 20, 30, 31, 32, 33, 43, 64, 65, 96, 128, 252, 253, 254, 255, 256]),
        20 => 80u32..600,
        big_weight => select(vec![65_534u32, 65_535, 65_536, 65_537, 70_000]),
    ]
}

fn arb_seed() -> impl Strategy<Value = u64> {
    prop_oneof![8 => any::<u64>(), 1 => Just(0u64), 1 => Just(1u64)]
}

fn arb_base(kind: impl Strategy<Value = CKind>, big_weight: u32) -> impl Strategy<Value = BaseSpec> {
    (
        kind,
        0u8..3,
        prop_oneof![2 => Just(0u8), 2 => Just(1u8), 1 => Just(2u8)],
        any::<bool>(),
        any::<bool>(),
        pvec((arb_unknown_typecode(), arb_unknown_len(big_weight), arb_seed()), 0..4),
        arb_seed(),
        prop_oneof![12 => Just(None), 2 => (40u32..52).prop_map(Some), 1 => select(vec![Some(48u32), Some(49), Some(63), Some(64), Some(65), Some(127), Some(128), Some(129), Some(300)])],
    )
        .prop_map(|(kind, net, transparent, sapling, orchard, unknown, seed, exact_total)| BaseSpec {
            kind,
            net,
            transparent,
            sapling,
            orchard,
            unknown,
            seed,
            exact_total,
        })
}

fn arb_ckind() -> impl Strategy<Value = CKind> {
    prop_oneof![2 => Just(CKind::Addr), 1 => Just(CKind::Fvk), 1 => Just(CKind::Ivk)]
}

// ---------------------------------------------------------------------------------------------
// Acceptance = ZIP 316 predicate: arbitrary (mostly single-defect) containers
// ---------------------------------------------------------------------------------------------

/// HRPs used for "foreign prefix" defects. Sapling/TEX prefixes are deliberately absent (those
/// strings could be valid addresses of another kind; the simple-kinds sub-check covers them).
const FOREIGN_HRPS: [&str; 8] = ["uinvalid", "ua", "v", "zz", "uviewmain", "utes", "utestt", "bc"];

#[derive(Clone, Debug)]
enum Defect {
    None,
    Swap(u32, u32),
    Reverse,
    DupAdjacent(u32, bool),
    DupAtEnd(u32),
    BothTransparent,
    OnlyTransparent,
    WrongLen(u32, i8),
    InsertP2sh,
    PadOtherHrp(u32),
    PadShort(u8),
    PadLong(u8, bool),
    PadXor(u8, u8),
    StrHrp(u32),
    BothHrp(u32),
    Variant(u32),
    TcWide(u32, u8),
    LenWide(u32, u8),
    TcHuge(u32),
    LenLie(u32, i32),
    Truncate(u8),
    Junk(Vec<u8>),
    NoJumble,
    PostFlip(u32, u8),
    B32NonZeroPad(u8),
    B32ExtraFe(u8),
    DropAll,
}

impl Defect {
    fn label(&self) -> &'static str {
        match self {
            Defect::None => "gen:none",
            Defect::Swap(..) => "gen:swap",
            Defect::Reverse => "gen:reverse",
            Defect::DupAdjacent(..) => "gen:dup-adjacent",
            Defect::DupAtEnd(..) => "gen:dup-at-end",
            Defect::BothTransparent => "gen:both-transparent",
            Defect::OnlyTransparent => "gen:only-transparent",
            Defect::WrongLen(..) => "gen:wrong-known-len",
            Defect::InsertP2sh => "gen:insert-p2sh",
            Defect::PadOtherHrp(..) => "gen:pad-other-hrp",
            Defect::PadShort(..) => "gen:pad-short",
            Defect::PadLong(..) => "gen:pad-long",
            Defect::PadXor(..) => "gen:pad-xor",
            Defect::StrHrp(..) => "gen:string-hrp",
            Defect::BothHrp(..) => "gen:both-hrp",
            Defect::Variant(..) => "gen:checksum-variant",
            Defect::TcWide(..) => "gen:typecode-non-minimal",
            Defect::LenWide(..) => "gen:length-non-minimal",
            Defect::TcHuge(..) => "gen:typecode-huge",
            Defect::LenLie(..) => "gen:length-lie",
            Defect::Truncate(..) => "gen:truncate",
            Defect::Junk(..) => "gen:junk",
            Defect::NoJumble => "gen:no-jumble",
            Defect::PostFlip(..) => "gen:post-flip",
            Defect::B32NonZeroPad(..) => "gen:b32-nonzero-pad",
            Defect::B32ExtraFe(..) => "gen:b32-extra-group",
            Defect::DropAll => "gen:no-items",
        }
    }
}

fn arb_defect() -> impl Strategy<Value = Defect> {
    let s = || any::<u32>();
    prop_oneof![
        12 => Just(Defect::None),
        2 => (s(), s()).prop_map(|(a, b)| Defect::Swap(a, b)),
        1 => Just(Defect::Reverse),
        2 => (s(), any::<bool>()).prop_map(|(a, b)| Defect::DupAdjacent(a, b)),
        1 => s().prop_map(Defect::DupAtEnd),
        2 => Just(Defect::BothTransparent),
        2 => Just(Defect::OnlyTransparent),
        2 => (s(), prop_oneof![Just(-1i8), Just(1i8), -20i8..20]).prop_map(|(a, d)| Defect::WrongLen(a, if d == 0 { 1 } else { d })),
        2 => Just(Defect::InsertP2sh),
        2 => s().prop_map(Defect::PadOtherHrp),
        2 => (1u8..4).prop_map(Defect::PadShort),
        1 => (1u8..3, any::<bool>()).prop_map(|(n, f)| Defect::PadLong(n, f)),
        3 => (0u8..16, 1u8..=255).prop_map(|(i, x)| Defect::PadXor(i, x)),
        2 => s().prop_map(Defect::StrHrp),
        2 => s().prop_map(Defect::BothHrp),
        2 => s().prop_map(Defect::Variant),
        2 => (s(), select(vec![3u8, 5, 9])).prop_map(|(a, w)| Defect::TcWide(a, w)),
        2 => (s(), select(vec![3u8, 5, 9])).prop_map(|(a, w)| Defect::LenWide(a, w)),
        1 => s().prop_map(Defect::TcHuge),
        2 => (s(), prop_oneof![Just(1i32), Just(-1i32), Just(1000i32), Just(i32::MAX), -40i32..40]).prop_map(|(a, d)| Defect::LenLie(a, if d == 0 { 1 } else { d })),
        1 => (1u8..6).prop_map(Defect::Truncate),
        1 => pvec(any::<u8>(), 1..4).prop_map(Defect::Junk),
        1 => Just(Defect::NoJumble),
        1 => (s(), 0u8..8).prop_map(|(a, b)| Defect::PostFlip(a, b)),
        2 => (1u8..16).prop_map(Defect::B32NonZeroPad),
        2 => (0u8..32).prop_map(Defect::B32ExtraFe),
        1 => Just(Defect::DropAll),
    ]
}

#[derive(Clone, Debug)]
struct EncItem {
    tc: u64,
    tc_width: u8,
    len_field: u64,
    len_width: u8,
    data: Vec<u8>,
}

/// The concrete string under test plus what the reference needs to judge it.
struct Built {
    s: String,
    str_hrp: String,
    konst: u32,
    /// The bytes a BIP 173 decoder obtains from the data part (canonical view).
    payload: Vec<u8>,
    b32_noncanonical: bool,
}

fn all_known_hrps() -> Vec<&'static str> {
    HRP_UA.iter().chain(HRP_UFVK.iter()).chain(HRP_UIVK.iter()).copied().collect()
}

fn build_case(base: &BaseSpec, defect: &Defect) -> Built {
    let kind = base.kind;
    let hrp0 = kind.hrp(base.net());
    let items = base.items();
    let mut enc: Vec<EncItem> = items
        .iter()
        .map(|(t, d)| EncItem { tc: *t as u64, tc_width: 0, len_field: d.len() as u64, len_width: 0, data: d.clone() })
        .collect();
    let mut str_hrp = hrp0.to_string();
    let mut pad: Vec<u8> = hrp_padding(hrp0).to_vec();
    let mut konst = BECH32M_CONST;
    let mut junk: Vec<u8> = vec![];
    let mut truncate = 0usize;
    let mut jumble = true;
    let mut post_flip: Option<(u32, u8)> = None;
    let mut b32pad = B32Pad::Canonical;
    let known = all_known_hrps();
    let mk = |tc: u64, data: Vec<u8>| EncItem { tc, tc_width: 0, len_field: data.len() as u64, len_width: 0, data };
    let n = enc.len();
    match defect {
        Defect::None => {}
        Defect::Swap(a, b) => {
            let (i, j) = (pick_index(*a, n), pick_index(*b, n));
            enc.swap(i, j);
        }
        Defect::Reverse => enc.reverse(),
        Defect::DupAdjacent(a, fresh) => {
            let i = pick_index(*a, n);
            let mut c = enc[i].clone();
            if *fresh {
                c.data = expand(base.seed ^ 0x77, c.data.len());
            }
            enc.insert(i + 1, c);
        }
        Defect::DupAtEnd(a) => {
            let c = enc[pick_index(*a, n)].clone();
            enc.push(c);
        }
        Defect::BothTransparent => {
            enc.retain(|e| e.tc >= 2);
            let l0 = kind.known_len(0).flatten().unwrap();
            enc.insert(0, mk(0, expand(base.seed ^ 0x10, l0)));
            enc.insert(1, mk(1, expand(base.seed ^ 0x11, 20)));
        }
        Defect::OnlyTransparent => {
            enc.retain(|e| e.tc < 2);
            if enc.is_empty() {
                let l0 = kind.known_len(0).flatten().unwrap();
                enc.push(mk(0, expand(base.seed ^ 0x10, l0)));
            }
        }
        Defect::WrongLen(a, d) => {
            let idxs: Vec<usize> = enc.iter().enumerate().filter(|(_, e)| e.tc < 4).map(|(i, _)| i).collect();
            if !idxs.is_empty() {
                let i = idxs[pick_index(*a, idxs.len())];
                let new = (enc[i].data.len() as i64 + *d as i64).max(0) as usize;
                enc[i].data = expand(base.seed ^ 0x55, new);
                enc[i].len_field = new as u64;
            }
        }
        Defect::InsertP2sh => {
            if !enc.iter().any(|e| e.tc == 1) {
                let pos = enc.iter().position(|e| e.tc > 1).unwrap_or(enc.len());
                enc.insert(pos, mk(1, expand(base.seed ^ 0x11, 20)));
            }
        }
        Defect::PadOtherHrp(a) => pad = hrp_padding(known[pick_index(*a, known.len())]).to_vec(),
        Defect::PadShort(k) => pad.truncate(16 - *k as usize),
        Defect::PadLong(k, front) => {
            for _ in 0..*k {
                if *front {
                    pad.insert(0, 0);
                } else {
                    pad.push(0);
                }
            }
        }
        Defect::PadXor(i, x) => pad[*i as usize] ^= *x,
        Defect::StrHrp(a) => {
            let all: Vec<&str> = known.iter().copied().chain(FOREIGN_HRPS.iter().copied()).collect();
            str_hrp = all[pick_index(*a, all.len())].to_string();
        }
        Defect::BothHrp(a) => {
            let all: Vec<&str> = known.iter().copied().chain(FOREIGN_HRPS.iter().copied()).collect();
            str_hrp = all[pick_index(*a, all.len())].to_string();
            pad = hrp_padding(&str_hrp).to_vec();
        }
        Defect::Variant(a) => {
            konst = match pick_index(*a, 4) {
                0 | 1 => BECH32_CONST,
                2 => 0,
                _ => BECH32M_CONST ^ 1,
            }
        }
        Defect::TcWide(a, w) => enc[pick_index(*a, n)].tc_width = *w,
        Defect::LenWide(a, w) => enc[pick_index(*a, n)].len_width = *w,
        Defect::TcHuge(a) => {
            let vals = [MAX_TYPECODE + 1, 0x0300_0000, 0xffff_ffff, 0x1_0000_0000, u64::MAX];
            enc.last_mut().unwrap().tc = vals[pick_index(*a, vals.len())];
        }
        Defect::LenLie(a, d) => {
            let i = pick_index(*a, n);
            enc[i].len_field = (enc[i].len_field as i64 + *d as i64).max(0) as u64;
        }
        Defect::Truncate(k) => truncate = *k as usize,
        Defect::Junk(j) => junk = j.clone(),
        Defect::NoJumble => jumble = false,
        Defect::PostFlip(a, b) => post_flip = Some((*a, *b)),
        Defect::B32NonZeroPad(v) => b32pad = B32Pad::NonZero(*v),
        Defect::B32ExtraFe(v) => b32pad = B32Pad::ExtraFe(*v),
        Defect::DropAll => enc.clear(),
    }
    let mut msg: Vec<u8> = vec![];
    for e in &enc {
        msg.extend_from_slice(&cs_width(e.tc, e.tc_width));
        msg.extend_from_slice(&cs_width(e.len_field, e.len_width));
        msg.extend_from_slice(&e.data);
    }
    msg.truncate(msg.len().saturating_sub(truncate));
    msg.extend_from_slice(&junk);
    msg.extend_from_slice(&pad);
    let mut payload = if jumble && (F4_MIN..=F4_MAX).contains(&msg.len()) { ref_f4jumble(&msg) } else { msg };
    if let Some((a, b)) = post_flip {
        if !payload.is_empty() {
            let i = pick_index(a, payload.len());
            payload[i] ^= 1 << b;
        }
    }
    let fes = bytes_to_fes(&payload, b32pad);
    // judge what the string carries, not what the generator intended
    let (payload, canonical) = fes_to_bytes_checked(&fes);
    let s = b32_encode_fes(&str_hrp, &fes, konst);
    Built { s, str_hrp, konst, payload, b32_noncanonical: !canonical }
}

/// Reference verdict for decoding `b` as container kind `kind`.
fn ref_string_verdict(kind: CKind, b: &Built) -> Result<Vec<RItem>, BTreeSet<Rej>> {
    if b.konst != BECH32M_CONST {
        return Err([Rej::Variant].into_iter().collect());
    }
    if kind.net_of(&b.str_hrp).is_none() {
        return Err([Rej::UnknownHrp].into_iter().collect());
    }
    let content = ref_container_verdict(kind, &b.str_hrp, &b.payload);
    if b.b32_noncanonical {
        let mut r = content.err().unwrap_or_default();
        r.insert(Rej::B32Padding);
        return Err(r);
    }
    content
}

fn unified_error_allowed(e: &unified::ParseError, reasons: &BTreeSet<Rej>, str_hrp: &str, s_len: usize, tcs_dup: &dyn Fn(u32) -> bool) -> bool {
    use unified::ParseError as E;
    reasons.iter().any(|r| match (r, e) {
        (Rej::Variant, E::NotUnified) => true,
        // longer than any Bech32m string ZIP 316 defines
        (Rej::Length, E::NotUnified) => s_len > F4_MAX,
        (Rej::UnknownHrp, E::UnknownPrefix(h)) => h == str_hrp,
        (Rej::B32Padding, E::InvalidEncoding(_)) | (Rej::B32Padding, E::NotUnified) => true,
        (Rej::Length | Rej::Padding | Rej::CsNonCanonical | Rej::Truncated | Rej::KnownLen | Rej::P2shInViewingKey | Rej::TypecodeRange, E::InvalidEncoding(_)) => true,
        (Rej::TypecodeRange, E::InvalidTypecodeValue(_)) => true,
        (Rej::Order, E::InvalidTypecodeOrder) => true,
        (Rej::Duplicate, E::DuplicateTypecode(t)) => tcs_dup(u32::from(*t)),
        (Rej::BothTransparent, E::BothP2phkAndP2sh) => true,
        (Rej::OnlyTransparent, E::OnlyTransparent) => true,
        _ => false,
    })
}

fn first_content_reason(reasons: &BTreeSet<Rej>) -> Rej {
    *reasons.iter().find(|r| **r != Rej::B32Padding).unwrap_or(&Rej::B32Padding)
}

/// Outcome summary of one decoder on one string.
struct AcceptObs {
    accepted: bool,
    reasons: BTreeSet<Rej>,
    items: usize,
    unknown: usize,
}

fn check_accept<C: Cont>(b: &Built) -> Result<AcceptObs, Fail> {
    let kind = C::KIND;
    let exp = ref_string_verdict(kind, b);
    let got = catch(|| C::decode(&b.s)).map_err(|p| Fail::new("decode-panic", format!("{} decode({}) panicked: {p}", kind.name(), short(&b.s))))?;
    match (got, exp) {
        (Ok((net, c)), Ok(items)) => {
            vensure!(Some(net) == kind.net_of(&b.str_hrp), "decode-net", "{}: decode network {net:?} for prefix {}", kind.name(), b.str_hrp);
            vensure!(items_raw(&c) == items, "parsed-items-differ", "{}: parsed {} but the string carries {}", kind.name(), show_items(&items_raw(&c)), show_items(&items));
            let re = catch(|| c.encode(&net)).map_err(|p| Fail::new("encode-panic", format!("{} re-encode panicked: {p}", kind.name())))?;
            vensure!(re == b.s, "reencode-not-canonical", "{}: accepted {} re-encodes to {}", kind.name(), short(&b.s), short(&re));
            let unknown = items.iter().filter(|(t, _)| *t >= 4).count();
            Ok(AcceptObs { accepted: true, reasons: BTreeSet::new(), items: items.len(), unknown })
        }
        (Ok((_, c)), Err(reasons)) => {
            let r = first_content_reason(&reasons);
            Err(Fail::new(
                format!("accepts-invalid:{}", r.name()),
                format!("{} codec accepted {} as {} although ZIP 316 forbids it: {:?}", kind.name(), short(&b.s), show_items(&items_raw(&c)), reasons.iter().map(|r| r.name()).collect::<Vec<_>>()),
            ))
        }
        (Err(e), Ok(items)) => Err(Fail::new(
            if b.s.len() > F4_MAX { "rejects-valid:string-longer-than-code-length" } else { "rejects-valid-container" },
            format!("{} codec rejected the valid ZIP 316 string {} carrying {}: {e:?}", kind.name(), short(&b.s), show_items(&items)),
        )),
        (Err(e), Err(reasons)) => {
            // duplicated typecodes, if the items are delimitable
            let tcs: Vec<u32> = match ref_container_tcs(kind, &b.str_hrp, &b.payload) {
                Some(t) => t,
                None => vec![],
            };
            let dup = |t: u32| tcs.iter().filter(|x| **x == t).count() >= 2;
            vensure!(
                unified_error_allowed(&e, &reasons, &b.str_hrp, b.s.len(), &dup),
                "error-variant-mismatch",
                "{} codec rejected {} with {e:?} but the violated rules are {:?}",
                kind.name(),
                short(&b.s),
                reasons.iter().map(|r| r.name()).collect::<Vec<_>>()
            );
            Ok(AcceptObs { accepted: false, reasons, items: 0, unknown: 0 })
        }
    }
}

/// Typecodes of a delimitable payload (ignores composition rules); None if not delimitable.
fn ref_container_tcs(kind: CKind, hrp: &str, payload: &[u8]) -> Option<Vec<u32>> {
    match ref_container_verdict(kind, hrp, payload) {
        Ok(items) => Some(items.iter().map(|(t, _)| *t).collect()),
        Err(r) if r.iter().all(|x| matches!(x, Rej::Order | Rej::Duplicate | Rej::BothTransparent | Rej::OnlyTransparent)) => {
            // re-walk without composition rules
            let msg = ref_f4jumble_inv(payload);
            let body = &msg[..msg.len() - 16];
            let mut pos = 0;
            let mut out = vec![];
            while pos < body.len() {
                let tc = ref_cs_read(body, &mut pos).ok()?;
                let len = ref_cs_read(body, &mut pos).ok()? as usize;
                pos += len;
                out.push(tc as u32);
            }
            Some(out)
        }
        Err(_) => None,
    }
}

fn check_acceptance_case(base: &BaseSpec, defect: &Defect) -> CaseResult {
    let b = build_case(base, defect);
    let a = check_accept::<unified::Address>(&b)?;
    let f = check_accept::<unified::Ufvk>(&b)?;
    let i = check_accept::<unified::Uivk>(&b)?;
    // ZcashAddress on the same string
    let zr = parse_z(&b.s)?;
    let ua_prefix = b.konst == BECH32M_CONST && CKind::Addr.net_of(&b.str_hrp).is_some();
    match zr {
        Ok(z) => {
            vensure!(a.accepted, "accepts-invalid:zcashaddress", "ZcashAddress accepted {} which is not a valid unified address", short(&b.s));
            let (n, k) = split_z(&z)?;
            let items = ref_string_verdict(CKind::Addr, &b).unwrap();
            vensure!(Some(n) == CKind::Addr.net_of(&b.str_hrp) && k == RawKind::Unified(items), "parsed-items-differ", "ZcashAddress parsed {n:?} {k:?}");
            vensure!(z.encode() == b.s, "reencode-not-canonical", "ZcashAddress re-encodes {} as {}", short(&b.s), short(&z.encode()));
        }
        Err(e) => {
            vensure!(!a.accepted, "rejects-valid-container", "ZcashAddress rejected {} ({e:?}) which unified::Address::decode accepts", short(&b.s));
            if ua_prefix {
                // "If the parser can detect that the string must contain an address encoding used by Zcash,
                // InvalidEncoding [or a Unified error] will be returned".
                vensure!(e != ParseError::NotZcash, "error-variant-mismatch", "broken unified address {} reported as NotZcash", short(&b.s));
            } else {
                vensure!(e == ParseError::NotZcash, "error-variant-mismatch", "string {} with foreign prefix/checksum reported as {e:?}", short(&b.s));
            }
        }
    }
    // try_from_items enforces the composition rules on the same typecode list (documented on the fn).
    let own = match base.kind {
        CKind::Addr => &a,
        CKind::Fvk => &f,
        CKind::Ivk => &i,
    };
    let any_accept = a.accepted || f.accepted || i.accepted;
    let (items, unknown) = [&a, &f, &i].iter().find(|o| o.accepted).map(|o| (o.items, o.unknown)).unwrap_or((0, 0));
    let mut obs = Obs::new(if any_accept { items >= 2 || unknown >= 1 } else { true })
        .key(hash64(b.s.as_bytes()))
        .label(defect.label())
        .label(if any_accept { "accepted" } else { "rejected" })
        .label_if(a.accepted, "accepted:address")
        .label_if(f.accepted, "accepted:ufvk")
        .label_if(i.accepted, "accepted:uivk")
        .label_if(any_accept && unknown > 0, "accepted-with-unknown")
        .label_if(any_accept && unknown == items, "accepted-unknown-only");
    for r in &own.reasons {
        obs = obs.label(r.label());
    }
    Ok(obs)
}

/// `try_from_items` must enforce exactly the composition rules (it sorts, so order is irrelevant).
fn check_try_from_items<C: Cont>(items: &[RItem]) -> CaseResult {
    let kind = C::KIND;
    let Some(its) = mk_items::<C>(items) else {
        return Ok(Obs::trivial().label("not-representable"));
    };
    let mut reasons = structural_reasons(&items.iter().map(|(t, _)| *t).collect::<Vec<_>>());
    reasons.remove(&Rej::Order);
    let got = catch(|| C::try_from_items(its)).map_err(|p| Fail::new("try-from-items-panic", format!("{} try_from_items({}) panicked: {p}", kind.name(), show_items(items))))?;
    match got {
        Ok(c) => {
            vensure!(reasons.is_empty(), format!("try-from-items-accepts:{}", reasons.iter().next().unwrap().name()), "{} try_from_items({}) accepted although {:?}", kind.name(), show_items(items), reasons);
            let mut sorted = items.to_vec();
            sorted.sort_by_key(|(t, _)| *t);
            vensure!(items_raw(&c) == sorted, "try-from-items-order", "{}: not in ascending typecode order", kind.name());
        }
        Err(e) => {
            vensure!(!reasons.is_empty(), "try-from-items-rejects-valid", "{} try_from_items({}) = {e:?}", kind.name(), show_items(items));
            let dup = |t: u32| items.iter().filter(|(x, _)| *x == t).count() >= 2;
            vensure!(unified_error_allowed(&e, &reasons, "", 0, &dup), "error-variant-mismatch", "{} try_from_items({}) = {e:?}, violated {:?}", kind.name(), show_items(items), reasons);
        }
    }
    let mut obs = Obs::new(true).label(kind.name()).label(if reasons.is_empty() { "accepted" } else { "rejected" });
    for r in &reasons {
        obs = obs.label(r.label());
    }
    Ok(obs)
}

#[derive(Clone, Debug)]
enum ComposeOp {
    Keep,
    Shuffle(u64),
    Dup(u32),
    BothTransparent,
    OnlyTransparent,
    Empty,
}

fn compose_items(base: &BaseSpec, op: &ComposeOp) -> Vec<RItem> {
    let mut items = base.items();
    let l0 = base.kind.known_len(0).flatten().unwrap();
    match op {
        ComposeOp::Keep => {}
        ComposeOp::Shuffle(seed) => {
            let mut st = *seed;
            for i in (1..items.len()).rev() {
                st = st.wrapping_mul(6364136223846793005).wrapping_add(1442695040888963407);
                items.swap(i, ((st >> 33) as usize) % (i + 1));
            }
        }
        ComposeOp::Dup(a) => {
            let mut c = items[pick_index(*a, items.len())].clone();
            c.1 = expand(base.seed ^ 0x77, c.1.len());
            items.push(c);
        }
        ComposeOp::BothTransparent => {
            items.retain(|(t, _)| *t >= 2);
            items.push((0, expand(3, l0)));
            items.push((1, expand(4, 20)));
        }
        ComposeOp::OnlyTransparent => {
            items.retain(|(t, _)| *t < 2);
            if items.is_empty() {
                items.push((0, expand(3, l0)));
            }
        }
        ComposeOp::Empty => items.clear(),
    }
    items
}

// ---------------------------------------------------------------------------------------------
// Non-unified kinds: acceptance = specification predicate
// ---------------------------------------------------------------------------------------------

#[derive(Clone, Debug)]
enum SimpleCase {
    B32 { hrp: String, konst_sel: u8, len: u32, seed: u64, pad: u8, pad_val: u8 },
    B58 { prefix: Vec<u8>, len: u32, seed: u64, bad_checksum: bool },
}

fn arb_simple() -> impl Strategy<Value = SimpleCase> {
    let hrps: Vec<String> = HRP_SAPLING
        .iter()
        .chain(HRP_TEX.iter())
        .chain(["zs1", "zt", "zc", "t", "te", "texx", "ztestsaplin", "zxviews", "secret-extended-key-main", "bc", "tb"].iter())
        .map(|s| s.to_string())
        .collect();
    let prefixes: Vec<Vec<u8>> = B58_P2PKH
        .iter()
        .chain(B58_P2SH.iter())
        .chain(B58_SPROUT.iter())
        .map(|p| p.to_vec())
        .chain([vec![0x1c, 0xb9], vec![0x1c], vec![], vec![0x00, 0x00], vec![0x80, 0x01], vec![0x16, 0x9b], vec![0x1d, 0x26]])
        .collect();
    // template = a valid (prefix, checksum, length) triple; then at most one dimension is perturbed
    let b32_templates: Vec<(String, u8, u32)> = HRP_SAPLING.iter().map(|h| (h.to_string(), 0u8, 43u32)).chain(HRP_TEX.iter().map(|h| (h.to_string(), 1u8, 20u32))).collect();
    let b58_templates: Vec<(Vec<u8>, u32)> = B58_P2PKH
        .iter()
        .map(|p| (p.to_vec(), 20u32))
        .chain(B58_P2SH.iter().map(|p| (p.to_vec(), 20u32)))
        .chain(B58_SPROUT.iter().map(|p| (p.to_vec(), 64u32)))
        .collect();
    let any_len = || prop_oneof![6 => select(vec![0u32, 1, 19, 20, 21, 32, 42, 43, 44, 63, 64, 65]), 1 => 0u32..120];
    prop_oneof![
        3 => (
            select(b32_templates),
            0u8..8,
            prop_oneof![8 => select(hrps), 1 => "[a-z]{1,8}"],
            prop_oneof![4 => Just(0u8), 4 => Just(1u8), 1 => Just(2u8)],
            any_len(),
            arb_seed(),
            prop_oneof![1 => Just(1u8), 1 => Just(2u8)],
            any::<u8>(),
        )
            .prop_map(|((hrp0, k0, len0), perturb, hrp, konst_sel, len, seed, pad, pad_val)| match perturb {
                0 => SimpleCase::B32 { hrp, konst_sel: k0, len: len0, seed, pad: 0, pad_val },
                1 => SimpleCase::B32 { hrp: hrp0, konst_sel, len: len0, seed, pad: 0, pad_val },
                2 => SimpleCase::B32 { hrp: hrp0, konst_sel: k0, len, seed, pad: 0, pad_val },
                3 => SimpleCase::B32 { hrp: hrp0, konst_sel: k0, len: len0, seed, pad, pad_val },
                4 => SimpleCase::B32 { hrp, konst_sel, len, seed, pad: if pad_val < 40 { pad } else { 0 }, pad_val },
                _ => SimpleCase::B32 { hrp: hrp0, konst_sel: k0, len: len0, seed, pad: 0, pad_val },
            }),
        2 => (
            select(b58_templates),
            0u8..6,
            prop_oneof![8 => select(prefixes), 1 => pvec(any::<u8>(), 2)],
            any_len(),
            arb_seed(),
        )
            .prop_map(|((p0, len0), perturb, prefix, len, seed)| match perturb {
                0 => SimpleCase::B58 { prefix, len: len0, seed, bad_checksum: false },
                1 => SimpleCase::B58 { prefix: p0, len, seed, bad_checksum: false },
                2 => SimpleCase::B58 { prefix: p0, len: len0, seed, bad_checksum: true },
                3 => SimpleCase::B58 { prefix, len, seed, bad_checksum: false },
                _ => SimpleCase::B58 { prefix: p0, len: len0, seed, bad_checksum: false },
            }),
    ]
}

/// Expected result for a string: Ok((net, kind)) | Err(true = "recognisably Zcash, invalid") | Err(false).
type SimpleVerdict = Result<(NetworkType, RawKind), bool>;

fn check_simple(c: &SimpleCase) -> CaseResult {
    let (s, verdict, noncanonical_b32): (String, SimpleVerdict, bool) = match c {
        SimpleCase::B32 { hrp, konst_sel, len, seed, pad, pad_val } => {
            let data = expand(*seed, *len as usize);
            // a random prefix that happens to be a unified one is out of this sub-check's scope
            let hrp = &(if ALL_B32_HRPS[6..].contains(&hrp.as_str()) { format!("{hrp}x") } else { hrp.clone() });
            let konst = match konst_sel {
                0 => BECH32_CONST,
                1 => BECH32M_CONST,
                _ => 0x3fff_ffff,
            };
            let padm = match pad {
                0 => B32Pad::Canonical,
                1 => B32Pad::NonZero(*pad_val),
                _ => B32Pad::ExtraFe(*pad_val),
            };
            let fes = bytes_to_fes(&data, padm);
            // judge what the string carries, not what the generator intended
            let (data, canonical) = fes_to_bytes_checked(&fes);
            let nonc = !canonical;
            let s = b32_encode_fes(hrp, &fes, konst);
            let sap = HRP_SAPLING.iter().position(|h| h == hrp);
            let tex = HRP_TEX.iter().position(|h| h == hrp);
            let v: SimpleVerdict = if konst == BECH32_CONST && sap.is_some() {
                if data.len() == 43 && !nonc {
                    Ok((NETS[sap.unwrap()], RawKind::Sapling(data.clone().try_into().unwrap())))
                } else {
                    Err(true)
                }
            } else if konst == BECH32M_CONST && tex.is_some() {
                if data.len() == 20 && !nonc {
                    Ok((NETS[tex.unwrap()], RawKind::Tex(data.clone().try_into().unwrap())))
                } else {
                    Err(true)
                }
            } else {
                Err(false)
            };
            (s, v, nonc)
        }
        SimpleCase::B58 { prefix, len, seed, bad_checksum } => {
            let data = expand(*seed, *len as usize);
            let mut raw = prefix.clone();
            raw.extend_from_slice(&data);
            let mut ck = sha256d4(&raw);
            if *bad_checksum {
                ck[(*seed % 4) as usize] ^= 1 << (*seed % 8);
            }
            raw.extend_from_slice(&ck);
            let s = bs58::encode(&raw).into_string();
            // Base58Check payload = 2 lead bytes ‖ body, wherever the generator drew the split
            let whole = &raw[..raw.len() - 4];
            let v: SimpleVerdict = if *bad_checksum || whole.len() < 2 {
                Err(false)
            } else {
                let p = [whole[0], whole[1]];
                let body = whole[2..].to_vec();
                // main and test lead bytes are distinct; regtest == test, parsed as Test.
                let find = |t: &[[u8; 2]; 3]| t.iter().take(2).position(|x| *x == p);
                if let Some(i) = find(&B58_P2PKH) {
                    body.try_into().map(|d| (NETS[i], RawKind::P2pkh(d))).map_err(|_| true)
                } else if let Some(i) = find(&B58_P2SH) {
                    body.try_into().map(|d| (NETS[i], RawKind::P2sh(d))).map_err(|_| true)
                } else if let Some(i) = find(&B58_SPROUT) {
                    body.try_into().map(|d| (NETS[i], RawKind::Sprout(d))).map_err(|_| true)
                } else {
                    Err(false)
                }
            };
            (s, v, false)
        }
    };
    let got = parse_z(&s)?;
    let mut obs = Obs::new(true).key(hash64(s.as_bytes()));
    match (&got, &verdict) {
        (Ok(z), Ok((net, kind))) => {
            let (n, k) = split_z(z)?;
            vensure!(n == *net && k == *kind, "parsed-value-differs", "{} parsed as {n:?} {k:?}, the string encodes {net:?} {kind:?}", short(&s));
            vensure!(z.encode() == s, "reencode-not-canonical", "accepted {} re-encodes to {}", short(&s), short(&z.encode()));
            obs = obs.label("accepted").label(kind.name());
        }
        (Ok(z), Err(_)) => {
            if noncanonical_b32 {
                vfail!("accepts-invalid:bech32-padding", "accepted {} (non-canonical 5-bit padding) as {z:?}; canonical string is {}", short(&s), short(&z.encode()));
            }
            vfail!("accepts-invalid:simple-kind", "accepted {} as {z:?} although it is not a valid encoding ({c:?})", short(&s));
        }
        (Err(e), Ok((net, kind))) => vfail!("rejects-valid-address", "rejected {} = {net:?} {kind:?}: {e:?}", short(&s)),
        (Err(e), Err(zcashy)) => {
            if *zcashy {
                vensure!(*e == ParseError::InvalidEncoding, "error-variant-mismatch", "{} has a Zcash prefix and checksum but wrong content; error {e:?} (want InvalidEncoding)", short(&s));
                obs = obs.label("rejected:invalid-encoding");
            } else {
                vensure!(*e == ParseError::NotZcash, "error-variant-mismatch", "{} is not recognisably Zcash; error {e:?} (want NotZcash)", short(&s));
                obs = obs.label("rejected:not-zcash");
            }
        }
    }
    Ok(obs.label(match c {
        SimpleCase::B32 { .. } => "bech32",
        SimpleCase::B58 { .. } => "base58",
    }))
}

// ---------------------------------------------------------------------------------------------
// Canonical form of accepted strings: near-valid and arbitrary strings through all four parsers
// ---------------------------------------------------------------------------------------------

const WS: [&str; 8] = ["", " ", "\t", "\n", "\r\n", "  ", "\u{a0}", "\u{2003}\u{3000}"];

#[derive(Clone, Debug)]
enum Mutation {
    Identity,
    Whitespace(u8, u8),
    Subst(u32, u32),
    SubstAny(u32, char),
    Transpose(u32),
    Delete(u32),
    Insert(u32, u32),
    CaseFlip(u32),
    Upper,
    ChecksumSwap,
    PrefixSwap(u32, bool),
    InnerWs(u32, u8),
    Truncate(u8),
    Double,
    B32NonZeroPad(u8),
    B32ExtraFe(u8),
    NotTrimmed(u8),
}

impl Mutation {
    fn label(&self) -> &'static str {
        match self {
            Mutation::Identity => "mut:identity",
            Mutation::Whitespace(..) => "mut:whitespace",
            Mutation::Subst(..) => "mut:subst",
            Mutation::SubstAny(..) => "mut:subst-any",
            Mutation::Transpose(..) => "mut:transpose",
            Mutation::Delete(..) => "mut:delete",
            Mutation::Insert(..) => "mut:insert",
            Mutation::CaseFlip(..) => "mut:case-flip",
            Mutation::Upper => "mut:upper",
            Mutation::ChecksumSwap => "mut:checksum-swap",
            Mutation::PrefixSwap(..) => "mut:prefix-swap",
            Mutation::InnerWs(..) => "mut:inner-whitespace",
            Mutation::Truncate(..) => "mut:truncate",
            Mutation::Double => "mut:double",
            Mutation::B32NonZeroPad(..) => "mut:b32-nonzero-pad",
            Mutation::B32ExtraFe(..) => "mut:b32-extra-group",
            Mutation::NotTrimmed(..) => "mut:non-whitespace-affix",
        }
    }
}

fn arb_mutation() -> impl Strategy<Value = Mutation> {
    let s = || any::<u32>();
    prop_oneof![
        2 => Just(Mutation::Identity),
        3 => (0u8..8, 0u8..8).prop_map(|(a, b)| Mutation::Whitespace(a, b)),
        5 => (s(), s()).prop_map(|(a, b)| Mutation::Subst(a, b)),
        2 => (s(), any::<char>()).prop_map(|(a, c)| Mutation::SubstAny(a, c)),
        3 => s().prop_map(Mutation::Transpose),
        2 => s().prop_map(Mutation::Delete),
        2 => (s(), s()).prop_map(|(a, b)| Mutation::Insert(a, b)),
        3 => s().prop_map(Mutation::CaseFlip),
        2 => Just(Mutation::Upper),
        3 => Just(Mutation::ChecksumSwap),
        4 => (s(), any::<bool>()).prop_map(|(a, b)| Mutation::PrefixSwap(a, b)),
        1 => (s(), 1u8..8).prop_map(|(a, b)| Mutation::InnerWs(a, b)),
        1 => (1u8..8).prop_map(Mutation::Truncate),
        1 => Just(Mutation::Double),
        2 => (1u8..16).prop_map(Mutation::B32NonZeroPad),
        2 => (0u8..32).prop_map(Mutation::B32ExtraFe),
        1 => (0u8..4).prop_map(Mutation::NotTrimmed),
    ]
}

fn fes_to_bytes_lossy(fes: &[u8]) -> Vec<u8> {
    let mut out = vec![];
    let mut acc = 0u32;
    let mut bits = 0;
    for f in fes {
        acc = ((acc << 5) | *f as u32) & 0xfff;
        bits += 5;
        if bits >= 8 {
            bits -= 8;
            out.push((acc >> bits) as u8);
        }
    }
    out
}

/// BIP 173 view of a data part: the bytes it carries and whether the incomplete trailing group is
/// canonical (at most 4 bits, all zero).
fn fes_to_bytes_checked(fes: &[u8]) -> (Vec<u8>, bool) {
    let rem = fes.len() * 5 % 8;
    let canonical = rem <= 4 && fes.last().map_or(true, |l| l & ((1u8 << rem) - 1) == 0);
    (fes_to_bytes_lossy(fes), canonical)
}

const ALL_B32_HRPS: [&str; 15] = [
    "zs", "ztestsapling", "zregtestsapling", "tex", "textest", "texregtest", "u", "utest", "uregtest", "uview", "uviewtest", "uviewregtest", "uivk", "uivktest",
    "uivkregtest",
];

/// Applies a mutation to a valid canonical string. `is_b32` tells which alphabet applies.
fn mutate(base: &str, is_b32: bool, m: &Mutation) -> String {
    let chars: Vec<char> = base.chars().collect();
    let n = chars.len();
    let alphabet: &[u8] = if is_b32 { B32_CHARSET } else { B58_ALPHABET };
    let collect = |v: Vec<char>| v.into_iter().collect::<String>();
    match m {
        Mutation::Identity => base.to_string(),
        Mutation::Whitespace(a, b) => format!("{}{}{}", WS[*a as usize % 8], base, WS[*b as usize % 8]),
        Mutation::Subst(p, c) => {
            let mut v = chars.clone();
            let i = pick_index(*p, n);
            let mut ch = alphabet[pick_index(*c, alphabet.len())] as char;
            if ch == v[i] {
                ch = alphabet[(pick_index(*c, alphabet.len()) + 1) % alphabet.len()] as char;
            }
            v[i] = ch;
            collect(v)
        }
        Mutation::SubstAny(p, c) => {
            let mut v = chars.clone();
            v[pick_index(*p, n)] = *c;
            collect(v)
        }
        Mutation::Transpose(p) => {
            let mut v = chars.clone();
            if n >= 2 {
                let i = pick_index(*p, n - 1);
                v.swap(i, i + 1);
            }
            collect(v)
        }
        Mutation::Delete(p) => {
            let mut v = chars.clone();
            v.remove(pick_index(*p, n));
            collect(v)
        }
        Mutation::Insert(p, c) => {
            let mut v = chars.clone();
            v.insert(pick_index(*p, n + 1), alphabet[pick_index(*c, alphabet.len())] as char);
            collect(v)
        }
        Mutation::CaseFlip(p) => {
            let mut v = chars.clone();
            let letters: Vec<usize> = v.iter().enumerate().filter(|(_, c)| c.is_ascii_alphabetic()).map(|(i, _)| i).collect();
            if !letters.is_empty() {
                let i = letters[pick_index(*p, letters.len())];
                v[i] = if v[i].is_ascii_lowercase() { v[i].to_ascii_uppercase() } else { v[i].to_ascii_lowercase() };
            }
            collect(v)
        }
        Mutation::Upper => base.to_ascii_uppercase(),
        Mutation::ChecksumSwap => {
            if is_b32 {
                let (hrp, fes, k) = b32_decode(base).expect("valid base");
                b32_encode_fes(&hrp, &fes, if k == BECH32_CONST { BECH32M_CONST } else { BECH32_CONST })
            } else {
                let mut raw = bs58::decode(base).into_vec().expect("valid base58");
                let l = raw.len();
                raw[l - 1] ^= 0x40;
                bs58::encode(raw).into_string()
            }
        }
        Mutation::PrefixSwap(a, recompute) => {
            if is_b32 {
                let (hrp, fes, k) = b32_decode(base).expect("valid base");
                let new = ALL_B32_HRPS[pick_index(*a, ALL_B32_HRPS.len())];
                if *recompute {
                    b32_encode_fes(new, &fes, k)
                } else {
                    format!("{new}{}", &base[hrp.len()..])
                }
            } else {
                let mut raw = bs58::decode(base).into_vec().expect("valid base58");
                let all: Vec<[u8; 2]> = B58_P2PKH.iter().chain(B58_P2SH.iter()).chain(B58_SPROUT.iter()).copied().collect();
                let p = all[pick_index(*a, all.len())];
                raw[0] = p[0];
                raw[1] = p[1];
                if *recompute {
                    let l = raw.len() - 4;
                    let ck = sha256d4(&raw[..l]);
                    raw[l..].copy_from_slice(&ck);
                }
                bs58::encode(raw).into_string()
            }
        }
        Mutation::InnerWs(p, w) => {
            let mut v = chars.clone();
            let i = 1 + pick_index(*p, n.saturating_sub(1).max(1));
            let ws: Vec<char> = WS[*w as usize % 8].chars().collect();
            for (k, c) in ws.into_iter().enumerate() {
                v.insert((i + k).min(v.len()), c);
            }
            collect(v)
        }
        Mutation::Truncate(k) => collect(chars[..n.saturating_sub(*k as usize)].to_vec()),
        Mutation::Double => format!("{base}{base}"),
        Mutation::B32NonZeroPad(v) | Mutation::B32ExtraFe(v) => {
            if is_b32 {
                let (hrp, fes, k) = b32_decode(base).expect("valid base");
                let bytes = fes_to_bytes_lossy(&fes);
                let pad = if matches!(m, Mutation::B32NonZeroPad(_)) { B32Pad::NonZero(*v) } else { B32Pad::ExtraFe(*v) };
                b32_encode_fes(&hrp, &bytes_to_fes(&bytes, pad), k)
            } else {
                // Base58: prepend a '1' (a leading zero byte) — a different byte string
                format!("1{base}")
            }
        }
        Mutation::NotTrimmed(k) => match k {
            0 => format!("\u{feff}{base}"),
            1 => format!("{base}\u{200b}"),
            2 => format!("zcash:{base}"),
            _ => format!("{base}\0"),
        },
    }
}

#[derive(Clone, Copy, PartialEq, Eq, Debug)]
enum StrClass {
    B58,
    B32,
}

/// Checks the canonical-form property for one parser on one string. `re` is encode(parse(s)).
fn canonical_or_fail(parser: &str, s: &str, re: &str, class: StrClass) -> Result<&'static str, Fail> {
    let norm = s.trim();
    if re == norm {
        return Ok("canonical");
    }
    if class != StrClass::B58 && !norm.bytes().any(|c| c.is_ascii_lowercase()) && re == norm.to_ascii_lowercase() {
        // BIP 173: all-uppercase is a valid presentation; the canonical form is what encode emits.
        return Ok("uppercase-accepted");
    }
    // classify: same prefix, same checksum algorithm, and the canonical data is a bit-prefix of the
    // accepted data => only the 5-bit padding differs.
    if let (Some((h1, f1, k1)), Some((h2, f2, k2))) = (b32_decode(norm), b32_decode(re)) {
        if h1 == h2 && k1 == k2 && fes_to_bytes_lossy(&f1) == fes_to_bytes_lossy(&f2) {
            return Err(Fail::new(
                "accepts-invalid:bech32-padding",
                format!("{parser} accepted {} whose 5-bit padding is not canonical (BIP 173); it re-encodes to the different string {}", short(norm), short(re)),
            ));
        }
    }
    Err(Fail::new("accepts-noncanonical", format!("{parser} accepted {:?} but re-encodes it as {:?}", short(s), short(re))))
}

struct ParseSummary {
    z: Option<(NetworkType, RawKind)>,
    accepted_by: Vec<&'static str>,
    uppercase: bool,
}

/// Runs all four parsers on `s`: no panic; canonical form if accepted.
fn check_all_parsers(s: &str) -> Result<ParseSummary, Fail> {
    let mut sum = ParseSummary { z: None, accepted_by: vec![], uppercase: false };
    if let Ok(z) = parse_z(s)? {
        let (n, k) = split_z(&z)?;
        let re = catch(|| z.encode()).map_err(|p| Fail::new("encode-panic", format!("encode of parsed {:?} panicked: {p}", short(s))))?;
        let again = parse_z(&re)?;
        vensure!(again.as_ref().ok() == Some(&z), "reparse-differs", "parse(encode(parse(s))) != parse(s) for {:?}: {again:?}", short(s));
        let class = if k.is_bech32() { StrClass::B32 } else { StrClass::B58 };
        if canonical_or_fail("ZcashAddress", s, &re, class)? == "uppercase-accepted" {
            sum.uppercase = true;
        }
        vensure!(re == ref_encode_addr(n, &k), "encode-differs-from-spec", "parsed {:?}; crate encodes as {} but the specification encoding is {}", short(s), short(&re), short(&ref_encode_addr(n, &k)));
        sum.z = Some((n, k));
        sum.accepted_by.push("zcashaddress");
    }
    macro_rules! cont {
        ($t:ty, $name:expr) => {
            match catch(|| <$t>::decode(s)).map_err(|p| Fail::new("decode-panic", format!("{} decode({:?}) panicked: {p}", $name, short(s))))? {
                Ok((net, c)) => {
                    let re = catch(|| c.encode(&net)).map_err(|p| Fail::new("encode-panic", format!("{} re-encode panicked: {p}", $name)))?;
                    let again = catch(|| <$t>::decode(&re)).map_err(|p| Fail::new("decode-panic", p))?;
                    vensure!(again.as_ref().ok() == Some(&(net, c.clone())), "reparse-differs", "{}: decode(encode(decode(s))) != decode(s) for {:?}", $name, short(s));
                    if canonical_or_fail($name, s, &re, StrClass::B32)? == "uppercase-accepted" {
                        sum.uppercase = true;
                    }
                    let items = items_raw(&c);
                    vensure!(re == ref_container_string(<$t as Cont>::KIND.hrp(net), &items), "encode-differs-from-spec", "{}: crate string differs from ZIP 316 string for {}", $name, show_items(&items));
                    sum.accepted_by.push($name);
                }
                Err(_) => {}
            }
        };
    }
    cont!(unified::Address, "unified::Address");
    cont!(unified::Ufvk, "unified::Ufvk");
    cont!(unified::Uivk, "unified::Uivk");
    Ok(sum)
}

#[derive(Clone, Debug)]
enum BaseString {
    Addr(u8, RawKindSpec),
    Container(BaseSpec),
}

/// Generated description of a raw address (expanded deterministically).
#[derive(Clone, Debug)]
enum RawKindSpec {
    Sprout(u64),
    Sapling(u64),
    P2pkh(u64),
    P2sh(u64),
    Tex(u64),
    Unified(BaseSpec),
}

impl RawKindSpec {
    fn kind(&self) -> RawKind {
        match self {
            RawKindSpec::Sprout(s) => RawKind::Sprout(expand(*s, 64).try_into().unwrap()),
            RawKindSpec::Sapling(s) => RawKind::Sapling(expand(*s, 43).try_into().unwrap()),
            RawKindSpec::P2pkh(s) => RawKind::P2pkh(expand(*s, 20).try_into().unwrap()),
            RawKindSpec::P2sh(s) => RawKind::P2sh(expand(*s, 20).try_into().unwrap()),
            RawKindSpec::Tex(s) => RawKind::Tex(expand(*s, 20).try_into().unwrap()),
            RawKindSpec::Unified(b) => RawKind::Unified(b.items()),
        }
    }
}

fn arb_raw_kind_spec(big_weight: u32) -> impl Strategy<Value = RawKindSpec> {
    prop_oneof![
        1 => arb_seed().prop_map(RawKindSpec::Sprout),
        1 => arb_seed().prop_map(RawKindSpec::Sapling),
        1 => arb_seed().prop_map(RawKindSpec::P2pkh),
        1 => arb_seed().prop_map(RawKindSpec::P2sh),
        1 => arb_seed().prop_map(RawKindSpec::Tex),
        3 => arb_base(Just(CKind::Addr), big_weight).prop_map(|b| RawKindSpec::Unified(b.valid_len())),
    ]
}

fn check_near_valid(base: &BaseString, m: &Mutation) -> CaseResult {
    let (canon, is_b32, is_addr, value): (String, bool, bool, Option<(NetworkType, RawKind)>) = match base {
        BaseString::Addr(n, spec) => {
            let net = NETS[*n as usize % 3];
            let k = spec.kind();
            let parsed_net = if k.shares_test_regtest() && net == NetworkType::Regtest { NetworkType::Test } else { net };
            (ref_encode_addr(net, &k), k.is_bech32(), true, Some((parsed_net, k)))
        }
        BaseString::Container(b) => (ref_container_string(b.kind.hrp(b.net()), &b.items()), true, b.kind == CKind::Addr, None),
    };
    let s = mutate(&canon, is_b32, m);
    let sum = check_all_parsers(&s)?;
    // two-sided expectations where the documentation is explicit
    match m {
        Mutation::Identity | Mutation::Whitespace(..) => {
            if is_addr {
                vensure!(sum.z.is_some(), "rejects-valid-address", "ZcashAddress rejected {:?} (valid encoding, possibly with surrounding whitespace, which FromStr documents it trims)", short(&s));
                if let Some(v) = &value {
                    vensure!(sum.z.as_ref() == Some(v), "parsed-value-differs", "{:?} parsed as {:?}, want {v:?}", short(&s), sum.z);
                }
            } else {
                vensure!(sum.z.is_none(), "accepts-invalid:unknown-hrp", "ZcashAddress accepted a viewing key string");
                if matches!(m, Mutation::Identity) {
                    vensure!(sum.accepted_by.len() == 1, "rejects-valid-container", "viewing key string accepted by {:?}", sum.accepted_by);
                }
            }
        }
        _ => {}
    }
    let accepted = !sum.accepted_by.is_empty();
    Ok(Obs::new(s.trim() != canon)
        .key(hash64(s.as_bytes()))
        .label(m.label())
        .label(if accepted { "accepted" } else { "rejected" })
        .label_if(accepted && s.trim() != canon, "accepted-after-mutation")
        .label_if(sum.uppercase, "uppercase-accepted")
        .label(if is_b32 { "bech32" } else { "base58" }))
}

fn arb_string() -> impl Strategy<Value = String> {
    let prefixed = |p: &'static str, re: &'static str| re.prop_map(move |t: String| format!("{p}{t}"));
    prop_oneof![
        2 => ".{0,80}",
        2 => pvec(any::<u8>(), 0..120).prop_map(|b| String::from_utf8_lossy(&b).into_owned()),
        2 => "[qpzry9x8gf2tvdw0s3jn54khce6mua7l1]{0,140}",
        2 => "[1-9A-HJ-NP-Za-km-z]{0,110}",
        1 => prefixed("u1", "[qpzry9x8gf2tvdw0s3jn54khce6mua7l]{0,200}"),
        1 => prefixed("zs1", "[qpzry9x8gf2tvdw0s3jn54khce6mua7l]{60,80}"),
        1 => prefixed("tex1", "[qpzry9x8gf2tvdw0s3jn54khce6mua7l]{30,45}"),
        1 => prefixed("t1", "[1-9A-HJ-NP-Za-km-z]{30,36}"),
        1 => prefixed("zc", "[1-9A-HJ-NP-Za-km-z]{90,96}"),
        // checksum-valid Bech32(m) with arbitrary HRP and payload: reaches the content checks
        3 => (prop_oneof![3 => select(ALL_B32_HRPS.to_vec()).prop_map(|s| s.to_string()), 1 => "[a-z0-9]{1,12}", 1 => "[!-~]{1,20}"], pvec(0u8..32, 0..220), any::<bool>(), any::<bool>())
            .prop_map(|(hrp, fes, m, upper)| {
                let hrp = hrp.to_ascii_lowercase();
                let s = b32_encode_fes(&hrp, &fes, if m { BECH32M_CONST } else { BECH32_CONST });
                if upper { s.to_ascii_uppercase() } else { s }
            }),
        // checksum-valid Base58Check with arbitrary content
        2 => pvec(any::<u8>(), 0..80).prop_map(|b| b58check(&[], &b)),
        1 => (select(vec![[0x1cu8, 0xb8], [0x1c, 0xbd], [0x16, 0x9a], [0x1d, 0x25], [0x1c, 0xba], [0x16, 0xb6]]), pvec(any::<u8>(), 0..70)).prop_map(|(p, b)| b58check(&p, &b)),
    ]
}

// ---------------------------------------------------------------------------------------------
// Typed addresses and keys (zcash_keys)
// ---------------------------------------------------------------------------------------------

#[derive(Clone, Debug)]
struct TypedCase {
    seed: [u8; 32],
    account: u32,
    variant: u8,
    request: u8,
    bytes20: [u8; 20],
    unknown: Vec<(u32, u32, u64)>,
    flags: u8,
}

fn arb_typed() -> impl Strategy<Value = TypedCase> {
    (
        any::<[u8; 32]>(),
        any::<u32>(),
        0u8..7,
        0u8..3,
        any::<[u8; 20]>(),
        pvec((arb_unknown_typecode(), arb_unknown_len(0), arb_seed()), 0..3),
        any::<u8>(),
    )
        .prop_map(|(seed, account, variant, request, bytes20, unknown, flags)| TypedCase { seed, account, variant, request, bytes20, unknown, flags })
}

fn check_typed(c: &TypedCase) -> CaseResult {
    use zcash_keys::address::{Address, UnifiedAddress};
    use zcash_keys::encoding::AddressCodec;
    use zcash_keys::keys::{UnifiedAddressRequest, UnifiedFullViewingKey, UnifiedIncomingViewingKey, UnifiedSpendingKey};
    use zcash_transparent::address::TransparentAddress;

    let nets = any_nets();
    let needs_key = !matches!(c.variant, 1 | 2 | 3);
    let usk = if needs_key {
        let account = match zip32::AccountId::try_from(c.account & 0x7fff_ffff) {
            Ok(a) => a,
            Err(_) => return Ok(Obs::trivial().label("bad-account")),
        };
        match UnifiedSpendingKey::from_seed(&TEST_NETWORK, &c.seed, account) {
            Ok(k) => Some(k),
            Err(_) => return Ok(Obs::trivial().label("bad-seed")),
        }
    } else {
        None
    };
    let request = [UnifiedAddressRequest::ALLOW_ALL, UnifiedAddressRequest::SHIELDED, UnifiedAddressRequest::ORCHARD][c.request as usize % 3];
    // Require Sapling so that the diversifier index search yields all three receivers.
    let full = || {
        usk.as_ref()
            .unwrap()
            .default_address(UnifiedAddressRequest::unsafe_custom(
                zcash_keys::keys::ReceiverRequirement::Require,
                zcash_keys::keys::ReceiverRequirement::Require,
                zcash_keys::keys::ReceiverRequirement::Require,
            ))
            .0
    };
    let ua_items = |ua: &UnifiedAddress| -> Vec<RItem> {
        let mut v: Vec<RItem> = vec![];
        match ua.transparent() {
            Some(TransparentAddress::PublicKeyHash(d)) => v.push((0, d.to_vec())),
            Some(TransparentAddress::ScriptHash(d)) => v.push((1, d.to_vec())),
            None => {}
        }
        if let Some(s) = ua.sapling() {
            v.push((2, s.to_bytes().to_vec()));
        }
        if let Some(o) = ua.orchard() {
            v.push((3, o.to_raw_address_bytes().to_vec()));
        }
        for (t, d) in ua.unknown() {
            v.push((*t, d.clone()));
        }
        v.sort_by_key(|(t, _)| *t);
        v
    };

    // ---- viewing keys (variant 6) ----
    if c.variant == 6 {
        let ufvk = usk.as_ref().unwrap().to_unified_full_viewing_key();
        let uivk = ufvk.to_unified_incoming_viewing_key();
        for p in &nets {
            let net = p.network_type();
            let s = catch(|| ufvk.encode(p)).map_err(|e| Fail::new("encode-panic", format!("UFVK encode panicked: {e}")))?;
            let (n, raw) = catch(|| unified::Ufvk::decode(&s))
                .map_err(|e| Fail::new("decode-panic", e))?
                .map_err(|e| Fail::new("roundtrip-rejected", format!("Ufvk::decode of an encoded UFVK: {e:?}")))?;
            vensure!(n == net, "roundtrip-net", "UFVK network");
            let items = items_raw(&raw);
            vensure!(s == ref_container_string(CKind::Fvk.hrp(net), &items), "encode-differs-from-spec", "UFVK string is not the ZIP 316 encoding of its items");
            vensure!(ref_container_verdict(CKind::Fvk, CKind::Fvk.hrp(net), &ref_f4jumble(&ref_container_msg(CKind::Fvk.hrp(net), &items))).is_ok(), "typed-key-not-zip316", "UFVK items {} violate ZIP 316", show_items(&items));
            let si = catch(|| uivk.encode(p)).map_err(|e| Fail::new("encode-panic", format!("UIVK encode panicked: {e}")))?;
            let (ni, rawi) = catch(|| unified::Uivk::decode(&si))
                .map_err(|e| Fail::new("decode-panic", e))?
                .map_err(|e| Fail::new("roundtrip-rejected", format!("Uivk::decode of an encoded UIVK: {e:?}")))?;
            vensure!(ni == net, "roundtrip-net", "UIVK network");
            vensure!(si == ref_container_string(CKind::Ivk.hrp(net), &items_raw(&rawi)), "encode-differs-from-spec", "UIVK string is not the ZIP 316 encoding of its items");
            for q in &nets {
                let same = q.network_type() == net;
                let d = catch(|| UnifiedFullViewingKey::decode(q, &s)).map_err(|e| Fail::new("decode-panic", e))?;
                match d {
                    Ok(k) => {
                        vensure!(same, "typed-decode-wrong-network", "UFVK for {net:?} decoded under {:?}", q.network_type());
                        vensure!(k.encode(q) == s, "roundtrip-reencode", "UFVK re-encoding differs");
                    }
                    Err(e) => vensure!(!same, "roundtrip-rejected", "UFVK::decode(encode(k)) failed: {e}"),
                }
                let d = catch(|| UnifiedIncomingViewingKey::decode(q, &si)).map_err(|e| Fail::new("decode-panic", e))?;
                match d {
                    Ok(k) => {
                        vensure!(same, "typed-decode-wrong-network", "UIVK for {net:?} decoded under {:?}", q.network_type());
                        vensure!(k.encode(q) == si, "roundtrip-reencode", "UIVK re-encoding differs");
                    }
                    Err(e) => vensure!(!same, "roundtrip-rejected", "UIVK::decode(encode(k)) failed: {e}"),
                }
            }
        }
        return Ok(Obs::new(true).key(hash64(&c.seed)).label("viewing-keys"));
    }

    // ---- addresses ----
    let (addr, raw): (Address, RawKind) = match c.variant {
        0 => {
            let pa = *full().sapling().ok_or_else(|| Fail::new("harness-bug", "ALLOW_ALL default address without Sapling receiver"))?;
            (Address::Sapling(pa), RawKind::Sapling(pa.to_bytes()))
        }
        1 => (Address::Transparent(TransparentAddress::PublicKeyHash(c.bytes20)), RawKind::P2pkh(c.bytes20)),
        2 => (Address::Transparent(TransparentAddress::ScriptHash(c.bytes20)), RawKind::P2sh(c.bytes20)),
        3 => (Address::Tex(c.bytes20), RawKind::Tex(c.bytes20)),
        4 => {
            let ua = usk.as_ref().unwrap().default_address(request).0;
            let items = ua_items(&ua);
            (Address::Unified(ua), RawKind::Unified(items))
        }
        _ => {
            // a unified address with unknown receivers, optionally P2SH, optionally one shielded receiver dropped
            let mut m: BTreeMap<u32, Vec<u8>> = ua_items(&full()).into_iter().collect();
            if c.flags & 1 == 1 {
                m.remove(&0);
                m.insert(1, c.bytes20.to_vec());
            }
            if c.flags & 2 == 2 {
                m.remove(&0);
                m.remove(&1);
            }
            match (c.flags >> 2) & 3 {
                1 if m.contains_key(&3) => {
                    m.remove(&2);
                }
                2 if m.contains_key(&2) => {
                    m.remove(&3);
                }
                _ => {}
            }
            for (t, l, s) in &c.unknown {
                m.entry((*t).clamp(4, MAX_TYPECODE as u32)).or_insert_with(|| expand(*s, *l as usize));
            }
            let items: Vec<RItem> = m.into_iter().collect();
            let its = mk_items::<unified::Address>(&items).ok_or_else(|| Fail::new("harness-bug", "typed items"))?;
            let raw_ua = unified::Address::try_from_items(its).map_err(|e| Fail::new("try-from-items-rejects-valid", format!("{e:?}")))?;
            let ua = catch(|| UnifiedAddress::try_from(raw_ua))
                .map_err(|p| Fail::new("typed-convert-panic", p))?
                .map_err(|e| Fail::new("typed-convert-rejects-valid", format!("UnifiedAddress::try_from rejected valid receivers: {e}")))?;
            vensure!(ua_items(&ua) == items, "unknown-items-not-preserved", "UnifiedAddress holds {} want {}", show_items(&ua_items(&ua)), show_items(&items));
            (Address::Unified(ua), RawKind::Unified(items))
        }
    };
    let transparent = matches!(addr, Address::Transparent(_));
    for p in &nets {
        let net = p.network_type();
        let s = catch(|| addr.encode(p)).map_err(|e| Fail::new("encode-panic", format!("Address::encode({addr:?}) panicked: {e}")))?;
        vensure!(s == ref_encode_addr(net, &raw), "encode-differs-from-spec", "Address::encode on {net:?} = {} want {}", short(&s), short(&ref_encode_addr(net, &raw)));
        for q in &nets {
            let qn = q.network_type();
            let d = catch(|| Address::decode(q, &s)).map_err(|e| Fail::new("decode-panic", format!("Address::decode panicked: {e}")))?;
            // same network, or the shared testnet/regtest transparent encodings
            let expect = qn == net || (transparent && net != NetworkType::Main && qn != NetworkType::Main);
            match d {
                Some(a) => {
                    vensure!(expect, "typed-decode-wrong-network", "{} encoded for {net:?} decoded under {qn:?}", raw.name());
                    vensure!(a == addr, "typed-roundtrip", "Address::decode(encode(a)) = {a:?} want {addr:?}");
                }
                None => vensure!(!expect, "typed-roundtrip-rejected", "Address::decode({qn:?}, encode({net:?}, {addr:?})) = None"),
            }
        }
        // AddressCodec impls agree with Address
        match &addr {
            Address::Transparent(t) => {
                vensure!(AddressCodec::encode(t, p) == s, "codec-differs", "TransparentAddress codec encode");
                let d = catch(|| <TransparentAddress as AddressCodec<AnyNet>>::decode(p, &s)).map_err(|e| Fail::new("decode-panic", e))?;
                vensure!(d.as_ref().ok() == Some(t), "codec-differs", "TransparentAddress codec decode: {d:?}");
            }
            Address::Sapling(pa) => {
                vensure!(AddressCodec::encode(pa, p) == s, "codec-differs", "PaymentAddress codec encode");
                let d = catch(|| <sapling::PaymentAddress as AddressCodec<AnyNet>>::decode(p, &s)).map_err(|e| Fail::new("decode-panic", e))?;
                vensure!(d.as_ref().ok() == Some(pa), "codec-differs", "PaymentAddress codec decode: {d:?}");
            }
            Address::Unified(ua) => {
                vensure!(AddressCodec::encode(ua, p) == s, "codec-differs", "UnifiedAddress codec encode");
                for q in &nets {
                    let d = catch(|| <UnifiedAddress as AddressCodec<AnyNet>>::decode(q, &s)).map_err(|e| Fail::new("decode-panic", e))?;
                    if q.network_type() == net {
                        vensure!(d.as_ref().ok() == Some(ua), "codec-differs", "UnifiedAddress codec decode: {d:?}");
                    } else {
                        vensure!(d.is_err(), "typed-decode-wrong-network", "UnifiedAddress codec accepted another network's string");
                    }
                }
            }
            Address::Tex(_) => {}
        }
    }
    let unknown = matches!(&raw, RawKind::Unified(i) if i.iter().any(|(t, _)| *t >= 4));
    Ok(Obs::new(matches!(raw, RawKind::Unified(_)))
        .key(hash64(format!("{raw:?}").as_bytes()))
        .label(raw.name())
        .label_if(unknown, "unified-with-unknown"))
}

// ---------------------------------------------------------------------------------------------
// F4Jumble
// ---------------------------------------------------------------------------------------------

fn check_f4jumble(len: usize, seed: u64, flip: u32, bit: u8) -> CaseResult {
    let m = expand(seed, len);
    let valid = (F4_MIN..=F4_MAX).contains(&len);
    let j = catch(|| f4jumble::f4jumble(&m)).map_err(|p| Fail::new("f4jumble-panic", format!("f4jumble(len {len}) panicked: {p}")))?;
    let i = catch(|| f4jumble::f4jumble_inv(&m)).map_err(|p| Fail::new("f4jumble-panic", format!("f4jumble_inv(len {len}) panicked: {p}")))?;
    let mut mm = m.clone();
    let jm = catch(|| f4jumble::f4jumble_mut(&mut mm)).map_err(|p| Fail::new("f4jumble-panic", p))?;
    let mut mi = m.clone();
    let im = catch(|| f4jumble::f4jumble_inv_mut(&mut mi)).map_err(|p| Fail::new("f4jumble-panic", p))?;
    if !valid {
        vensure!(j.is_err() && i.is_err() && jm.is_err() && im.is_err(), "f4jumble-accepts-invalid-length", "length {len} accepted: {:?} {:?} {:?} {:?}", j.is_ok(), i.is_ok(), jm.is_ok(), im.is_ok());
        vensure!(mm == m && mi == m, "f4jumble-modifies-on-error", "message modified although the length {len} is invalid (documented: unmodified)");
        return Ok(Obs::new(true).key(hash64(&(len as u64).to_le_bytes()) ^ seed).label("invalid-length"));
    }
    let j = j.map_err(|e| Fail::new("f4jumble-rejects-valid-length", format!("f4jumble(len {len}) = {e}")))?;
    let i = i.map_err(|e| Fail::new("f4jumble-rejects-valid-length", format!("f4jumble_inv(len {len}) = {e}")))?;
    vensure!(jm.is_ok() && im.is_ok(), "f4jumble-rejects-valid-length", "_mut variants reject length {len}");
    vensure!(j.len() == len && i.len() == len, "f4jumble-length", "output lengths {} / {} for input {len}", j.len(), i.len());
    vensure!(mm == j && mi == i, "f4jumble-mut-differs", "in-place and allocating variants differ at length {len}");
    vensure!(j == ref_f4jumble(&m), "f4jumble-differs-from-zip316", "f4jumble(len {len}, seed {seed}) differs from the ZIP 316 definition");
    vensure!(i == ref_f4jumble_inv(&m), "f4jumble-inv-differs-from-zip316", "f4jumble_inv(len {len}, seed {seed}) differs from the ZIP 316 definition");
    let back = f4jumble::f4jumble_inv(&j).map_err(|e| Fail::new("f4jumble-rejects-valid-length", e.to_string()))?;
    vensure!(back == m, "f4jumble-not-inverse", "f4jumble_inv(f4jumble(m)) != m at length {len}");
    let fwd = f4jumble::f4jumble(&i).map_err(|e| Fail::new("f4jumble-rejects-valid-length", e.to_string()))?;
    vensure!(fwd == m, "f4jumble-not-inverse", "f4jumble(f4jumble_inv(m)) != m at length {len}");
    // injectivity sample
    let mut m2 = m.clone();
    let pos = pick_index(flip, len);
    m2[pos] ^= 1 << (bit % 8);
    let j2 = f4jumble::f4jumble(&m2).map_err(|e| Fail::new("f4jumble-rejects-valid-length", e.to_string()))?;
    vensure!(j2 != j, "f4jumble-collision", "flipping bit {bit} of byte {pos} (length {len}) does not change the output");
    let i2 = f4jumble::f4jumble_inv(&m2).map_err(|e| Fail::new("f4jumble-rejects-valid-length", e.to_string()))?;
    vensure!(i2 != i, "f4jumble-collision", "flipping bit {bit} of byte {pos} (length {len}) does not change the inverse");
    let mut k = (len as u64).to_le_bytes().to_vec();
    k.extend_from_slice(&seed.to_le_bytes());
    Ok(Obs::new(true)
        .key(hash64(&k))
        .label(if len <= 128 { "len<=128" } else if len <= 1000 { "len<=1000" } else if len <= 16448 { "len<=16448" } else { "len>16448" })
        .label_if(len % 64 == 0 || len == 48 || len == 127 || len == 129, "boundary-length"))
}

// ---------------------------------------------------------------------------------------------
// Fixed vectors and length boundaries (enumerated)
// ---------------------------------------------------------------------------------------------

enum Fixed {
    /// (string from the spec / the crate's documentation, expected value)
    Addr(&'static str, NetworkType, RawKind),
    /// rustdoc example of f4jumble: (message, hex of the jumbled message)
    Jumble(&'static [u8], &'static str),
    /// official ZIP 316 test vector number i (exported by the crate)
    Zip316(usize),
    /// ZIP 320 pairing: (TEX string, P2PKH string of the same 20 bytes, network)
    TexPair(&'static str, &'static str, NetworkType),
    /// checksum-valid Bech32(m) strings whose 5-bit padding violates BIP 173 (must be rejected)
    NonCanonical(&'static str),
}

fn fixed_cases() -> Vec<Fixed> {
    use NetworkType::*;
    let ua0 = || RawKind::Unified(vec![(2, vec![0u8; 43])]);
    let mut v = vec![
        Fixed::Addr("zc8E5gYid86n4bo2Usdq1cpr7PpfoJGzttwBHEEgGhGkLUg7SPPVFNB2AkRFXZ7usfphup5426dt1buMmY3fkYeRrQGLa8y", Main, RawKind::Sprout([0; 64])),
        Fixed::Addr("ztJ1EWLKcGwF2S4NA17pAJVdco8Sdkz4AQPxt1cLTEfNuyNswJJc2BbBqYrsRZsp31xbVZwhF7c7a2L9jsF3p3ZwRWpqqyS", Test, RawKind::Sprout([0; 64])),
        Fixed::Addr("zs1qqqqqqqqqqqqqqqqqqqqqqqqqqqqqqqqqqqqqqqqqqqqqqqqqqqqqqqqqqqqqqqqqqqqqpq6d8g", Main, RawKind::Sapling([0; 43])),
        Fixed::Addr("ztestsapling1qqqqqqqqqqqqqqqqqqqqqqqqqqqqqqqqqqqqqqqqqqqqqqqqqqqqqqqqqqqqqqqqqqqqqfhgwqu", Test, RawKind::Sapling([0; 43])),
        Fixed::Addr("zregtestsapling1qqqqqqqqqqqqqqqqqqqqqqqqqqqqqqqqqqqqqqqqqqqqqqqqqqqqqqqqqqqqqqqqqqqqqknpr3m", Regtest, RawKind::Sapling([0; 43])),
        Fixed::Addr("u1qpatys4zruk99pg59gcscrt7y6akvl9vrhcfyhm9yxvxz7h87q6n8cgrzzpe9zru68uq39uhmlpp5uefxu0su5uqyqfe5zp3tycn0ecl", Main, ua0()),
        Fixed::Addr("utest10c5kutapazdnf8ztl3pu43nkfsjx89fy3uuff8tsmxm6s86j37pe7uz94z5jhkl49pqe8yz75rlsaygexk6jpaxwx0esjr8wm5ut7d5s", Test, ua0()),
        Fixed::Addr("uregtest15xk7vj4grjkay6mnfl93dhsflc2yeunhxwdh38rul0rq3dfhzzxgm5szjuvtqdha4t4p2q02ks0jgzrhjkrav70z9xlvq0plpcjkd5z3", Regtest, ua0()),
        Fixed::Addr("t1Hsc1LR8yKnbbe3twRp88p6vFfC5t7DLbs", Main, RawKind::P2pkh([0; 20])),
        Fixed::Addr("tm9iMLAuYMzJ6jtFLcA7rzUmfreGuKvr7Ma", Test, RawKind::P2pkh([0; 20])),
        Fixed::Addr("t3JZcvsuaXE6ygokL4XUiZSTrQBUoPYFnXJ", Main, RawKind::P2sh([0; 20])),
        Fixed::Addr("t26YoyZ1iPgiMEWL4zGUm74eVWfhyDMXzY2", Test, RawKind::P2sh([0; 20])),
        // ZIP 320 examples
        Fixed::TexPair("tex1s2rt77ggv6q989lr49rkgzmh5slsksa9khdgte", "t1VmmGiyjVNeCjxDZzg7vZmd99WyzVby9yC", Main),
        Fixed::TexPair("textest1qyqszqgpqyqszqgpqyqszqgpqyqszqgpfcjgfy", "tm9ofD7kHR7AF8MsJomEzLqGcrLCBkD9gDj", Test),
        Fixed::Jumble(
            b"The package from Alice arrives tomorrow morning.",
            "861c51ee746b0313476967a3483e7e1ff77a2952a17d3ed9e0ab0f502e1179430322da9967b613545b1c36353046ca27",
        ),
        Fixed::Jumble(
            b"The package from Sarah arrives tomorrow morning.",
            "af1d55f2695aea02440867bbbfae3b08e8da55b625de3fa91432ab7b2c0a7dff9033ee666db1513ba5761ef482919fb8",
        ),
    ];
    // all-zero Sapling / TEX payloads: one superfluous trailing group; non-zero padding bit
    v.push(Fixed::NonCanonical("zs1qqqqqqqqqqqqqqqqqqqqqqqqqqqqqqqqqqqqqqqqqqqqqqqqqqqqqqqqqqqqqqqqqqqqqqavej5n"));
    v.push(Fixed::NonCanonical("zs1qqqqqqqqqqqqqqqqqqqqqqqqqqqqqqqqqqqqqqqqqqqqqqqqqqqqqqqqqqqqqqqqqqqqpukwc66"));
    v.push(Fixed::NonCanonical("tex1qqqqqqqqqqqqqqqqqqqqqqqqqqqqqqqqqq2pfhe"));
    for i in 0..zcash_address::test_vectors::UNIFIED.len() {
        v.push(Fixed::Zip316(i));
    }
    v
}

fn check_fixed(f: &Fixed) -> CaseResult {
    match f {
        Fixed::Addr(s, net, kind) => {
            // the reference encoder must reproduce the published string (validates the oracle itself)
            vensure!(ref_encode_addr(*net, kind) == *s, "reference-self-check", "reference encoder gives {} for the published {s}", ref_encode_addr(*net, kind));
            let z = parse_z(s)?.map_err(|e| Fail::new("rejects-valid-address", format!("published address {s} rejected: {e:?}")))?;
            let (n, k) = split_z(&z)?;
            vensure!(n == *net && k == *kind, "parsed-value-differs", "{s} parsed as {n:?} {k:?}");
            vensure!(z.encode() == *s, "reencode-not-canonical", "{s} re-encodes as {}", z.encode());
            check_zaddr(&z, *net, kind, false)?;
            Ok(Obs::new(true).label("published-address"))
        }
        Fixed::Jumble(m, h) => {
            let want = hex::decode(h).unwrap();
            vensure!(ref_f4jumble(m) == want, "reference-self-check", "reference F4Jumble disagrees with the documented vector");
            vensure!(ref_f4jumble_inv(&want) == *m, "reference-self-check", "reference F4Jumble^-1 disagrees with the documented vector");
            vensure!(f4jumble::f4jumble(m).ok() == Some(want.clone()), "f4jumble-differs-from-zip316", "documented vector");
            vensure!(f4jumble::f4jumble_inv(&want).ok().as_deref() == Some(*m), "f4jumble-inv-differs-from-zip316", "documented vector");
            Ok(Obs::new(true).label("f4jumble-vector"))
        }
        Fixed::NonCanonical(s) => {
            vensure!(b32_decode(s).is_some_and(|(_, _, k)| k == BECH32_CONST || k == BECH32M_CONST), "reference-self-check", "{s} should carry a valid checksum");
            let sum = check_all_parsers(s)?;
            vensure!(sum.accepted_by.is_empty(), "accepts-invalid:simple-kind", "{s} accepted by {:?}", sum.accepted_by);
            Ok(Obs::new(true).label("non-canonical-padding"))
        }
        Fixed::TexPair(tex, p2pkh, net) => {
            let (hrp, fes, k) = b32_decode(tex).ok_or_else(|| Fail::new("reference-self-check", "cannot decode the published TEX string"))?;
            let data: [u8; 20] = fes_to_bytes_lossy(&fes).try_into().map_err(|_| Fail::new("reference-self-check", "TEX payload is not 20 bytes"))?;
            vensure!(k == BECH32M_CONST && hrp == HRP_TEX[net_idx(*net)], "reference-self-check", "published TEX string is not Bech32m/{hrp}");
            vensure!(ref_encode_addr(*net, &RawKind::Tex(data)) == *tex, "reference-self-check", "reference TEX encoder");
            vensure!(ref_encode_addr(*net, &RawKind::P2pkh(data)) == *p2pkh, "reference-self-check", "reference P2PKH encoder disagrees with the ZIP 320 pairing");
            for (s, kind) in [(*tex, RawKind::Tex(data)), (*p2pkh, RawKind::P2pkh(data))] {
                let z = parse_z(s)?.map_err(|e| Fail::new("rejects-valid-address", format!("published address {s} rejected: {e:?}")))?;
                check_zaddr(&z, *net, &kind, false)?;
            }
            Ok(Obs::new(true).label("published-address"))
        }
        Fixed::Zip316(i) => {
            let tv = &zcash_address::test_vectors::UNIFIED[*i];
            let mut items: Vec<RItem> = vec![];
            if let Some(d) = tv.p2pkh_bytes {
                items.push((0, d.to_vec()));
            }
            if let Some(d) = tv.p2sh_bytes {
                items.push((1, d.to_vec()));
            }
            if let Some(d) = tv.sapling_raw_addr {
                items.push((2, d.to_vec()));
            }
            if let Some(d) = tv.orchard_raw_addr {
                items.push((3, d.to_vec()));
            }
            if let (Some(t), Some(d)) = (tv.unknown_typecode, tv.unknown_bytes) {
                items.push((t, d.to_vec()));
            }
            items.sort_by_key(|(t, _)| *t);
            vensure!(ref_container_string("u", &items) == tv.unified_addr, "reference-self-check", "reference encoder disagrees with official ZIP 316 vector {i}");
            let payload = ref_f4jumble(&ref_container_msg("u", &items));
            vensure!(ref_container_verdict(CKind::Addr, "u", &payload).as_ref().ok() == Some(&items), "reference-self-check", "reference predicate rejects official vector {i}");
            let (n, ua) = catch(|| unified::Address::decode(tv.unified_addr))
                .map_err(|p| Fail::new("decode-panic", p))?
                .map_err(|e| Fail::new("rejects-valid-container", format!("official vector {i} rejected: {e:?}")))?;
            vensure!(n == NetworkType::Main && items_raw(&ua) == items, "parsed-items-differ", "official vector {i}");
            vensure!(ua.encode(&n) == tv.unified_addr, "reencode-not-canonical", "official vector {i}");
            Ok(Obs::new(true).label("zip316-vector").label_if(tv.unknown_typecode.is_some(), "with-unknown"))
        }
    }
}

/// Length boundaries of the container codec: index -> (message length, description).
fn boundary_lengths(thorough: bool) -> Vec<usize> {
    // "u" + '1' + ceil(8L/5) + 6 <= 4194368  <=>  L <= 2_621_475 (largest length the crate's
    // Bech32m code-length constant lets through); F4Jumble / ZIP 316 allow up to 4_194_368.
    let mut v = vec![17, 18, 40, 46, 47, 48, 49, 50, 64, 2_621_475, 2_621_476, 3_000_000, F4_MAX, F4_MAX + 1];
    if thorough {
        v.extend_from_slice(&[1_000_000, 2_000_000, 2_621_470, 2_621_480, 4_000_000, F4_MAX - 1, F4_MAX + 16]);
    }
    v
}

/// One unknown item (typecode 0xfffa) sized so that the message has exactly `total` bytes.
fn single_item_for_total(total: usize) -> Option<Vec<RItem>> {
    // 3 bytes typecode (0xfffa needs the fd form) + cs(len) + len + 16
    for lw in [1usize, 3, 5] {
        let Some(len) = total.checked_sub(3 + lw + 16) else { continue };
        if cs(len as u64).len() == lw {
            return Some(vec![(0xfffa, expand(0x5eed ^ total as u64, len))]);
        }
    }
    None
}

fn check_boundary(total: usize, encode_side: bool) -> CaseResult {
    let Some(items) = single_item_for_total(total) else {
        return Ok(Obs::trivial());
    };
    debug_assert_eq!(raw_len(&items), total);
    let zip316_valid = (F4_MIN..=F4_MAX).contains(&total);
    let mut obs = Obs::new(true)
        .key(2 * total as u64 + 1 + encode_side as u64)
        .label(if zip316_valid { "zip316-valid-length" } else { "zip316-invalid-length" })
        .label(if encode_side { "encode-side" } else { "decode-side" });
    let msg = ref_container_msg("u", &items);
    let payload = if zip316_valid { ref_f4jumble(&msg) } else { msg };
    let want = b32_encode("u", &payload, BECH32M_CONST);
    if !encode_side {
        // decoding the ZIP 316 string
        let b = Built { s: want, str_hrp: "u".into(), konst: BECH32M_CONST, payload, b32_noncanonical: false };
        let a = check_accept::<unified::Address>(&b)?;
        vensure!(a.accepted == zip316_valid, "harness-bug", "boundary verdict");
        match parse_z(&b.s)? {
            Ok(_) => vensure!(zip316_valid, "accepts-invalid:length-outside-f4jumble-range", "ZcashAddress accepted a {total}-byte container"),
            Err(e) => vensure!(!zip316_valid, "rejects-valid-container", "ZcashAddress rejected a valid {total}-byte container: {e:?}"),
        }
        return Ok(obs.label(if a.accepted { "accepted" } else { "rejected" }));
    }
    // encoding a container that try_from_items accepts
    let its = mk_items::<unified::Address>(&items).unwrap();
    let ua = unified::Address::try_from_items(its).map_err(|e| Fail::new("try-from-items-rejects-valid", format!("{e:?}")))?;
    match catch(|| ua.encode(&NetworkType::Main)) {
        Ok(s) => {
            vensure!(zip316_valid, "encode-outside-f4jumble-range", "encode produced a string for a {total}-byte message");
            vensure!(s == want, "encode-differs-from-spec", "{total}-byte container: crate string differs from ZIP 316 string");
            obs = obs.label("encode-ok");
        }
        Err(p) => {
            if zip316_valid {
                vfail!("encode-panics-on-zip316-valid-length", "unified::Address::encode panicked on a container accepted by try_from_items whose message is {total} bytes (inside ZIP 316's 48..=4194368): {}", short(&p));
            }
            // Outside the F4Jumble range no encoding exists; the crate signals that with an explicit
            // `panic!("f4jumble failed …")`: recorded, not flagged.
            obs = obs.label("encode-panics-outside-f4jumble-range");
        }
    }
    Ok(obs)
}

// ---------------------------------------------------------------------------------------------
// main
// ---------------------------------------------------------------------------------------------

fn main() {
    let ctx = Ctx::from_args("C10", "exploration");
    ctx.set_rule(
        "Cases are built structurally from generated specs (item sets with known + unknown typecodes up to 0x2000000, item \
         lengths 0..70000, three networks, three container kinds) and rendered by the harness's own encoder. Sub-checks: \
         published vectors; round trip of every address kind / container through the crate; acceptance <=> independent ZIP 316 \
         predicate on containers carrying (mostly) exactly one defect; acceptance of non-unified kinds; canonical form under \
         string mutations and on arbitrary strings; F4Jumble vs the ZIP 316 definition. Non-trivial = unified container with >=2 \
         items or >=1 unknown item, or a rejected string that differs from an accepted one by one rule / one mutation; distinct \
         = hash of the string under test.",
    );
    ctx.assume("ZIP 316 revision 0 as documented by the crate: typecodes 0x04..=0x2000000 (incl. 0xE0..0xFC and 0xFFFA..0xFFFF) are preserved as unknown items; unknown items count as non-transparent");
    ctx.assume("BIP 173 conversion rule (incomplete trailing group: at most 4 bits, all zero) defines canonical Bech32/Bech32m data; CompactSize must be minimal (Bitcoin rule)");
    ctx.assume("SHA-256, BLAKE2b and the Base58 alphabet are shared primitives; Bech32(m), F4Jumble, CompactSize, Base58Check framing and the ZIP 316 layout are re-implemented and validated against the 61 official ZIP 316 vectors and the rustdoc vectors");
    ctx.assume("encode() of a container whose message is shorter than 48 bytes is outside ZIP 316 (no encoding exists); the crate's explicit panic there is recorded, not flagged");
    let tier = ctx.tier;
    let thorough = tier == vcore::Tier::Thorough;
    let big = tier.pick(2u32, 6u32);

    // ---- fixed vectors ----
    {
        let cases = Arc::new(fixed_cases());
        let c2 = cases.clone();
        ctx.run_enum(
            "fixed-vectors",
            cases.len() as u64,
            true,
            move |i| check_fixed(&cases[i as usize]),
            move |i| match &c2[i as usize] {
                Fixed::Addr(s, n, _) => format!("published address {s} on {n:?}"),
                Fixed::Jumble(m, _) => format!("f4jumble rustdoc vector {:?}", String::from_utf8_lossy(m)),
                Fixed::Zip316(i) => format!("official ZIP 316 unified address vector #{i}"),
                Fixed::TexPair(t, p, _) => format!("ZIP 320 pair {t} / {p}"),
                Fixed::NonCanonical(s) => format!("non-canonical 5-bit padding: {s}"),
            },
        );
    }
    // ---- container length boundaries (decode side / encode side) ----
    {
        let lens = Arc::new(boundary_lengths(thorough));
        let l2 = lens.clone();
        ctx.run_enum(
            "length-boundaries",
            2 * lens.len() as u64,
            true,
            move |i| check_boundary(lens[(i / 2) as usize], i % 2 == 1),
            move |i| format!("single unknown item, message length {} bytes, {}", l2[(i / 2) as usize], if i % 2 == 1 { "try_from_items+encode" } else { "decode of the ZIP 316 string" }),
        );
    }
    // ---- f4jumble boundaries ----
    {
        let lens: Vec<usize> = vec![0, 1, 2, 47, 48, 49, 4_194_304, F4_MAX - 1, F4_MAX, F4_MAX + 1, F4_MAX + 64];
        let l2 = lens.clone();
        ctx.run_enum(
            "f4jumble-boundaries",
            2 * lens.len() as u64,
            true,
            move |i| check_f4jumble(lens[(i / 2) as usize], 2 + i % 2 * 0x1234_5678, 0x8000_0000, 3),
            move |i| format!("f4jumble message length {}", l2[(i / 2) as usize]),
        );
    }

    // ---- round trips ----
    ctx.run_prop(
        "roundtrip-zaddr",
        || (0u8..3, arb_raw_kind_spec(big)),
        tier.pick(80_000, 1_500_000),
        |(n, spec)| {
            let net = NETS[*n as usize];
            let kind = spec.kind();
            let z = build_zaddr(net, &kind)?;
            check_zaddr(&z, net, &kind, true)
        },
    );
    ctx.run_prop(
        "roundtrip-zaddr-crate-generator",
        || (0usize..3).prop_flat_map(|n| zcash_address::testing::arb_address(NETS[n]).prop_map(move |z| (n, z))),
        tier.pick(20_000, 600_000),
        |(n, z)| {
            let net = NETS[*n];
            let (n0, k0) = split_z(z)?;
            vensure_eq!(n0, net, "convert-net", "arb_address network");
            check_zaddr(z, net, &k0, false)
        },
    );
    ctx.run_prop(
        "roundtrip-containers",
        || (arb_base(arb_ckind(), big), any::<u64>()),
        tier.pick(80_000, 1_500_000),
        |(b, perm)| {
            let b = b.clone().valid_len();
            let items = b.items();
            match b.kind {
                CKind::Addr => check_container_roundtrip::<unified::Address>(b.net(), &items, *perm),
                CKind::Fvk => check_container_roundtrip::<unified::Ufvk>(b.net(), &items, *perm),
                CKind::Ivk => check_container_roundtrip::<unified::Uivk>(b.net(), &items, *perm),
            }
        },
    );
    ctx.run_prop(
        "try-from-items",
        || {
            (
                arb_base(arb_ckind(), 0),
                prop_oneof![
                    3 => Just(ComposeOp::Keep),
                    2 => any::<u64>().prop_map(ComposeOp::Shuffle),
                    2 => any::<u32>().prop_map(ComposeOp::Dup),
                    2 => Just(ComposeOp::BothTransparent),
                    2 => Just(ComposeOp::OnlyTransparent),
                    1 => Just(ComposeOp::Empty),
                ],
            )
        },
        tier.pick(30_000, 600_000),
        |(b, op)| {
            let items = compose_items(b, op);
            match b.kind {
                CKind::Addr => check_try_from_items::<unified::Address>(&items),
                CKind::Fvk => check_try_from_items::<unified::Ufvk>(&items),
                CKind::Ivk => check_try_from_items::<unified::Uivk>(&items),
            }
        },
    );
    ctx.run_prop("typed-roundtrip", arb_typed, tier.pick(5_000, 100_000), check_typed);

    // ---- acceptance = predicate ----
    ctx.run_prop(
        "container-acceptance",
        || (arb_base(arb_ckind(), 1), arb_defect()),
        tier.pick(200_000, 4_000_000),
        |(b, d)| check_acceptance_case(b, d),
    );
    ctx.run_prop("simple-acceptance", arb_simple, tier.pick(100_000, 2_000_000), check_simple);

    // ---- canonical form ----
    ctx.run_prop(
        "near-valid-strings",
        || {
            (
                prop_oneof![
                    3 => (0u8..3, arb_raw_kind_spec(1)).prop_map(|(n, k)| BaseString::Addr(n, k)),
                    1 => arb_base(prop_oneof![Just(CKind::Fvk), Just(CKind::Ivk)], 1).prop_map(|b| BaseString::Container(b.valid_len())),
                ],
                arb_mutation(),
            )
        },
        tier.pick(200_000, 4_000_000),
        |(b, m)| check_near_valid(b, m),
    );
    ctx.run_prop("arbitrary-strings", arb_string, tier.pick(150_000, 4_000_000), |s| {
        let sum = check_all_parsers(s)?;
        let accepted = !sum.accepted_by.is_empty();
        Ok(Obs::new(true)
            .key(hash64(s.as_bytes()))
            .label(if accepted { "accepted" } else { "rejected" })
            .label_if(b32_decode(s.trim()).is_some_and(|(_, _, k)| k == BECH32_CONST || k == BECH32M_CONST), "valid-bech32-checksum")
            .label_if(!s.is_ascii(), "non-ascii"))
    });

    // ---- f4jumble ----
    ctx.run_prop(
        "f4jumble",
        move || {
            let mut big_lens = vec![16_448usize, 16_449, 65_536];
            if thorough {
                big_lens.extend_from_slice(&[1 << 20, 2_000_000, F4_MAX - 1, F4_MAX]);
            }
            (
                prop_oneof![
                    6 => select(vec![48usize, 49, 63, 64, 65, 95, 96, 97, 127, 128, 129, 191, 192, 193, 255, 256, 257, 1000]),
                    6 => 48usize..2048,
                    1 => select(big_lens),
                    2 => select(vec![0usize, 1, 2, 16, 32, 46, 47]),
                ],
                arb_seed(),
                any::<u32>(),
                0u8..8,
            )
        },
        tier.pick(60_000, 300_000),
        |(len, seed, flip, bit)| check_f4jumble(*len, *seed, *flip, *bit),
    );

    // ---- generator health ----
    for l in ["sprout", "sapling", "p2pkh", "p2sh", "tex", "unified", "unified-with-unknown", "regtest-parsed-as-test"] {
        ctx.require_label_fraction("roundtrip-zaddr", l, 0.03);
    }
    for l in ["address", "ufvk", "uivk", "with-unknown"] {
        ctx.require_label_fraction("roundtrip-containers", l, 0.10);
    }
    for l in ["typecode>=253", "typecode>=65536", "typecode=max", "item-len>=253", "unknown-only", "longer-than-bip173-limit"] {
        ctx.require_min_count("roundtrip-containers", l, 100);
    }
    ctx.require_min_count("roundtrip-containers", "item-len>=65536", 20);
    ctx.require_label_fraction("container-acceptance", "accepted", 0.12);
    ctx.require_label_fraction("container-acceptance", "rejected", 0.40);
    for r in [
        Rej::Variant,
        Rej::UnknownHrp,
        Rej::Length,
        Rej::Padding,
        Rej::CsNonCanonical,
        Rej::Truncated,
        Rej::TypecodeRange,
        Rej::KnownLen,
        Rej::P2shInViewingKey,
        Rej::Order,
        Rej::Duplicate,
        Rej::BothTransparent,
        Rej::OnlyTransparent,
    ] {
        ctx.require_min_count("container-acceptance", r.label(), 200);
    }
    ctx.require_min_count("container-acceptance", "accepted-with-unknown", 2_000);
    ctx.require_min_count("container-acceptance", "accepted-unknown-only", 100);
    for l in ["accepted", "rejected"] {
        ctx.require_label_fraction("try-from-items", l, 0.2);
        ctx.require_label_fraction("near-valid-strings", l, 0.05);
    }
    ctx.require_label_fraction("simple-acceptance", "accepted", 0.15);
    for l in ["sprout", "sapling", "p2pkh", "p2sh", "tex"] {
        ctx.require_label_fraction("simple-acceptance", l, 0.01);
    }
    ctx.require_label_fraction("simple-acceptance", "rejected:invalid-encoding", 0.05);
    ctx.require_label_fraction("simple-acceptance", "rejected:not-zcash", 0.05);
    for l in ["sapling", "p2pkh", "p2sh", "tex", "unified", "unified-with-unknown", "viewing-keys"] {
        ctx.require_label_fraction("typed-roundtrip", l, 0.05);
    }
    ctx.require_label_fraction("arbitrary-strings", "valid-bech32-checksum", 0.1);
    ctx.require_min_count("arbitrary-strings", "accepted", 10);
    ctx.require_label_fraction("f4jumble", "invalid-length", 0.05);
    ctx.require_label_fraction("f4jumble", "boundary-length", 0.1);

    ctx.extra(
        "reference_model",
        json!({
            "validated_against": "61 official ZIP 316 unified address vectors (zcash_address::test_vectors::UNIFIED), published address strings from the protocol spec / ZIP 320 pairing, f4jumble rustdoc vectors",
            "zip316_revision": 0,
            "container_kinds": CKINDS.iter().map(|k| k.name()).collect::<Vec<_>>(),
        }),
    );
    // coverage-guided byte-level campaign (libFuzzer target `zaddr_parse`, oracle inside the target)
    ctx.run_fuzz("zaddr_parse", ctx.tier.pick(500_000, 10_000_000), ctx.tier.pick(4, 16), 2048);
    ctx.finish();
}

//! Independent walker over the wire encoding of a Zcash transaction (v1..v6).
//!
//! Written from the protocol specification §7.1 (transaction encoding), ZIP 225 (v5) and, for v6,
//! from the rustdoc of `Transaction::write_v6` (v5 layout followed by a second Orchard-shaped
//! bundle for the Ironwood pool). It attributes every byte of the encoding to a named field and
//! refuses trailing or missing bytes. Nothing of the code under test is used here.

use std::ops::Range;

pub type R = Range<usize>;

#[derive(Clone, Copy, Debug, PartialEq, Eq)]
pub enum Ver {
    /// Non-overwintered; payload is the version number (1 or 2 are defined).
    Sprout(u32),
    V3,
    V4,
    V5,
    V6,
}

impl Ver {
    pub fn name(self) -> &'static str {
        match self {
            Ver::Sprout(1) => "v1",
            Ver::Sprout(_) => "v2",
            Ver::V3 => "v3",
            Ver::V4 => "v4",
            Ver::V5 => "v5",
            Ver::V6 => "v6",
        }
    }
    pub fn zip244(self) -> bool {
        matches!(self, Ver::V5 | Ver::V6)
    }
}

pub const V3_VGID: u32 = 0x03C4_8270;
pub const V4_VGID: u32 = 0x892F_2085;
pub const V5_VGID: u32 = 0x26A7_270A;
/// ZIP 229 (as finalised in this repository: `V6_VERSION_GROUP_ID`).
pub const V6_VGID: u32 = 0xD884_B698;

#[derive(Clone, Debug)]
pub struct InL {
    pub prev_hash: R,
    pub prev_n: R,
    /// CompactSize prefix + script bytes (the "field encoding" of the script).
    pub script_field: R,
    pub script: R,
    pub sequence: R,
}

#[derive(Clone, Debug)]
pub struct OutL {
    pub value: R,
    pub script_field: R,
    pub script: R,
}

#[derive(Clone, Debug)]
pub struct SpendL {
    pub cv: R,
    /// v4: per-spend anchor. v5+: `None` (the bundle carries one shared anchor).
    pub anchor: Option<R>,
    pub nf: R,
    pub rk: R,
    pub proof: R,
    pub sig: R,
}

#[derive(Clone, Debug)]
pub struct SOutL {
    pub cv: R,
    pub cmu: R,
    pub epk: R,
    pub enc: R,
    pub out: R,
    pub proof: R,
}

#[derive(Clone, Debug, Default)]
pub struct SaplingL {
    pub value_balance: Option<R>,
    pub shared_anchor: Option<R>,
    pub spends: Vec<SpendL>,
    pub outputs: Vec<SOutL>,
    pub binding_sig: Option<R>,
}

#[derive(Clone, Debug)]
pub struct ActL {
    pub cv: R,
    pub nf: R,
    pub rk: R,
    pub cmx: R,
    pub epk: R,
    pub enc: R,
    pub out: R,
    pub sig: R,
}

#[derive(Clone, Debug)]
pub struct OrchL {
    pub actions: Vec<ActL>,
    pub flags: R,
    pub value_balance: R,
    pub anchor: R,
    pub proof: R,
    pub binding_sig: R,
}

#[derive(Clone, Debug)]
pub struct Layout {
    pub ver: Ver,
    pub header: R,
    pub vgid: Option<R>,
    pub branch: Option<R>,
    pub lock_time: R,
    pub expiry: Option<R>,
    pub vin: Vec<InL>,
    pub vout: Vec<OutL>,
    pub sapling: SaplingL,
    pub joinsplits: Vec<R>,
    pub js_pubkey: Option<R>,
    pub js_sig: Option<R>,
    pub orchard: Option<OrchL>,
    pub ironwood: Option<OrchL>,
}

struct Cur<'a> {
    b: &'a [u8],
    pos: usize,
}

impl<'a> Cur<'a> {
    fn take(&mut self, n: usize) -> Result<R, String> {
        if self.b.len() - self.pos < n {
            return Err(format!("truncated: need {n} bytes at offset {} of {}", self.pos, self.b.len()));
        }
        let r = self.pos..self.pos + n;
        self.pos += n;
        Ok(r)
    }
    fn u32(&mut self) -> Result<(u32, R), String> {
        let r = self.take(4)?;
        Ok((u32::from_le_bytes(self.b[r.clone()].try_into().unwrap()), r))
    }
    /// Canonical CompactSize; returns (value, range of the prefix bytes).
    fn compact(&mut self) -> Result<(u64, R), String> {
        let start = self.pos;
        let f = self.b[self.take(1)?][0];
        let v = match f {
            0..=252 => f as u64,
            253 => {
                let r = self.take(2)?;
                let v = u16::from_le_bytes(self.b[r].try_into().unwrap()) as u64;
                if v < 253 {
                    return Err("non-canonical CompactSize".into());
                }
                v
            }
            254 => {
                let r = self.take(4)?;
                let v = u32::from_le_bytes(self.b[r].try_into().unwrap()) as u64;
                if v <= 0xffff {
                    return Err("non-canonical CompactSize".into());
                }
                v
            }
            255 => {
                let r = self.take(8)?;
                let v = u64::from_le_bytes(self.b[r].try_into().unwrap());
                if v <= 0xffff_ffff {
                    return Err("non-canonical CompactSize".into());
                }
                v
            }
        };
        if v > 0x0200_0000 {
            return Err("CompactSize above MAX_SIZE".into());
        }
        Ok((v, start..self.pos))
    }
    fn script(&mut self) -> Result<(R, R), String> {
        let (n, pre) = self.compact()?;
        let s = self.take(n as usize)?;
        Ok((pre.start..s.end, s))
    }
}

fn transparent(c: &mut Cur<'_>) -> Result<(Vec<InL>, Vec<OutL>), String> {
    let (n_in, _) = c.compact()?;
    let mut vin = vec![];
    for _ in 0..n_in {
        let prev_hash = c.take(32)?;
        let prev_n = c.take(4)?;
        let (script_field, script) = c.script()?;
        let sequence = c.take(4)?;
        vin.push(InL {
            prev_hash,
            prev_n,
            script_field,
            script,
            sequence,
        });
    }
    let (n_out, _) = c.compact()?;
    let mut vout = vec![];
    for _ in 0..n_out {
        let value = c.take(8)?;
        let (script_field, script) = c.script()?;
        vout.push(OutL {
            value,
            script_field,
            script,
        });
    }
    Ok((vin, vout))
}

fn joinsplits(c: &mut Cur<'_>, groth: bool) -> Result<(Vec<R>, Option<R>, Option<R>), String> {
    let (n, _) = c.compact()?;
    // vpub_old 8, vpub_new 8, anchor 32, nullifiers 2x32, commitments 2x32, ephemeralKey 32,
    // randomSeed 32, vmacs 2x32, zkproof (296 BCTV14 | 192 Groth16), encCiphertexts 2x601
    let sz = 8 + 8 + 32 + 64 + 64 + 32 + 32 + 64 + if groth { 192 } else { 296 } + 2 * 601;
    let mut v = vec![];
    for _ in 0..n {
        v.push(c.take(sz)?);
    }
    if n > 0 {
        let pk = c.take(32)?;
        let sig = c.take(64)?;
        Ok((v, Some(pk), Some(sig)))
    } else {
        Ok((v, None, None))
    }
}

fn orchard_shaped(c: &mut Cur<'_>) -> Result<Option<OrchL>, String> {
    let (n, _) = c.compact()?;
    if n == 0 {
        return Ok(None);
    }
    let mut acts = vec![];
    for _ in 0..n {
        let cv = c.take(32)?;
        let nf = c.take(32)?;
        let rk = c.take(32)?;
        let cmx = c.take(32)?;
        let epk = c.take(32)?;
        let enc = c.take(580)?;
        let out = c.take(80)?;
        acts.push(ActL {
            cv,
            nf,
            rk,
            cmx,
            epk,
            enc,
            out,
            sig: 0..0,
        });
    }
    let flags = c.take(1)?;
    let value_balance = c.take(8)?;
    let anchor = c.take(32)?;
    let (plen, _) = c.compact()?;
    let proof = c.take(plen as usize)?;
    for a in acts.iter_mut() {
        a.sig = c.take(64)?;
    }
    let binding_sig = c.take(64)?;
    Ok(Some(OrchL {
        actions: acts,
        flags,
        value_balance,
        anchor,
        proof,
        binding_sig,
    }))
}

/// Walks a complete transaction encoding.
pub fn walk(b: &[u8]) -> Result<Layout, String> {
    let mut c = Cur { b, pos: 0 };
    let (h, header) = c.u32()?;
    let overwintered = h >> 31 == 1;
    let vnum = h & 0x7fff_ffff;
    let mut vgid = None;
    let ver = if overwintered {
        let (g, r) = c.u32()?;
        vgid = Some(r);
        match (vnum, g) {
            (3, V3_VGID) => Ver::V3,
            (4, V4_VGID) => Ver::V4,
            (5, V5_VGID) => Ver::V5,
            (6, V6_VGID) => Ver::V6,
            _ => return Err(format!("unknown overwintered version {vnum} / group {g:#x}")),
        }
    } else if vnum >= 1 {
        Ver::Sprout(vnum)
    } else {
        return Err("version 0".into());
    };
    let mut l = Layout {
        ver,
        header,
        vgid,
        branch: None,
        lock_time: 0..0,
        expiry: None,
        vin: vec![],
        vout: vec![],
        sapling: SaplingL::default(),
        joinsplits: vec![],
        js_pubkey: None,
        js_sig: None,
        orchard: None,
        ironwood: None,
    };
    match ver {
        Ver::Sprout(_) | Ver::V3 | Ver::V4 => {
            let (vin, vout) = transparent(&mut c)?;
            l.vin = vin;
            l.vout = vout;
            l.lock_time = c.take(4)?;
            if ver != Ver::Sprout(vnum) {
                l.expiry = Some(c.take(4)?);
            }
            if ver == Ver::V4 {
                l.sapling.value_balance = Some(c.take(8)?);
                let (ns, _) = c.compact()?;
                for _ in 0..ns {
                    let cv = c.take(32)?;
                    let anchor = c.take(32)?;
                    let nf = c.take(32)?;
                    let rk = c.take(32)?;
                    let proof = c.take(192)?;
                    let sig = c.take(64)?;
                    l.sapling.spends.push(SpendL {
                        cv,
                        anchor: Some(anchor),
                        nf,
                        rk,
                        proof,
                        sig,
                    });
                }
                let (no, _) = c.compact()?;
                for _ in 0..no {
                    let cv = c.take(32)?;
                    let cmu = c.take(32)?;
                    let epk = c.take(32)?;
                    let enc = c.take(580)?;
                    let out = c.take(80)?;
                    let proof = c.take(192)?;
                    l.sapling.outputs.push(SOutL {
                        cv,
                        cmu,
                        epk,
                        enc,
                        out,
                        proof,
                    });
                }
            }
            let has_js = match ver {
                Ver::Sprout(v) => v >= 2,
                _ => true,
            };
            if has_js {
                let (v, pk, sig) = joinsplits(&mut c, ver == Ver::V4)?;
                l.joinsplits = v;
                l.js_pubkey = pk;
                l.js_sig = sig;
            }
            if ver == Ver::V4 && !(l.sapling.spends.is_empty() && l.sapling.outputs.is_empty()) {
                l.sapling.binding_sig = Some(c.take(64)?);
            }
        }
        Ver::V5 | Ver::V6 => {
            l.branch = Some(c.take(4)?);
            l.lock_time = c.take(4)?;
            l.expiry = Some(c.take(4)?);
            let (vin, vout) = transparent(&mut c)?;
            l.vin = vin;
            l.vout = vout;
            let (ns, _) = c.compact()?;
            for _ in 0..ns {
                let cv = c.take(32)?;
                let nf = c.take(32)?;
                let rk = c.take(32)?;
                l.sapling.spends.push(SpendL {
                    cv,
                    anchor: None,
                    nf,
                    rk,
                    proof: 0..0,
                    sig: 0..0,
                });
            }
            let (no, _) = c.compact()?;
            for _ in 0..no {
                let cv = c.take(32)?;
                let cmu = c.take(32)?;
                let epk = c.take(32)?;
                let enc = c.take(580)?;
                let out = c.take(80)?;
                l.sapling.outputs.push(SOutL {
                    cv,
                    cmu,
                    epk,
                    enc,
                    out,
                    proof: 0..0,
                });
            }
            if ns + no > 0 {
                l.sapling.value_balance = Some(c.take(8)?);
            }
            if ns > 0 {
                l.sapling.shared_anchor = Some(c.take(32)?);
            }
            for s in l.sapling.spends.iter_mut() {
                s.proof = c.take(192)?;
            }
            for s in l.sapling.spends.iter_mut() {
                s.sig = c.take(64)?;
            }
            for o in l.sapling.outputs.iter_mut() {
                o.proof = c.take(192)?;
            }
            if ns + no > 0 {
                l.sapling.binding_sig = Some(c.take(64)?);
            }
            l.orchard = orchard_shaped(&mut c)?;
            if ver == Ver::V6 {
                l.ironwood = orchard_shaped(&mut c)?;
            }
        }
    }
    if c.pos != b.len() {
        return Err(format!("{} trailing bytes after the transaction", b.len() - c.pos));
    }
    Ok(l)
}

/// Encodes a CompactSize (canonical).
pub fn compact_size(v: u64, out: &mut Vec<u8>) {
    if v < 253 {
        out.push(v as u8);
    } else if v <= 0xffff {
        out.push(253);
        out.extend_from_slice(&(v as u16).to_le_bytes());
    } else if v <= 0xffff_ffff {
        out.push(254);
        out.extend_from_slice(&(v as u32).to_le_bytes());
    } else {
        out.push(255);
        out.extend_from_slice(&v.to_le_bytes());
    }
}

//! Independent reference for transaction digests.
//!
//! * `zip244`: ZIP 244 (v5) txid / auth digest / signature digest, written from the ZIP text.
//! * the v6 variant as documented in this repository (ZIP 229 draft; rustdoc of
//!   `transaction::txid` and of `orchard::bundle::commitments`): shielded anchors move from the
//!   txid digests to the authorising digests, `_v6` personalisations for the nodes whose content
//!   changed, a fifth (Ironwood) digest with its own personalisations.
//! * ZIP 143 / ZIP 243 signature hashes for v3 / v4, and sha256d txids for v1..v4.
//!
//! Input is the plain-data `Fields` record. Shared with the code under test: the BLAKE2b and
//! SHA-256 primitives only.

use crate::layout::{compact_size, Layout, Ver};

#[derive(Clone, Debug, PartialEq, Eq)]
pub struct FIn {
    pub prev_hash: [u8; 32],
    pub prev_n: u32,
    pub script_sig: Vec<u8>,
    pub sequence: u32,
}

#[derive(Clone, Debug, PartialEq, Eq)]
pub struct FOut {
    pub value: u64,
    pub script: Vec<u8>,
}

#[derive(Clone, Debug, PartialEq, Eq)]
pub struct FSpend {
    pub cv: [u8; 32],
    pub anchor: [u8; 32],
    pub nf: [u8; 32],
    pub rk: [u8; 32],
    pub proof: Vec<u8>,
    pub sig: Vec<u8>,
}

#[derive(Clone, Debug, PartialEq, Eq)]
pub struct FSOut {
    pub cv: [u8; 32],
    pub cmu: [u8; 32],
    pub epk: [u8; 32],
    pub enc: Vec<u8>,
    pub out: Vec<u8>,
    pub proof: Vec<u8>,
}

#[derive(Clone, Debug, PartialEq, Eq)]
pub struct FAct {
    pub cv: [u8; 32],
    pub nf: [u8; 32],
    pub rk: [u8; 32],
    pub cmx: [u8; 32],
    pub epk: [u8; 32],
    pub enc: Vec<u8>,
    pub out: Vec<u8>,
    pub sig: Vec<u8>,
}

#[derive(Clone, Debug, PartialEq, Eq)]
pub struct FOrch {
    pub actions: Vec<FAct>,
    pub flags: u8,
    pub value_balance: i64,
    pub anchor: [u8; 32],
    pub proof: Vec<u8>,
    pub binding_sig: Vec<u8>,
}

#[derive(Clone, Debug, PartialEq, Eq)]
pub struct Fields {
    pub ver: Ver,
    pub header: u32,
    pub vgid: u32,
    /// Consensus branch id: serialised for v5+, external context for v1..v4.
    pub branch: u32,
    pub lock_time: u32,
    pub expiry: u32,
    pub vin: Vec<FIn>,
    pub vout: Vec<FOut>,
    pub sapling_vb: i64,
    pub spends: Vec<FSpend>,
    pub outputs: Vec<FSOut>,
    pub sapling_binding_sig: Option<Vec<u8>>,
    pub joinsplits: Vec<Vec<u8>>,
    pub js_pubkey: Option<[u8; 32]>,
    pub js_sig: Option<Vec<u8>>,
    pub orchard: Option<FOrch>,
    pub ironwood: Option<FOrch>,
}

fn a32(b: &[u8]) -> [u8; 32] {
    b.try_into().unwrap()
}
fn u32le(b: &[u8]) -> u32 {
    u32::from_le_bytes(b.try_into().unwrap())
}
fn i64le(b: &[u8]) -> i64 {
    i64::from_le_bytes(b.try_into().unwrap())
}

impl Fields {
    /// Extracts the field values from an encoding by the walker's attribution.
    /// `external_branch` is used for v1..v4 (not serialised there).
    pub fn from_layout(b: &[u8], l: &Layout, external_branch: u32) -> Fields {
        let orch = |o: &crate::layout::OrchL| FOrch {
            actions: o
                .actions
                .iter()
                .map(|a| FAct {
                    cv: a32(&b[a.cv.clone()]),
                    nf: a32(&b[a.nf.clone()]),
                    rk: a32(&b[a.rk.clone()]),
                    cmx: a32(&b[a.cmx.clone()]),
                    epk: a32(&b[a.epk.clone()]),
                    enc: b[a.enc.clone()].to_vec(),
                    out: b[a.out.clone()].to_vec(),
                    sig: b[a.sig.clone()].to_vec(),
                })
                .collect(),
            flags: b[o.flags.start],
            value_balance: i64le(&b[o.value_balance.clone()]),
            anchor: a32(&b[o.anchor.clone()]),
            proof: b[o.proof.clone()].to_vec(),
            binding_sig: b[o.binding_sig.clone()].to_vec(),
        };
        Fields {
            ver: l.ver,
            header: u32le(&b[l.header.clone()]),
            vgid: l.vgid.as_ref().map(|r| u32le(&b[r.clone()])).unwrap_or(0),
            branch: l.branch.as_ref().map(|r| u32le(&b[r.clone()])).unwrap_or(external_branch),
            lock_time: u32le(&b[l.lock_time.clone()]),
            expiry: l.expiry.as_ref().map(|r| u32le(&b[r.clone()])).unwrap_or(0),
            vin: l
                .vin
                .iter()
                .map(|i| FIn {
                    prev_hash: a32(&b[i.prev_hash.clone()]),
                    prev_n: u32le(&b[i.prev_n.clone()]),
                    script_sig: b[i.script.clone()].to_vec(),
                    sequence: u32le(&b[i.sequence.clone()]),
                })
                .collect(),
            vout: l
                .vout
                .iter()
                .map(|o| FOut {
                    value: u64::from_le_bytes(b[o.value.clone()].try_into().unwrap()),
                    script: b[o.script.clone()].to_vec(),
                })
                .collect(),
            sapling_vb: l.sapling.value_balance.as_ref().map(|r| i64le(&b[r.clone()])).unwrap_or(0),
            spends: l
                .sapling
                .spends
                .iter()
                .map(|s| FSpend {
                    cv: a32(&b[s.cv.clone()]),
                    anchor: a32(&b[s.anchor.clone().or(l.sapling.shared_anchor.clone()).expect("anchor")]),
                    nf: a32(&b[s.nf.clone()]),
                    rk: a32(&b[s.rk.clone()]),
                    proof: b[s.proof.clone()].to_vec(),
                    sig: b[s.sig.clone()].to_vec(),
                })
                .collect(),
            outputs: l
                .sapling
                .outputs
                .iter()
                .map(|o| FSOut {
                    cv: a32(&b[o.cv.clone()]),
                    cmu: a32(&b[o.cmu.clone()]),
                    epk: a32(&b[o.epk.clone()]),
                    enc: b[o.enc.clone()].to_vec(),
                    out: b[o.out.clone()].to_vec(),
                    proof: b[o.proof.clone()].to_vec(),
                })
                .collect(),
            sapling_binding_sig: l.sapling.binding_sig.as_ref().map(|r| b[r.clone()].to_vec()),
            joinsplits: l.joinsplits.iter().map(|r| b[r.clone()].to_vec()).collect(),
            js_pubkey: l.js_pubkey.as_ref().map(|r| a32(&b[r.clone()])),
            js_sig: l.js_sig.as_ref().map(|r| b[r.clone()].to_vec()),
            orchard: l.orchard.as_ref().map(orch),
            ironwood: l.ironwood.as_ref().map(orch),
        }
    }

    /// Names of the top-level members in which two records differ (for messages).
    pub fn diff(&self, o: &Fields) -> String {
        let mut v: Vec<&str> = vec![];
        macro_rules! d {
            ($f:ident) => {
                if self.$f != o.$f {
                    v.push(stringify!($f));
                }
            };
        }
        d!(ver);
        d!(header);
        d!(vgid);
        d!(branch);
        d!(lock_time);
        d!(expiry);
        d!(vin);
        d!(vout);
        d!(sapling_vb);
        d!(spends);
        d!(outputs);
        d!(sapling_binding_sig);
        d!(joinsplits);
        d!(js_pubkey);
        d!(js_sig);
        d!(orchard);
        d!(ironwood);
        v.join(",")
    }

    /// "Coinbase" in the sense of the consensus rules: exactly one transparent input, whose
    /// prevout is null (all-zero hash, index 2^32-1).
    pub fn is_coinbase(&self) -> bool {
        self.vin.len() == 1 && self.vin[0].prev_hash == [0u8; 32] && self.vin[0].prev_n == u32::MAX
    }
}

// ---------------------------------------------------------------------------------------------
// primitives
// ---------------------------------------------------------------------------------------------

pub type H = [u8; 32];

struct B2(blake2b_simd::State);

fn b2(personal: &[u8]) -> B2 {
    assert_eq!(personal.len(), 16, "BLAKE2b personalisation must be 16 bytes: {:?}", personal);
    B2(blake2b_simd::Params::new().hash_length(32).personal(personal).to_state())
}

impl B2 {
    fn up(&mut self, d: &[u8]) -> &mut Self {
        self.0.update(d);
        self
    }
    fn fin(&self) -> H {
        self.0.finalize().as_bytes().try_into().unwrap()
    }
}

fn with_branch(prefix: &[u8; 12], branch: u32) -> [u8; 16] {
    let mut p = [0u8; 16];
    p[..12].copy_from_slice(prefix);
    p[12..].copy_from_slice(&branch.to_le_bytes());
    p
}

pub fn sha256d(d: &[u8]) -> H {
    use sha2::{Digest, Sha256};
    let a = Sha256::digest(d);
    let b = Sha256::digest(a);
    b.into()
}

fn script_field(s: &[u8], out: &mut Vec<u8>) {
    compact_size(s.len() as u64, out);
    out.extend_from_slice(s);
}

// ---------------------------------------------------------------------------------------------
// Hash types and signable inputs
// ---------------------------------------------------------------------------------------------

pub const SIGHASH_ALL: u8 = 0x01;
pub const SIGHASH_NONE: u8 = 0x02;
pub const SIGHASH_SINGLE: u8 = 0x03;
pub const SIGHASH_ANYONECANPAY: u8 = 0x80;

/// The six hash types that are valid under ZIP 244.
pub const HASH_TYPES: [u8; 6] = [0x01, 0x02, 0x03, 0x81, 0x82, 0x83];

pub fn hash_type_name(h: u8) -> &'static str {
    match h {
        0x01 => "ALL",
        0x02 => "NONE",
        0x03 => "SINGLE",
        0x81 => "ALL|ANYONECANPAY",
        0x82 => "NONE|ANYONECANPAY",
        0x83 => "SINGLE|ANYONECANPAY",
        _ => "?",
    }
}

#[derive(Clone, Debug, PartialEq, Eq)]
pub struct Coin {
    pub value: u64,
    pub script: Vec<u8>,
}

#[derive(Clone, Copy, Debug, PartialEq, Eq)]
pub enum Signable {
    Shielded,
    /// (input index, hash type)
    Input(usize, u8),
}

// ---------------------------------------------------------------------------------------------
// ZIP 244 / v6 variant
// ---------------------------------------------------------------------------------------------

/// Personalisations of one Orchard-shaped bundle digest tree.
struct OrchPers {
    bundle: &'static [u8],
    compact: &'static [u8],
    memos: &'static [u8],
    noncompact: &'static [u8],
    auth: &'static [u8],
    /// anchor committed by the txid digest (v5) or by the auth digest (v6)
    anchor_in_txid: bool,
}

const ORCH_V5: OrchPers = OrchPers {
    bundle: b"ZTxIdOrchardHash",
    compact: b"ZTxIdOrcActCHash",
    memos: b"ZTxIdOrcActMHash",
    noncompact: b"ZTxIdOrcActNHash",
    auth: b"ZTxAuthOrchaHash",
    anchor_in_txid: true,
};
const ORCH_V6: OrchPers = OrchPers {
    bundle: b"ZTxIdOrchardH_v6",
    compact: b"ZTxIdOrcActCHash",
    memos: b"ZTxIdOrcActMHash",
    noncompact: b"ZTxIdOrcActNHash",
    auth: b"ZTxAuthOrchaH_v6",
    anchor_in_txid: false,
};
const IRONWOOD_V6: OrchPers = OrchPers {
    bundle: b"ZTxIdIronwd_H_v6",
    compact: b"ZTxIdIrnActCH_v6",
    memos: b"ZTxIdIrnActMH_v6",
    noncompact: b"ZTxIdIrnActNH_v6",
    auth: b"ZTxAuthIrnwdH_v6",
    anchor_in_txid: false,
};

/// T.1 header_digest
fn header_digest(f: &Fields) -> H {
    let mut h = b2(b"ZTxIdHeadersHash");
    h.up(&f.header.to_le_bytes())
        .up(&f.vgid.to_le_bytes())
        .up(&f.branch.to_le_bytes())
        .up(&f.lock_time.to_le_bytes())
        .up(&f.expiry.to_le_bytes());
    h.fin()
}

/// T.2a
fn prevouts_digest(vin: &[FIn]) -> H {
    let mut h = b2(b"ZTxIdPrevoutHash");
    for i in vin {
        h.up(&i.prev_hash).up(&i.prev_n.to_le_bytes());
    }
    h.fin()
}
/// T.2b
fn sequence_digest(vin: &[FIn]) -> H {
    let mut h = b2(b"ZTxIdSequencHash");
    for i in vin {
        h.up(&i.sequence.to_le_bytes());
    }
    h.fin()
}
/// T.2c
fn outputs_digest<'a>(vout: impl Iterator<Item = &'a FOut>) -> H {
    let mut h = b2(b"ZTxIdOutputsHash");
    for o in vout {
        let mut e = o.value.to_le_bytes().to_vec();
        script_field(&o.script, &mut e);
        h.up(&e);
    }
    h.fin()
}
/// T.2 transparent_digest
fn transparent_digest(f: &Fields) -> H {
    let mut h = b2(b"ZTxIdTranspaHash");
    if !(f.vin.is_empty() && f.vout.is_empty()) {
        h.up(&prevouts_digest(&f.vin)).up(&sequence_digest(&f.vin)).up(&outputs_digest(f.vout.iter()));
    }
    h.fin()
}

/// T.3 sapling_digest. `v6`: spends' non-compact digest omits the anchor and is re-personalised.
fn sapling_digest(f: &Fields, v6: bool) -> H {
    let mut h = b2(b"ZTxIdSaplingHash");
    if !(f.spends.is_empty() && f.outputs.is_empty()) {
        // T.3a
        let mut sh = b2(b"ZTxIdSSpendsHash");
        if !f.spends.is_empty() {
            let mut ch = b2(b"ZTxIdSSpendCHash");
            let mut nh = b2(if v6 { b"ZTxIdSSpendNH_v6" } else { b"ZTxIdSSpendNHash" });
            for s in &f.spends {
                ch.up(&s.nf);
                nh.up(&s.cv);
                if !v6 {
                    nh.up(&s.anchor);
                }
                nh.up(&s.rk);
            }
            sh.up(&ch.fin()).up(&nh.fin());
        }
        // T.3b
        let mut oh = b2(b"ZTxIdSOutputHash");
        if !f.outputs.is_empty() {
            let mut ch = b2(b"ZTxIdSOutC__Hash");
            let mut mh = b2(b"ZTxIdSOutM__Hash");
            let mut nh = b2(b"ZTxIdSOutN__Hash");
            for o in &f.outputs {
                ch.up(&o.cmu).up(&o.epk).up(&o.enc[..52]);
                mh.up(&o.enc[52..564]);
                nh.up(&o.cv).up(&o.enc[564..]).up(&o.out);
            }
            oh.up(&ch.fin()).up(&mh.fin()).up(&nh.fin());
        }
        h.up(&sh.fin()).up(&oh.fin()).up(&f.sapling_vb.to_le_bytes());
    }
    h.fin()
}

/// T.4 orchard_digest (and the Orchard-shaped v6 digests).
fn orchard_digest(o: Option<&FOrch>, p: &OrchPers) -> H {
    let mut h = b2(p.bundle);
    if let Some(o) = o {
        let mut ch = b2(p.compact);
        let mut mh = b2(p.memos);
        let mut nh = b2(p.noncompact);
        for a in &o.actions {
            ch.up(&a.nf).up(&a.cmx).up(&a.epk).up(&a.enc[..52]);
            mh.up(&a.enc[52..564]);
            nh.up(&a.cv).up(&a.rk).up(&a.enc[564..]).up(&a.out);
        }
        h.up(&ch.fin()).up(&mh.fin()).up(&nh.fin()).up(&[o.flags]).up(&o.value_balance.to_le_bytes());
        if p.anchor_in_txid {
            h.up(&o.anchor);
        }
    }
    h.fin()
}

fn combine_txid(f: &Fields, transparent: &H) -> H {
    let v6 = f.ver == Ver::V6;
    let mut h = b2(&with_branch(b"ZcashTxHash_", f.branch));
    h.up(&header_digest(f)).up(transparent).up(&sapling_digest(f, v6));
    if v6 {
        h.up(&orchard_digest(f.orchard.as_ref(), &ORCH_V6));
        h.up(&orchard_digest(f.ironwood.as_ref(), &IRONWOOD_V6));
    } else {
        h.up(&orchard_digest(f.orchard.as_ref(), &ORCH_V5));
    }
    h.fin()
}

/// ZIP 244 txid digest (v5) / its v6 variant.
pub fn txid(f: &Fields) -> H {
    assert!(f.ver.zip244());
    combine_txid(f, &transparent_digest(f))
}

fn orchard_auth_digest(o: Option<&FOrch>, p: &OrchPers) -> H {
    let mut h = b2(p.auth);
    if let Some(o) = o {
        h.up(&o.proof);
        for a in &o.actions {
            h.up(&a.sig);
        }
        h.up(&o.binding_sig);
        if !p.anchor_in_txid {
            h.up(&o.anchor);
        }
    }
    h.fin()
}

/// ZIP 244 auth digest (v5) / its v6 variant.
pub fn auth_digest(f: &Fields) -> H {
    assert!(f.ver.zip244());
    let v6 = f.ver == Ver::V6;
    // A.1
    let mut th = b2(b"ZTxAuthTransHash");
    for i in &f.vin {
        let mut e = vec![];
        script_field(&i.script_sig, &mut e);
        th.up(&e);
    }
    // A.2
    let mut sh = b2(if v6 { b"ZTxAuthSapliH_v6" } else { b"ZTxAuthSapliHash" });
    if !(f.spends.is_empty() && f.outputs.is_empty()) {
        for s in &f.spends {
            sh.up(&s.proof);
        }
        for s in &f.spends {
            sh.up(&s.sig);
        }
        for o in &f.outputs {
            sh.up(&o.proof);
        }
        sh.up(f.sapling_binding_sig.as_ref().expect("binding sig present with a non-empty bundle"));
        if v6 && !f.spends.is_empty() {
            sh.up(&f.spends[0].anchor);
        }
    }
    let mut h = b2(&with_branch(b"ZTxAuthHash_", f.branch));
    h.up(&th.fin()).up(&sh.fin());
    if v6 {
        h.up(&orchard_auth_digest(f.orchard.as_ref(), &ORCH_V6));
        h.up(&orchard_auth_digest(f.ironwood.as_ref(), &IRONWOOD_V6));
    } else {
        h.up(&orchard_auth_digest(f.orchard.as_ref(), &ORCH_V5));
    }
    h.fin()
}

/// ZIP 244 signature digest (S.1..S.4; v6: plus the Ironwood digest). `coins[j]` is the output
/// spent by input j (value, scriptPubKey); it must have one entry per transparent input.
pub fn sighash_zip244(f: &Fields, coins: &[Coin], what: Signable) -> H {
    assert!(f.ver.zip244());
    // S.2: coinbase, or no transparent inputs: identical to T.2
    let tsd = if f.vin.is_empty() || f.is_coinbase() {
        transparent_digest(f)
    } else {
        assert_eq!(coins.len(), f.vin.len());
        let (hash_type, input) = match what {
            Signable::Shielded => (SIGHASH_ALL, None),
            Signable::Input(i, ht) => (ht, Some(i)),
        };
        let acp = hash_type & SIGHASH_ANYONECANPAY != 0;
        let base = hash_type & 0x1f;
        // S.2b
        let prevouts = if acp { prevouts_digest(&[]) } else { prevouts_digest(&f.vin) };
        // S.2c
        let mut ah = b2(b"ZTxTrAmountsHash");
        if !acp {
            for c in coins {
                ah.up(&(c.value as i64).to_le_bytes());
            }
        }
        // S.2d
        let mut sh = b2(b"ZTxTrScriptsHash");
        if !acp {
            for c in coins {
                let mut e = vec![];
                script_field(&c.script, &mut e);
                sh.up(&e);
            }
        }
        // S.2e
        let sequences = if acp { sequence_digest(&[]) } else { sequence_digest(&f.vin) };
        // S.2f
        let outputs = match (input, base) {
            (Some(i), SIGHASH_SINGLE) => {
                if i < f.vout.len() {
                    outputs_digest(std::iter::once(&f.vout[i]))
                } else {
                    outputs_digest(std::iter::empty())
                }
            }
            (Some(_), SIGHASH_NONE) => outputs_digest(std::iter::empty()),
            _ => outputs_digest(f.vout.iter()),
        };
        // S.2g
        let mut ih = b2(b"Zcash___TxInHash");
        if let Some(i) = input {
            let txin = &f.vin[i];
            ih.up(&txin.prev_hash).up(&txin.prev_n.to_le_bytes());
            ih.up(&(coins[i].value as i64).to_le_bytes());
            let mut e = vec![];
            script_field(&coins[i].script, &mut e);
            ih.up(&e).up(&txin.sequence.to_le_bytes());
        }
        let mut h = b2(b"ZTxIdTranspaHash");
        h.up(&[hash_type])
            .up(&prevouts)
            .up(&ah.fin())
            .up(&sh.fin())
            .up(&sequences)
            .up(&outputs)
            .up(&ih.fin());
        h.fin()
    };
    combine_txid(f, &tsd)
}

// ---------------------------------------------------------------------------------------------
// ZIP 143 (v3) / ZIP 243 (v4)
// ---------------------------------------------------------------------------------------------

/// Signature hash of an Overwinter (ZIP 143) or Sapling (ZIP 243) transaction. For a transparent
/// input, `coin` is (scriptCode, value) of the output being spent.
pub fn sighash_v3_v4(f: &Fields, what: Signable, coin: Option<&Coin>) -> H {
    assert!(matches!(f.ver, Ver::V3 | Ver::V4));
    let sapling = f.ver == Ver::V4;
    let (hash_type, input): (u32, Option<usize>) = match what {
        Signable::Shielded => (SIGHASH_ALL as u32, None),
        Signable::Input(i, ht) => (ht as u32, Some(i)),
    };
    let acp = hash_type & SIGHASH_ANYONECANPAY as u32 != 0;
    let base = (hash_type & 0x1f) as u8;
    let zero = [0u8; 32];
    let one = |pers: &[u8], data: &[u8]| -> H {
        let mut h = b2(pers);
        h.up(data);
        h.fin()
    };

    let mut h = b2(&with_branch(b"ZcashSigHash", f.branch));
    // 1, 2
    h.up(&f.header.to_le_bytes()).up(&f.vgid.to_le_bytes());
    // 3 hashPrevouts
    if !acp {
        let mut d = vec![];
        for i in &f.vin {
            d.extend_from_slice(&i.prev_hash);
            d.extend_from_slice(&i.prev_n.to_le_bytes());
        }
        h.up(&one(b"ZcashPrevoutHash", &d));
    } else {
        h.up(&zero);
    }
    // 4 hashSequence
    if !acp && base != SIGHASH_SINGLE && base != SIGHASH_NONE {
        let mut d = vec![];
        for i in &f.vin {
            d.extend_from_slice(&i.sequence.to_le_bytes());
        }
        h.up(&one(b"ZcashSequencHash", &d));
    } else {
        h.up(&zero);
    }
    // 5 hashOutputs
    let enc_out = |o: &FOut, d: &mut Vec<u8>| {
        d.extend_from_slice(&o.value.to_le_bytes());
        script_field(&o.script, d);
    };
    if base != SIGHASH_SINGLE && base != SIGHASH_NONE {
        let mut d = vec![];
        for o in &f.vout {
            enc_out(o, &mut d);
        }
        h.up(&one(b"ZcashOutputsHash", &d));
    } else if base == SIGHASH_SINGLE && input.map(|i| i < f.vout.len()).unwrap_or(false) {
        let mut d = vec![];
        enc_out(&f.vout[input.unwrap()], &mut d);
        h.up(&one(b"ZcashOutputsHash", &d));
    } else {
        h.up(&zero);
    }
    // 6 hashJoinSplits
    if !f.joinsplits.is_empty() {
        let mut d = vec![];
        for j in &f.joinsplits {
            d.extend_from_slice(j);
        }
        d.extend_from_slice(f.js_pubkey.as_ref().expect("joinSplitPubKey"));
        h.up(&one(b"ZcashJSplitsHash", &d));
    } else {
        h.up(&zero);
    }
    if sapling {
        // 7 hashShieldedSpends: every spend description without its spendAuthSig
        if !f.spends.is_empty() {
            let mut d = vec![];
            for s in &f.spends {
                d.extend_from_slice(&s.cv);
                d.extend_from_slice(&s.anchor);
                d.extend_from_slice(&s.nf);
                d.extend_from_slice(&s.rk);
                d.extend_from_slice(&s.proof);
            }
            h.up(&one(b"ZcashSSpendsHash", &d));
        } else {
            h.up(&zero);
        }
        // 8 hashShieldedOutputs: every output description in full
        if !f.outputs.is_empty() {
            let mut d = vec![];
            for o in &f.outputs {
                d.extend_from_slice(&o.cv);
                d.extend_from_slice(&o.cmu);
                d.extend_from_slice(&o.epk);
                d.extend_from_slice(&o.enc);
                d.extend_from_slice(&o.out);
                d.extend_from_slice(&o.proof);
            }
            h.up(&one(b"ZcashSOutputHash", &d));
        } else {
            h.up(&zero);
        }
    }
    h.up(&f.lock_time.to_le_bytes()).up(&f.expiry.to_le_bytes());
    if sapling {
        h.up(&f.sapling_vb.to_le_bytes());
    }
    h.up(&hash_type.to_le_bytes());
    if let Some(i) = input {
        let c = coin.expect("coin for the input being signed");
        let txin = &f.vin[i];
        let mut d = vec![];
        d.extend_from_slice(&txin.prev_hash);
        d.extend_from_slice(&txin.prev_n.to_le_bytes());
        script_field(&c.script, &mut d);
        d.extend_from_slice(&(c.value as i64).to_le_bytes());
        d.extend_from_slice(&txin.sequence.to_le_bytes());
        h.up(&d);
    }
    h.fin()
}

// ---------------------------------------------------------------------------------------------
// Coverage: which (field, signable) pairs a signature hash is DEFINED to commit to
// ---------------------------------------------------------------------------------------------

/// What a mutated position is, as far as the digests are concerned.
#[derive(Clone, Copy, Debug, PartialEq, Eq)]
pub enum Cover {
    /// committed to by every signature hash (header, shielded effecting data, value balances…)
    Always,
    /// never committed to by a signature hash (signatures, proofs from v5, scriptSigs, v6 anchors)
    Never,
    /// prevout (hash or index) of transparent input j
    Prevout(usize),
    /// nSequence of transparent input j
    Sequence(usize),
    /// value or script of transparent output k
    Output(usize),
    /// value / scriptPubKey of the coin spent by transparent input j (external to the encoding)
    Coin(usize),
}

/// `true` iff the signature hash for `what` is defined to commit to the position.
/// `coinbase_or_no_inputs`: the transaction is a coinbase or has no transparent inputs (ZIP 244
/// S.2 then reuses the txid's transparent digest).
pub fn covered(ver: Ver, c: Cover, what: Signable, coinbase_or_no_inputs: bool) -> bool {
    let (ht, input) = match what {
        Signable::Shielded => (SIGHASH_ALL, None),
        Signable::Input(i, ht) => (ht, Some(i)),
    };
    let acp = ht & SIGHASH_ANYONECANPAY != 0;
    let base = ht & 0x1f;
    match c {
        Cover::Always => true,
        Cover::Never => false,
        _ if ver.zip244() && coinbase_or_no_inputs => match c {
            // T.2 digest: prevouts, sequences, outputs; no coins
            Cover::Coin(_) => false,
            _ => true,
        },
        Cover::Prevout(j) => !acp || input == Some(j),
        Cover::Sequence(j) => {
            if ver.zip244() {
                // S.2e depends on ANYONECANPAY only; S.2g covers the input being signed
                !acp || input == Some(j)
            } else {
                // ZIP 143 field 4 (hashSequence) only for plain ALL; field 10d for the signed input
                (!acp && base != SIGHASH_SINGLE && base != SIGHASH_NONE) || input == Some(j)
            }
        }
        Cover::Output(k) => match (input, base) {
            (None, _) => true,
            (Some(_), SIGHASH_NONE) => false,
            (Some(i), SIGHASH_SINGLE) => i == k,
            _ => true,
        },
        Cover::Coin(j) => {
            if ver.zip244() {
                // S.2c/S.2d (all coins unless ANYONECANPAY) and S.2g (the coin being spent)
                !acp || input == Some(j)
            } else {
                // ZIP 143 10b/10c: only the coin being spent
                input == Some(j)
            }
        }
    }
}

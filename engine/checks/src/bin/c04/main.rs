//! C04 — Transaction ids and signature hashes commit to exactly the data they must.
//!
//! Part A (reference differential): an independent implementation of ZIP 244 (module `zip244`,
//! written from the ZIP text; plus the v6 variant as documented in this repository, ZIP 143/243 for
//! v3/v4 and sha256d for v1..v4) is evaluated on a plain-data record of the transaction that is
//! extracted twice — from the wire encoding by an independent layout walker (module `layout`) and
//! from the public accessors of the parsed `Transaction` — and compared with `Transaction::txid()`,
//! `auth_commitment()` and `signature_hash(..)` for `Shielded` and every transparent input × every
//! valid hash type.
//!
//! Part B (metamorphic): a field catalogue enumerates every mutable position of the encoding (and
//! the external coins / consensus branch); each is mutated minimally at the byte level, re-parsed
//! with `Transaction::read`, and the identifier / authorising commitment / every signature hash
//! must change or stay unchanged exactly as the position's tag (effecting / authorising, per
//! version) and the documented ANYONECANPAY / NONE / SINGLE exclusions say.

#[path = "layout.rs"]
mod layout;
#[path = "zip244.rs"]
mod zip244;

use std::collections::BTreeMap;
use std::sync::Mutex;

use ff::PrimeField;
use group::{Group, GroupEncoding};
use proptest::collection::vec;
use proptest::prelude::*;
use serde_json::json;
use vcore::{catch, hash64, vensure, vensure_eq, vfail, CaseResult, Ctx, Fail, Obs};

use orchard::bundle::{BundleVersion, Flags};
use zcash_primitives::transaction::{
    components::{orchard::testing as zo_t, sapling::testing as zs_t},
    sighash::{signature_hash, SignableInput},
    testing::arb_tx,
    txid::TxIdDigester,
    Authorization, Authorized, Transaction, TransactionData, TxVersion,
};
use zcash_protocol::{
    consensus::{BlockHeight, BranchId},
    value::{ZatBalance, Zatoshis, MAX_MONEY},
};
use zcash_transparent::{
    address::Script,
    bundle::{self as tbundle, testing as zt_t, OutPoint, TxIn, TxOut},
    sighash::{SighashType, SignableInput as TSignableInput, TransparentAuthorizingContext},
};

use layout::{compact_size, walk, Layout, OrchL, Ver, R};
use zip244::{
    covered, hash_type_name, sha256d, Coin, Cover, FAct, FIn, FOrch, FOut, FSOut, FSpend, Fields, Signable, H,
    HASH_TYPES,
};

type SBundle = sapling::Bundle<sapling::bundle::Authorized, ZatBalance>;
type OBundle = orchard::Bundle<orchard::bundle::Authorized, ZatBalance>;

// ---------------------------------------------------------------------------------------------
// Harness authorisation types: the transparent authorising context (coins) for signature hashes
// ---------------------------------------------------------------------------------------------

#[derive(Debug)]
struct HTAuth {
    amounts: Vec<Zatoshis>,
    scripts: Vec<Script>,
}

impl tbundle::Authorization for HTAuth {
    type ScriptSig = Script;
}

impl TransparentAuthorizingContext for HTAuth {
    fn input_amounts(&self) -> Vec<Zatoshis> {
        self.amounts.clone()
    }
    fn input_scriptpubkeys(&self) -> Vec<Script> {
        self.scripts.clone()
    }
}

struct HAuth;

impl Authorization for HAuth {
    type TransparentAuth = HTAuth;
    type SaplingAuth = sapling::bundle::Authorized;
    type OrchardAuth = orchard::bundle::Authorized;
}

fn mk_script(b: &[u8]) -> Script {
    let mut s = Script::default();
    s.0 .0 = b.to_vec();
    s
}

fn branch_u32(b: BranchId) -> u32 {
    u32::from(b)
}

const NU5_PLUS: [BranchId; 5] = [BranchId::Nu5, BranchId::Nu6, BranchId::Nu6_1, BranchId::Nu6_2, BranchId::Nu6_3];
const V4_BRANCHES: [BranchId; 9] = [
    BranchId::Sapling,
    BranchId::Blossom,
    BranchId::Heartwood,
    BranchId::Canopy,
    BranchId::Nu5,
    BranchId::Nu6,
    BranchId::Nu6_1,
    BranchId::Nu6_2,
    BranchId::Nu6_3,
];

fn ver_of(v: TxVersion) -> Ver {
    match v {
        TxVersion::Sprout(n) => Ver::Sprout(n),
        TxVersion::V3 => Ver::V3,
        TxVersion::V4 => Ver::V4,
        TxVersion::V5 => Ver::V5,
        TxVersion::V6 => Ver::V6,
    }
}

// ---------------------------------------------------------------------------------------------
// The plain-data record from the public accessors
// ---------------------------------------------------------------------------------------------

fn forch_from(b: &OBundle) -> FOrch {
    FOrch {
        actions: b
            .actions()
            .iter()
            .map(|a| FAct {
                cv: a.cv_net().to_bytes(),
                nf: a.nullifier().to_bytes(),
                rk: <[u8; 32]>::from(a.rk()),
                cmx: a.cmx().to_bytes(),
                epk: a.encrypted_note().epk_bytes,
                enc: a.encrypted_note().enc_ciphertext.to_vec(),
                out: a.encrypted_note().out_ciphertext.to_vec(),
                sig: <[u8; 64]>::from(a.authorization()).to_vec(),
            })
            .collect(),
        flags: b.flag_byte(),
        value_balance: i64::from(*b.value_balance()),
        anchor: b.anchor().to_bytes(),
        proof: b.authorization().proof().as_ref().to_vec(),
        binding_sig: <[u8; 64]>::from(b.authorization().binding_signature()).to_vec(),
    }
}

fn fields_from_tx(tx: &Transaction) -> Fields {
    let v = tx.version();
    let (vin, vout) = match tx.transparent_bundle() {
        Some(b) => (
            b.vin
                .iter()
                .map(|i| FIn {
                    prev_hash: *i.prevout().hash(),
                    prev_n: i.prevout().n(),
                    script_sig: i.script_sig().0 .0.clone(),
                    sequence: i.sequence(),
                })
                .collect(),
            b.vout
                .iter()
                .map(|o| FOut {
                    value: o.value().into_u64(),
                    script: o.script_pubkey().0 .0.clone(),
                })
                .collect(),
        ),
        None => (vec![], vec![]),
    };
    let (sapling_vb, spends, outputs, sapling_binding_sig) = match tx.sapling_bundle() {
        Some(b) => (
            i64::from(*b.value_balance()),
            b.shielded_spends()
                .iter()
                .map(|s| FSpend {
                    cv: s.cv().to_bytes(),
                    anchor: s.anchor().to_repr(),
                    nf: s.nullifier().0,
                    rk: <[u8; 32]>::from(*s.rk()),
                    proof: s.zkproof().to_vec(),
                    sig: <[u8; 64]>::from(*s.spend_auth_sig()).to_vec(),
                })
                .collect(),
            b.shielded_outputs()
                .iter()
                .map(|o| FSOut {
                    cv: o.cv().to_bytes(),
                    cmu: o.cmu().to_bytes(),
                    epk: o.ephemeral_key().0,
                    enc: o.enc_ciphertext().to_vec(),
                    out: o.out_ciphertext().to_vec(),
                    proof: o.zkproof().to_vec(),
                })
                .collect(),
            Some(<[u8; 64]>::from(b.authorization().binding_sig).to_vec()),
        ),
        None => (0, vec![], vec![], None),
    };
    let (joinsplits, js_pubkey, js_sig) = match tx.sprout_bundle() {
        Some(b) => (
            b.joinsplits
                .iter()
                .map(|j| {
                    let mut w = vec![];
                    j.write(&mut w).expect("write to Vec");
                    w
                })
                .collect(),
            Some(b.joinsplit_pubkey),
            Some(b.joinsplit_sig.to_vec()),
        ),
        None => (vec![], None, None),
    };
    Fields {
        ver: ver_of(v),
        header: v.header(),
        vgid: v.version_group_id(),
        branch: branch_u32(tx.consensus_branch_id()),
        lock_time: tx.lock_time(),
        expiry: u32::from(tx.expiry_height()),
        vin,
        vout,
        sapling_vb,
        spends,
        outputs,
        sapling_binding_sig,
        joinsplits,
        js_pubkey,
        js_sig,
        orchard: tx.orchard_bundle().map(forch_from),
        ironwood: tx.ironwood_bundle().map(forch_from),
    }
}

// ---------------------------------------------------------------------------------------------
// Observing the code under test
// ---------------------------------------------------------------------------------------------

/// Everything the property talks about, as computed by the repository for one transaction.
#[derive(Clone, Debug, PartialEq, Eq)]
struct Observed {
    txid: H,
    /// `auth_commitment()`; v5+ only
    auth: Option<H>,
    /// `signature_hash(Shielded)`; v3+ only (the v4 routine documents a panic for pre-Overwinter)
    shielded: Option<H>,
    /// `signature_hash(Transparent(i, ht))` for every input i and the six hash types
    inputs: Vec<[H; 6]>,
}

fn read_tx(bytes: &[u8], branch: BranchId) -> Result<std::io::Result<Transaction>, String> {
    catch(|| Transaction::read(bytes, branch))
}

/// Computes the observables. `with_inputs`: also the per-input matrix (needs one coin per input).
fn observe(tx: Transaction, coins: &[Coin], with_inputs: bool) -> Result<Observed, Fail> {
    let ver = ver_of(tx.version());
    let txid: H = *tx.txid().as_ref();
    let auth = if ver.zip244() {
        let a = catch(|| tx.auth_commitment()).map_err(|p| Fail::new("auth-commitment-panic", format!("auth_commitment() panicked: {p}")))?;
        Some(a.as_bytes().try_into().unwrap())
    } else {
        None
    };
    if matches!(ver, Ver::Sprout(_)) {
        return Ok(Observed {
            txid,
            auth,
            shielded: None,
            inputs: vec![],
        });
    }
    let n_in = tx.transparent_bundle().map(|b| b.vin.len()).unwrap_or(0);
    if n_in > 0 && coins.len() != n_in {
        vfail!("harness-coins", "harness: {} coins for {} inputs", coins.len(), n_in);
    }
    let r = catch(move || {
        let txid_parts = tx.digest(TxIdDigester);
        let amounts: Vec<Zatoshis> = coins.iter().map(|c| Zatoshis::from_u64(c.value).expect("coin value in range")).collect();
        let scripts: Vec<Script> = coins.iter().map(|c| mk_script(&c.script)).collect();
        // ZIP 244 commits to the scriptPubKey and not to a script code; ZIP 143/243 commit to the script
        // code and not to a scriptPubKey: the argument that must NOT matter is given a decoy value.
        let decoys: Vec<Script> = coins
            .iter()
            .map(|c| {
                let mut d = c.script.clone();
                d.push(0xac);
                mk_script(&d)
            })
            .collect();
        let tdata: TransactionData<HAuth> = tx.into_data().map_bundles::<HAuth>(
            |t| {
                t.map(|b| tbundle::Bundle {
                    vin: b.vin.iter().map(|i| TxIn::from_parts(i.prevout().clone(), i.script_sig().clone(), i.sequence())).collect(),
                    vout: b.vout,
                    authorization: HTAuth {
                        amounts: amounts.clone(),
                        scripts: scripts.clone(),
                    },
                })
            },
            |s| s,
            |o| o,
        );
        let shielded: H = *signature_hash(&tdata, &SignableInput::Shielded, &txid_parts).as_ref();
        let mut inputs = vec![];
        if with_inputs {
            let bundle = tdata.transparent_bundle().expect("inputs imply a transparent bundle");
            for i in 0..n_in {
                let mut row = [[0u8; 32]; 6];
                for (k, ht) in HASH_TYPES.iter().enumerate() {
                    let (code, pubkey) = if ver.zip244() { (&decoys[i], &scripts[i]) } else { (&scripts[i], &decoys[i]) };
                    let si = TSignableInput::from_parts(bundle, SighashType::parse(*ht).expect("valid hash type"), i, code, pubkey, amounts[i]).expect("index in range");
                    row[k] = *signature_hash(&tdata, &SignableInput::Transparent(si), &txid_parts).as_ref();
                }
                inputs.push(row);
            }
        }
        (shielded, inputs)
    });
    match r {
        Ok((shielded, inputs)) => Ok(Observed {
            txid,
            auth,
            shielded: Some(shielded),
            inputs,
        }),
        Err(p) => Err(Fail::new("signature-hash-panic", format!("signature_hash panicked on a parsed {} transaction: {p}", ver.name()))),
    }
}

// ---------------------------------------------------------------------------------------------
// Cases
// ---------------------------------------------------------------------------------------------

#[derive(Clone)]
struct Case {
    branch: BranchId,
    /// canonical encoding (`Transaction::write` of the generated transaction)
    bytes: Vec<u8>,
    /// txid computed by `freeze()` on the in-memory data, if the in-memory data is exactly what the
    /// encoding represents (v5+ encodes ONE Sapling anchor)
    gen_txid: Option<H>,
    coins: Vec<Coin>,
    sel: u64,
}

impl std::fmt::Debug for Case {
    fn fmt(&self, f: &mut std::fmt::Formatter<'_>) -> std::fmt::Result {
        write!(f, "Case {{ branch: {:?} ({:#010x}), sel: {:#x}, coins: [", self.branch, branch_u32(self.branch), self.sel)?;
        for c in &self.coins {
            write!(f, "({}, {}) ", c.value, hex::encode(&c.script))?;
        }
        write!(f, "], tx({} bytes): {} }}", self.bytes.len(), hex::encode(&self.bytes))
    }
}

#[derive(Clone, Copy, Debug, PartialEq, Eq)]
enum VSel {
    S1,
    S2,
    V3,
    V4,
    V5,
    V6,
}

fn arb_ver_branch() -> impl Strategy<Value = (VSel, BranchId)> {
    prop_oneof![
        4 => Just((VSel::S1, BranchId::Sprout)),
        4 => Just((VSel::S2, BranchId::Sprout)),
        7 => Just((VSel::V3, BranchId::Overwinter)),
        20 => proptest::sample::select(V4_BRANCHES.to_vec()).prop_map(|b| (VSel::V4, b)),
        35 => proptest::sample::select(NU5_PLUS.to_vec()).prop_map(|b| (VSel::V5, b)),
        30 => Just((VSel::V6, BranchId::Nu6_3)),
    ]
}

fn arb_script_bytes() -> impl Strategy<Value = Vec<u8>> {
    prop_oneof![
        1 => Just(vec![]),
        6 => vec(proptest::sample::select(&zt_t::VALID_OPCODES[..]), 1..40),
        2 => vec(any::<u8>(), 1..80),
        // around the 1-byte / 3-byte CompactSize boundary
        1 => (250usize..260).prop_flat_map(|n| vec(any::<u8>(), n)),
    ]
}

fn arb_amount() -> impl Strategy<Value = u64> {
    prop_oneof![6 => 0..=MAX_MONEY, 1 => Just(0u64), 1 => Just(MAX_MONEY), 1 => 0u64..1000]
}

fn arb_balance() -> impl Strategy<Value = ZatBalance> {
    let m = MAX_MONEY as i64;
    prop_oneof![6 => -m..=m, 1 => Just(0i64), 1 => Just(m), 1 => Just(-m), 1 => -1000i64..1000].prop_map(|v| ZatBalance::from_i64(v).expect("in range"))
}

fn arb_u32_edge() -> impl Strategy<Value = u32> {
    prop_oneof![6 => any::<u32>(), 1 => Just(0u32), 1 => Just(u32::MAX), 1 => 0u32..500_000_000]
}

fn arb_coin() -> impl Strategy<Value = Coin> {
    (arb_amount(), arb_script_bytes()).prop_map(|(value, script)| Coin { value, script })
}

fn arb_transparent() -> impl Strategy<Value = Option<tbundle::Bundle<tbundle::Authorized>>> {
    let txin = (zt_t::arb_outpoint(), arb_script_bytes(), arb_u32_edge()).prop_map(|(p, s, q)| TxIn::from_parts(p, mk_script(&s), q));
    let txout = (arb_amount(), arb_script_bytes()).prop_map(|(v, s)| TxOut::new(Zatoshis::from_u64(v).expect("in range"), mk_script(&s)));
    (vec(txin, 0..=4), vec(txout, 0..=4), 0u8..12, arb_script_bytes(), arb_u32_edge()).prop_map(|(mut vin, vout, cb, cb_script, cb_seq)| {
        if cb == 0 {
            // coinbase: exactly one input with the null prevout
            vin = vec![TxIn::from_parts(OutPoint::NULL, mk_script(&cb_script), cb_seq)];
        }
        if vin.is_empty() && vout.is_empty() {
            None
        } else {
            Some(tbundle::Bundle {
                vin,
                vout,
                authorization: tbundle::Authorized,
            })
        }
    })
}

/// Sapling bundle from the repository's generator, cut down to at most 3 spends / 3 outputs.
/// `shared_anchor`: give every spend the first spend's anchor (what a v5+ encoding can represent).
fn arb_sapling(shared_anchor: bool) -> impl Strategy<Value = Option<SBundle>> {
    (zs_t::arb_bundle(), 0usize..=3, 0usize..=3, arb_balance(), 0u8..4).prop_map(move |(b, ns, no, vb, present)| {
        let b = b?;
        if present == 0 {
            return None;
        }
        let ns = ns.min(b.shielded_spends().len());
        let no = no.min(b.shielded_outputs().len());
        let spends: Vec<_> = b.shielded_spends()[..ns]
            .iter()
            .map(|s| {
                let anchor = if shared_anchor { *b.shielded_spends()[0].anchor() } else { *s.anchor() };
                sapling::bundle::SpendDescription::from_parts(s.cv().clone(), anchor, *s.nullifier(), *s.rk(), *s.zkproof(), *s.spend_auth_sig())
            })
            .collect();
        let outputs = b.shielded_outputs()[..no].to_vec();
        sapling::Bundle::from_parts(spends, outputs, vb, *b.authorization())
    })
}

fn rebuild_orchard(b: OBundle, bv: BundleVersion, xaddr: bool, vb: ZatBalance) -> OBundle {
    let mut byte = u8::from(b.flags().spends_enabled()) | (u8::from(b.flags().outputs_enabled()) << 1);
    if bv == BundleVersion::ironwood_v3() && xaddr {
        byte |= 0b100;
    }
    let flags = Flags::from_byte(byte, bv).expect("flag byte representable under the target version");
    orchard::Bundle::try_from_parts(b.actions().clone(), flags, vb, *b.anchor(), b.authorization().clone(), bv).expect("canonical proof size and representable flags")
}

fn arb_orchard_shaped(bv: BundleVersion) -> impl Strategy<Value = Option<OBundle>> {
    let some = (prop_oneof![5 => 1usize..=2, 2 => 3usize..=4]).prop_flat_map(move |n| (zo_t::arb_bundle(n), any::<bool>(), arb_balance()).prop_map(move |(b, x, vb)| rebuild_orchard(b, bv, x, vb)));
    proptest::option::weighted(0.7, some)
}

fn tx_bytes(tx: &Transaction) -> Vec<u8> {
    let mut w = vec![];
    tx.write(&mut w).expect("write to Vec");
    w
}

#[allow(clippy::too_many_arguments)]
fn build_case(
    vs: VSel,
    branch: BranchId,
    lock_time: u32,
    expiry: u32,
    transparent: Option<tbundle::Bundle<tbundle::Authorized>>,
    sapling: Option<SBundle>,
    orchard: Option<OBundle>,
    ironwood: Option<OBundle>,
    coins: Vec<Coin>,
    sel: u64,
) -> Case {
    let expiry: BlockHeight = expiry.into();
    let data: TransactionData<Authorized> = match vs {
        VSel::V6 => TransactionData::from_parts_v6(branch, lock_time, expiry, transparent, sapling, orchard, ironwood),
        _ => {
            let v = match vs {
                VSel::S1 => TxVersion::Sprout(1),
                VSel::S2 => TxVersion::Sprout(2),
                VSel::V3 => TxVersion::V3,
                VSel::V4 => TxVersion::V4,
                _ => TxVersion::V5,
            };
            // expiry height is not encoded before Overwinter
            let expiry = if matches!(vs, VSel::S1 | VSel::S2) { 0u32.into() } else { expiry };
            TransactionData::from_parts(v, branch, lock_time, expiry, transparent, None, sapling, orchard)
        }
    };
    let tx = data.freeze().expect("freeze");
    let n_in = tx.transparent_bundle().map(|b| b.vin.len()).unwrap_or(0);
    Case {
        branch,
        bytes: tx_bytes(&tx),
        gen_txid: Some(*tx.txid().as_ref()),
        coins: coins.into_iter().take(n_in).collect(),
        sel,
    }
}

/// The harness's own composition of the repository's bundle generators: every version, every
/// branch the version is valid in, small bundles (so that all positions can be exercised).
fn arb_case() -> impl Strategy<Value = Case> {
    arb_ver_branch().prop_flat_map(|(vs, branch)| {
        let sap = match vs {
            VSel::V4 => arb_sapling(false).boxed(),
            VSel::V5 | VSel::V6 => arb_sapling(true).boxed(),
            _ => Just(None).boxed(),
        };
        let orch = match vs {
            VSel::V5 => arb_orchard_shaped(BundleVersion::orchard_v2()).boxed(),
            VSel::V6 => arb_orchard_shaped(BundleVersion::orchard_v3()).boxed(),
            _ => Just(None).boxed(),
        };
        let iw = match vs {
            VSel::V6 => arb_orchard_shaped(BundleVersion::ironwood_v3()).boxed(),
            _ => Just(None).boxed(),
        };
        (arb_u32_edge(), arb_u32_edge(), arb_transparent(), sap, orch, iw, vec(arb_coin(), 4), any::<u64>())
            .prop_map(move |(lt, ex, t, s, o, i, coins, sel)| build_case(vs, branch, lt, ex, t, s, o, i, coins, sel))
    })
}

/// The repository's own `arb_tx(branch)` unmodified (bundles of up to 30 spends / 99 actions).
fn arb_repo_case() -> impl Strategy<Value = Case> {
    let branches = vec![
        BranchId::Sprout,
        BranchId::Overwinter,
        BranchId::Sapling,
        BranchId::Canopy,
        BranchId::Nu5,
        BranchId::Nu6_1,
        BranchId::Nu6_2,
        BranchId::Nu6_3,
    ];
    proptest::sample::select(branches).prop_flat_map(|branch| {
        (arb_tx(branch), vec(arb_coin(), 10), any::<u64>()).prop_map(move |(tx, coins, sel)| {
            let n_in = tx.transparent_bundle().map(|b| b.vin.len()).unwrap_or(0);
            // v5+ encodes one anchor for all Sapling spends; the generator gives each spend its own
            let representable = !ver_of(tx.version()).zip244()
                || tx.sapling_bundle().map(|b| b.shielded_spends().windows(2).all(|w| w[0].anchor() == w[1].anchor())).unwrap_or(true);
            Case {
                branch,
                bytes: tx_bytes(&tx),
                gen_txid: if representable { Some(*tx.txid().as_ref()) } else { None },
                coins: coins.into_iter().take(n_in).collect(),
                sel,
            }
        })
    })
}

// ---------------------------------------------------------------------------------------------
// Part A: reference differential
// ---------------------------------------------------------------------------------------------

struct Parsed {
    tx: Transaction,
    layout: Layout,
    fields: Fields,
}

fn parse_case(bytes: &[u8], branch: BranchId) -> Result<Parsed, Fail> {
    let tx = match read_tx(bytes, branch) {
        Err(p) => vfail!("read-panic", "Transaction::read panicked on an encoding produced by Transaction::write: {p}"),
        Ok(Err(e)) => vfail!("read-own-encoding-failed", "Transaction::read rejected an encoding produced by Transaction::write: {e}"),
        Ok(Ok(t)) => t,
    };
    let layout = match walk(bytes) {
        Ok(l) => l,
        Err(e) => vfail!("encoding-not-per-spec", "the independent layout walker cannot walk an encoding produced by Transaction::write: {e}"),
    };
    let fields = Fields::from_layout(bytes, &layout, branch_u32(branch));
    Ok(Parsed { tx, layout, fields })
}

fn sig(ver: Ver, what: &str) -> String {
    let fam = match ver {
        Ver::V5 => "v5",
        Ver::V6 => "v6",
        Ver::V3 | Ver::V4 => "v3v4",
        Ver::Sprout(_) => "v1v2",
    };
    format!("{fam}-{what}")
}

fn ref_sighash(f: &Fields, coins: &[Coin], what: Signable) -> H {
    if f.ver.zip244() {
        zip244::sighash_zip244(f, coins, what)
    } else {
        let coin = match what {
            Signable::Input(i, _) => Some(&coins[i]),
            Signable::Shielded => None,
        };
        zip244::sighash_v3_v4(f, what, coin)
    }
}

fn check_reference(c: &Case) -> CaseResult {
    let Parsed { tx, layout: _, fields: f } = parse_case(&c.bytes, c.branch)?;
    let ver = f.ver;
    // the walker's attribution and the accessors must describe the same transaction
    let fa = fields_from_tx(&tx);
    if fa != f {
        vfail!(
            "encoding-vs-accessors",
            "{}: field values read from the encoding by the layout walker differ from the accessors of the parsed transaction in: {}",
            ver.name(),
            f.diff(&fa)
        );
    }
    vensure!(tx_bytes(&tx) == c.bytes, "reserialisation-differs", "{}: write(read(bytes)) != bytes", ver.name());

    let n_in = f.vin.len();
    let want_inputs = n_in > 0 && !matches!(ver, Ver::Sprout(_));
    let obs = observe(tx, &c.coins, want_inputs)?;
    if let Some(g) = c.gen_txid {
        vensure_eq!(hex::encode(g), hex::encode(obs.txid), sig(ver, "txid-changes-across-roundtrip"), "txid of the in-memory transaction vs txid after write/read");
    }
    let mut compared = 0u64;
    if ver.zip244() {
        vensure_eq!(hex::encode(obs.txid), hex::encode(zip244::txid(&f)), sig(ver, "txid-mismatch"), "{} branch {:#x}: Transaction::txid() vs reference", ver.name(), f.branch);
        vensure_eq!(
            hex::encode(obs.auth.unwrap()),
            hex::encode(zip244::auth_digest(&f)),
            sig(ver, "auth-digest-mismatch"),
            "{} branch {:#x}: auth_commitment() vs reference",
            ver.name(),
            f.branch
        );
    } else {
        vensure_eq!(hex::encode(obs.txid), hex::encode(sha256d(&c.bytes)), sig(ver, "txid-not-sha256d"), "{}: txid() vs sha256d(write())", ver.name());
    }
    if let Some(sh) = obs.shielded {
        vensure_eq!(
            hex::encode(sh),
            hex::encode(ref_sighash(&f, &c.coins, Signable::Shielded)),
            sig(ver, "sighash-shielded-mismatch"),
            "{} branch {:#x}, {} inputs (coinbase={}): signature_hash(Shielded) vs reference",
            ver.name(),
            f.branch,
            n_in,
            f.is_coinbase()
        );
        compared += 1;
    }
    let mut single_oob = false;
    for (i, row) in obs.inputs.iter().enumerate() {
        for (k, ht) in HASH_TYPES.iter().enumerate() {
            let want = ref_sighash(&f, &c.coins, Signable::Input(i, *ht));
            if row[k] != want {
                vfail!(
                    sig(ver, "sighash-transparent-mismatch"),
                    "{} branch {:#x}: signature_hash(input {i} of {n_in}, {}) with {} outputs (coinbase={}): got {} want {}",
                    ver.name(),
                    f.branch,
                    hash_type_name(*ht),
                    f.vout.len(),
                    f.is_coinbase(),
                    hex::encode(row[k]),
                    hex::encode(want)
                );
            }
            compared += 1;
        }
        if i >= f.vout.len() {
            single_oob = true;
        }
    }
    Ok(Obs::new(true)
        .key(hash64(&c.bytes))
        .label(ver.name())
        .label_if(f.is_coinbase(), "coinbase")
        .label_if(want_inputs && !f.is_coinbase(), "transparent-inputs")
        .label_if(single_oob, "single-index-beyond-outputs")
        .label_if(n_in == 0 && !f.vout.is_empty(), "transparent-outputs-only")
        .label_if(n_in == 0 && f.vout.is_empty(), "no-transparent")
        .label_if(!f.spends.is_empty(), "sapling-spends")
        .label_if(!f.outputs.is_empty(), "sapling-outputs")
        .label_if(f.spends.is_empty() && !f.outputs.is_empty(), "sapling-outputs-only")
        .label_if(f.orchard.is_some(), "orchard")
        .label_if(f.ironwood.is_some(), "ironwood")
        .label_if(ver == Ver::V6 && f.orchard.is_none() && f.ironwood.is_none(), "v6-no-orchard-no-ironwood")
        .label_if(ver == Ver::V6 && f.orchard.is_some() && f.ironwood.is_none(), "v6-orchard-only")
        .label_if(ver == Ver::V6 && f.orchard.is_none() && f.ironwood.is_some(), "v6-ironwood-only")
        .label_if(ver == Ver::V5 && f.branch == branch_u32(BranchId::Nu5), "v5-nu5")
        .label_if(ver == Ver::V5 && f.branch == branch_u32(BranchId::Nu6), "v5-nu6")
        .label_if(ver == Ver::V5 && f.branch == branch_u32(BranchId::Nu6_1), "v5-nu6.1")
        .label_if(ver == Ver::V5 && f.branch == branch_u32(BranchId::Nu6_2), "v5-nu6.2")
        .label_if(ver == Ver::V5 && f.branch == branch_u32(BranchId::Nu6_3), "v5-nu6.3")
        .count("sighashes-compared", compared))
}

// ---------------------------------------------------------------------------------------------
// Regression: the fixed ZIP 143 / 243 / 244 vectors (validates the reference itself) and a few
// hand-built boundary transactions
// ---------------------------------------------------------------------------------------------

enum Reg {
    Z244(usize),
    Z143(usize),
    Z243(usize),
    Empty(VSel, BranchId),
    /// hand-built transparent shapes: (version, branch, coinbase?, #inputs, #outputs)
    Shape(VSel, BranchId, bool, usize, usize),
}

fn regression_list() -> Vec<Reg> {
    use zcash_primitives::transaction::tests::data;
    let mut v = vec![];
    for i in 0..data::zip_0244::make_test_vectors().len() {
        v.push(Reg::Z244(i));
    }
    for i in 0..data::zip_0143::make_test_vectors().len() {
        v.push(Reg::Z143(i));
    }
    for i in 0..data::zip_0243::make_test_vectors().len() {
        v.push(Reg::Z243(i));
    }
    v.push(Reg::Empty(VSel::S1, BranchId::Sprout));
    v.push(Reg::Empty(VSel::S2, BranchId::Sprout));
    v.push(Reg::Empty(VSel::V3, BranchId::Overwinter));
    for b in V4_BRANCHES {
        v.push(Reg::Empty(VSel::V4, b));
    }
    for b in NU5_PLUS {
        v.push(Reg::Empty(VSel::V5, b));
    }
    v.push(Reg::Empty(VSel::V6, BranchId::Nu6_3));
    for (vs, b) in [(VSel::V3, BranchId::Overwinter), (VSel::V4, BranchId::Canopy), (VSel::V5, BranchId::Nu5), (VSel::V5, BranchId::Nu6_3), (VSel::V6, BranchId::Nu6_3)] {
        // coinbase with one output; SINGLE beyond the outputs (3 inputs, 1 output; 2 inputs, 0 outputs);
        // inputs == outputs; outputs only
        for (cb, ni, no) in [(true, 1, 1), (false, 3, 1), (false, 2, 0), (false, 2, 2), (false, 0, 2)] {
            v.push(Reg::Shape(vs, b, cb, ni, no));
        }
    }
    v
}

fn shape_case(vs: VSel, b: BranchId, coinbase: bool, ni: usize, no: usize) -> Case {
    let vin: Vec<TxIn<tbundle::Authorized>> = (0..ni)
        .map(|i| {
            let prev = if coinbase { OutPoint::NULL } else { OutPoint::new([0x11 * (i as u8 + 1); 32], i as u32) };
            TxIn::from_parts(prev, mk_script(&vec![0x51; i + 1]), 0xffff_fffe - i as u32)
        })
        .collect();
    let vout: Vec<TxOut> = (0..no).map(|k| TxOut::new(Zatoshis::from_u64(1000 + k as u64).unwrap(), mk_script(&[0x76, 0xa9, k as u8]))).collect();
    let coins: Vec<Coin> = (0..ni)
        .map(|i| Coin {
            value: 50_000 + i as u64,
            script: vec![0xac, i as u8],
        })
        .collect();
    let t = tbundle::Bundle {
        vin,
        vout,
        authorization: tbundle::Authorized,
    };
    build_case(vs, b, 7, 500_000, Some(t), None, None, None, coins, 0x0123_4567_89ab_cdef)
}

fn describe_reg(r: &Reg) -> String {
    match r {
        Reg::Z244(i) => format!("ZIP 244 test vector #{i}"),
        Reg::Z143(i) => format!("ZIP 143 test vector #{i}"),
        Reg::Z243(i) => format!("ZIP 243 test vector #{i}"),
        Reg::Empty(v, b) => format!("empty {v:?} transaction under branch {b:?}"),
        Reg::Shape(v, b, cb, ni, no) => format!("{v:?} under {b:?}: coinbase={cb}, {ni} inputs, {no} outputs"),
    }
}

fn check_legacy_vector(tx_bytes_: &[u8], branch: BranchId, input: Option<u32>, hash_type: u32, script_code: &Script, amount: i64, want: &[u8; 32], name: &str) -> CaseResult {
    let p = parse_case(tx_bytes_, branch)?;
    let what = match input {
        Some(n) => Signable::Input(n as usize, hash_type as u8),
        None => {
            if hash_type != 1 {
                return Ok(Obs::trivial().label("skipped-shielded-non-ALL"));
            }
            Signable::Shielded
        }
    };
    let coin = Coin {
        value: amount as u64,
        script: script_code.0 .0.clone(),
    };
    let got = zip244::sighash_v3_v4(&p.fields, what, Some(&coin));
    vensure_eq!(hex::encode(got), hex::encode(want), "reference-disagrees-with-vector", "{name}: reference ZIP 143/243 signature hash vs the published vector");
    vensure_eq!(hex::encode(*p.tx.txid().as_ref()), hex::encode(sha256d(tx_bytes_)), "v3v4-txid-not-sha256d", "{name}: txid vs sha256d");
    let fa = fields_from_tx(&p.tx);
    if fa != p.fields {
        vfail!("encoding-vs-accessors", "{name}: walker vs accessors differ in {}", p.fields.diff(&fa));
    }
    Ok(Obs::new(true).label(name_static(name)).label_if(!p.fields.joinsplits.is_empty(), "with-joinsplits"))
}

fn name_static(n: &str) -> &'static str {
    if n.starts_with("ZIP 143") {
        "zip143-vector"
    } else {
        "zip243-vector"
    }
}

fn check_regression(r: &Reg) -> CaseResult {
    use zcash_primitives::transaction::tests::data;
    match r {
        Reg::Z244(i) => {
            let tv = data::zip_0244::make_test_vectors().swap_remove(*i);
            let p = parse_case(&tv.tx, BranchId::Nu5)?;
            let f = &p.fields;
            vensure_eq!(hex::encode(zip244::txid(f)), hex::encode(tv.txid), "reference-disagrees-with-vector", "ZIP 244 vector #{i}: reference txid");
            vensure_eq!(hex::encode(zip244::auth_digest(f)), hex::encode(tv.auth_digest), "reference-disagrees-with-vector", "ZIP 244 vector #{i}: reference auth digest");
            let mut coins: Vec<Coin> = tv
                .amounts
                .iter()
                .zip(tv.script_pubkeys.iter())
                .map(|(a, s)| Coin {
                    value: *a as u64,
                    script: s.clone(),
                })
                .collect();
            if coins.is_empty() && f.is_coinbase() {
                // the vectors give no coin for a coinbase input (nothing is spent)
                coins.push(Coin { value: 0, script: vec![] });
            }
            vensure_eq!(coins.len(), f.vin.len(), "harness-vector-shape", "ZIP 244 vector #{i}: coins vs inputs");
            vensure_eq!(
                hex::encode(zip244::sighash_zip244(f, &coins, Signable::Shielded)),
                hex::encode(tv.sighash_shielded),
                "reference-disagrees-with-vector",
                "ZIP 244 vector #{i}: reference shielded sighash"
            );
            let mut n = 3u64;
            if let Some(idx) = tv.transparent_input {
                let idx = idx as usize;
                let exp = [tv.sighash_all, tv.sighash_none, tv.sighash_single, tv.sighash_all_anyone, tv.sighash_none_anyone, tv.sighash_single_anyone];
                for (k, ht) in HASH_TYPES.iter().enumerate() {
                    if let Some(e) = exp[k] {
                        vensure_eq!(
                            hex::encode(zip244::sighash_zip244(f, &coins, Signable::Input(idx, *ht))),
                            hex::encode(e),
                            "reference-disagrees-with-vector",
                            "ZIP 244 vector #{i}: reference sighash input {idx} {}",
                            hash_type_name(*ht)
                        );
                        n += 1;
                    }
                }
            }
            // and the whole reference check of the repository on the same transaction
            let c = Case {
                branch: BranchId::Nu5,
                bytes: tv.tx.clone(),
                gen_txid: None,
                coins,
                sel: 0,
            };
            let o = check_reference(&c)?;
            Ok(Obs::new(true).label("zip244-vector").label_if(f.orchard.is_some(), "orchard").label_if(!f.vin.is_empty(), "transparent-inputs").count("vector-digests-matched", n).count(
                "sighashes-compared",
                o.counters.iter().map(|(_, v)| *v).sum(),
            ))
        }
        Reg::Z143(i) => {
            let tv = data::zip_0143::make_test_vectors().swap_remove(*i);
            check_legacy_vector(&tv.tx, tv.consensus_branch_id, tv.transparent_input, tv.hash_type, &tv.script_code, tv.amount, &tv.sighash, &format!("ZIP 143 vector #{i}"))
        }
        Reg::Z243(i) => {
            let tv = data::zip_0243::make_test_vectors().swap_remove(*i);
            check_legacy_vector(&tv.tx, tv.consensus_branch_id, tv.transparent_input, tv.hash_type, &tv.script_code, tv.amount, &tv.sighash, &format!("ZIP 243 vector #{i}"))
        }
        Reg::Empty(v, b) => {
            let c = build_case(*v, *b, 0, 0, None, None, None, None, vec![], 0);
            check_reference(&c).map(|o| o.label("empty-transaction"))
        }
        Reg::Shape(v, b, cb, ni, no) => {
            let c = shape_case(*v, *b, *cb, *ni, *no);
            let o = check_reference(&c)?;
            let m = check_metamorphic(&c)?;
            let n: u64 = m.counters.iter().filter(|(k, _)| *k == "positions-exercised").map(|(_, v)| *v).sum();
            Ok(o.label("hand-built-shape").count("positions-exercised", n))
        }
    }
}

// ---------------------------------------------------------------------------------------------
// Part B: field catalogue
// ---------------------------------------------------------------------------------------------

#[derive(Clone, Copy, Debug, PartialEq, Eq)]
enum Tag {
    Effecting,
    Authorising,
}

impl Tag {
    fn name(self) -> &'static str {
        match self {
            Tag::Effecting => "effecting",
            Tag::Authorising => "authorising",
        }
    }
}

/// One catalogue entry (a kind of position).
struct FieldDef {
    bundle: &'static str,
    field: &'static str,
    /// exists in this version
    applies: fn(Ver) -> bool,
    /// authorising data in this version (v1..v4: not committed to by any signature hash)
    authorising: fn(Ver) -> bool,
}

fn always(_: Ver) -> bool {
    true
}
fn never(_: Ver) -> bool {
    false
}
fn v3up(v: Ver) -> bool {
    !matches!(v, Ver::Sprout(_))
}
fn v3v4(v: Ver) -> bool {
    matches!(v, Ver::V3 | Ver::V4)
}
fn v4up(v: Ver) -> bool {
    matches!(v, Ver::V4 | Ver::V5 | Ver::V6)
}
fn v5up(v: Ver) -> bool {
    v.zip244()
}
fn v6only(v: Ver) -> bool {
    v == Ver::V6
}

macro_rules! defs {
    ($( $id:ident = ($b:expr, $f:expr, $ap:expr, $au:expr) ),* $(,)?) => {
        #[allow(non_camel_case_types, clippy::upper_case_acronyms)]
        #[derive(Clone, Copy, Debug, PartialEq, Eq, PartialOrd, Ord)]
        enum FId { $($id),* }
        const FIELD_DEFS: &[(FId, FieldDef)] = &[
            $( (FId::$id, FieldDef { bundle: $b, field: $f, applies: $ap, authorising: $au }) ),*
        ];
    };
}

defs! {
    HdrBranch = ("header", "consensus_branch_id", v5up, never),
    HdrLock = ("header", "lock_time", always, never),
    HdrExpiry = ("header", "expiry_height", v3up, never),
    CtxBranch = ("context", "consensus_branch_id(external)", v3v4, never),
    InPrevHash = ("transparent", "in.prevout_hash", always, never),
    InPrevN = ("transparent", "in.prevout_index", always, never),
    InScript = ("transparent", "in.script_sig", always, always),
    InScriptLen = ("transparent", "in.script_sig(shortened)", always, always),
    InSeq = ("transparent", "in.sequence", always, never),
    OutValue = ("transparent", "out.value", always, never),
    OutScript = ("transparent", "out.script_pubkey", always, never),
    OutScriptLen = ("transparent", "out.script_pubkey(shortened)", always, never),
    CoinValue = ("coin", "spent_coin.value", v3up, never),
    CoinScript = ("coin", "spent_coin.script", v3up, never),
    SapVb = ("sapling", "value_balance", v4up, never),
    SapAnchor = ("sapling", "spend.anchor", v4up, v6only),
    SapSpendCv = ("sapling", "spend.cv", v4up, never),
    SapSpendNf = ("sapling", "spend.nullifier", v4up, never),
    SapSpendRk = ("sapling", "spend.rk", v4up, never),
    SapSpendProof = ("sapling", "spend.zkproof", v4up, v5up),
    SapSpendSig = ("sapling", "spend.spend_auth_sig", v4up, always),
    SapOutCv = ("sapling", "output.cv", v4up, never),
    SapOutCmu = ("sapling", "output.cmu", v4up, never),
    SapOutEpk = ("sapling", "output.ephemeral_key", v4up, never),
    SapOutEncC = ("sapling", "output.enc_ciphertext[0..52]", v4up, never),
    SapOutEncM = ("sapling", "output.enc_ciphertext[52..564]", v4up, never),
    SapOutEncR = ("sapling", "output.enc_ciphertext[564..580]", v4up, never),
    SapOutOut = ("sapling", "output.out_ciphertext", v4up, never),
    SapOutProof = ("sapling", "output.zkproof", v4up, v5up),
    SapBinding = ("sapling", "binding_sig", v4up, always),
    OrCv = ("orchard", "action.cv_net", v5up, never),
    OrNf = ("orchard", "action.nullifier", v5up, never),
    OrRk = ("orchard", "action.rk", v5up, never),
    OrCmx = ("orchard", "action.cmx", v5up, never),
    OrEpk = ("orchard", "action.ephemeral_key", v5up, never),
    OrEncC = ("orchard", "action.enc_ciphertext[0..52]", v5up, never),
    OrEncM = ("orchard", "action.enc_ciphertext[52..564]", v5up, never),
    OrEncR = ("orchard", "action.enc_ciphertext[564..580]", v5up, never),
    OrOut = ("orchard", "action.out_ciphertext", v5up, never),
    OrSig = ("orchard", "action.spend_auth_sig", v5up, always),
    OrFlags = ("orchard", "flags", v5up, never),
    OrVb = ("orchard", "value_balance", v5up, never),
    OrAnchor = ("orchard", "anchor", v5up, v6only),
    OrProof = ("orchard", "proof", v5up, always),
    OrBinding = ("orchard", "binding_sig", v5up, always),
    IwCv = ("ironwood", "action.cv_net", v6only, never),
    IwNf = ("ironwood", "action.nullifier", v6only, never),
    IwRk = ("ironwood", "action.rk", v6only, never),
    IwCmx = ("ironwood", "action.cmx", v6only, never),
    IwEpk = ("ironwood", "action.ephemeral_key", v6only, never),
    IwEncC = ("ironwood", "action.enc_ciphertext[0..52]", v6only, never),
    IwEncM = ("ironwood", "action.enc_ciphertext[52..564]", v6only, never),
    IwEncR = ("ironwood", "action.enc_ciphertext[564..580]", v6only, never),
    IwOut = ("ironwood", "action.out_ciphertext", v6only, never),
    IwSig = ("ironwood", "action.spend_auth_sig", v6only, always),
    IwFlags = ("ironwood", "flags", v6only, never),
    IwFlagsX = ("ironwood", "flags.cross_address", v6only, never),
    IwVb = ("ironwood", "value_balance", v6only, never),
    IwAnchor = ("ironwood", "anchor", v6only, always),
    IwProof = ("ironwood", "proof", v6only, always),
    IwBinding = ("ironwood", "binding_sig", v6only, always),
}

fn def(id: FId) -> &'static FieldDef {
    &FIELD_DEFS[id as usize].1
}

fn tag(id: FId, ver: Ver) -> Tag {
    if (def(id).authorising)(ver) {
        Tag::Authorising
    } else {
        Tag::Effecting
    }
}

#[derive(Clone, Debug)]
enum Mut {
    /// flip one bit of one byte inside the range (offset chosen by the selector, edge-biased)
    Flip(R),
    /// flip the lowest bit of a little-endian u32
    XorU32(R),
    /// +-1 on a little-endian amount, staying inside [lo, hi]
    Amount(R, i64, i64),
    /// canonical field element: x-1 (x+1 for zero)
    FieldElem(R),
    /// Jubjub point: P + G (prime-order generator)
    Jubjub(R),
    /// Pallas point: P + G
    Pallas(R),
    /// Jubjub point if it decodes, else a bit flip (Sapling epk is not validated by the parser)
    JubjubOrFlip(R),
    /// replace by another consensus branch id
    Branch(R),
    /// xor a flag bit
    Flag(R, u8),
    /// drop the last byte of a script (CompactSize prefix re-encoded)
    Shorten { field: R, script: R },
    CoinValue(usize),
    CoinScript(usize),
    ExternalBranch,
}

#[derive(Clone, Debug)]
struct Pos {
    id: FId,
    item: usize,
    m: Mut,
    cover: Cover,
}

fn sub(r: &R, a: usize, b: usize) -> R {
    r.start + a..r.start + b
}

fn orchard_positions(o: &OrchL, ironwood: bool, out: &mut Vec<Pos>) {
    use FId::*;
    let ids = if ironwood {
        [IwCv, IwNf, IwRk, IwCmx, IwEpk, IwEncC, IwEncM, IwEncR, IwOut, IwSig, IwFlags, IwVb, IwAnchor, IwProof, IwBinding]
    } else {
        [OrCv, OrNf, OrRk, OrCmx, OrEpk, OrEncC, OrEncM, OrEncR, OrOut, OrSig, OrFlags, OrVb, OrAnchor, OrProof, OrBinding]
    };
    let mut p = |id: FId, item: usize, m: Mut| {
        out.push(Pos {
            id,
            item,
            m,
            cover: Cover::Always,
        })
    };
    for (i, a) in o.actions.iter().enumerate() {
        p(ids[0], i, Mut::Pallas(a.cv.clone()));
        p(ids[1], i, Mut::FieldElem(a.nf.clone()));
        p(ids[2], i, Mut::Pallas(a.rk.clone()));
        p(ids[3], i, Mut::FieldElem(a.cmx.clone()));
        p(ids[4], i, Mut::Pallas(a.epk.clone()));
        p(ids[5], i, Mut::Flip(sub(&a.enc, 0, 52)));
        p(ids[6], i, Mut::Flip(sub(&a.enc, 52, 564)));
        p(ids[7], i, Mut::Flip(sub(&a.enc, 564, 580)));
        p(ids[8], i, Mut::Flip(a.out.clone()));
        p(ids[9], i, Mut::Flip(a.sig.clone()));
    }
    p(ids[10], 0, Mut::Flag(o.flags.clone(), 0b01));
    p(ids[10], 1, Mut::Flag(o.flags.clone(), 0b10));
    if ironwood {
        p(IwFlagsX, 0, Mut::Flag(o.flags.clone(), 0b100));
    }
    let m = MAX_MONEY as i64;
    p(ids[11], 0, Mut::Amount(o.value_balance.clone(), -m, m));
    p(ids[12], 0, Mut::FieldElem(o.anchor.clone()));
    p(ids[13], 0, Mut::Flip(o.proof.clone()));
    p(ids[14], 0, Mut::Flip(o.binding_sig.clone()));
}

/// Every mutable position of this transaction (plus its coins / external branch).
fn catalogue(l: &Layout, n_coins: usize) -> Vec<Pos> {
    use FId::*;
    let ver = l.ver;
    let mut out: Vec<Pos> = vec![];
    let m = MAX_MONEY as i64;
    {
        let mut p = |id: FId, item: usize, mu: Mut, cover: Cover| out.push(Pos { id, item, m: mu, cover });
        if let Some(b) = &l.branch {
            p(HdrBranch, 0, Mut::Branch(b.clone()), Cover::Always);
        }
        p(HdrLock, 0, Mut::XorU32(l.lock_time.clone()), Cover::Always);
        p(HdrLock, 1, Mut::Flip(l.lock_time.clone()), Cover::Always);
        if let Some(e) = &l.expiry {
            p(HdrExpiry, 0, Mut::XorU32(e.clone()), Cover::Always);
            p(HdrExpiry, 1, Mut::Flip(e.clone()), Cover::Always);
        }
        if v3v4(ver) {
            p(CtxBranch, 0, Mut::ExternalBranch, Cover::Always);
        }
        for (j, i) in l.vin.iter().enumerate() {
            p(InPrevHash, j, Mut::Flip(i.prev_hash.clone()), Cover::Prevout(j));
            p(InPrevN, j, Mut::XorU32(i.prev_n.clone()), Cover::Prevout(j));
            if !i.script.is_empty() {
                p(InScript, j, Mut::Flip(i.script.clone()), Cover::Never);
                p(
                    InScriptLen,
                    j,
                    Mut::Shorten {
                        field: i.script_field.clone(),
                        script: i.script.clone(),
                    },
                    Cover::Never,
                );
            }
            p(InSeq, j, Mut::XorU32(i.sequence.clone()), Cover::Sequence(j));
        }
        for (k, o) in l.vout.iter().enumerate() {
            p(OutValue, k, Mut::Amount(o.value.clone(), 0, m), Cover::Output(k));
            if !o.script.is_empty() {
                p(OutScript, k, Mut::Flip(o.script.clone()), Cover::Output(k));
                p(
                    OutScriptLen,
                    k,
                    Mut::Shorten {
                        field: o.script_field.clone(),
                        script: o.script.clone(),
                    },
                    Cover::Output(k),
                );
            }
        }
        if v3up(ver) {
            for j in 0..n_coins {
                p(CoinValue, j, Mut::CoinValue(j), Cover::Coin(j));
                p(CoinScript, j, Mut::CoinScript(j), Cover::Coin(j));
            }
        }
        let s = &l.sapling;
        // a v4 encoding always carries valueBalance, but with no spends and no outputs it must be 0
        // (consensus) and the parser has no bundle to keep it in: not a position
        if !(s.spends.is_empty() && s.outputs.is_empty()) {
            if let Some(vb) = &s.value_balance {
                p(SapVb, 0, Mut::Amount(vb.clone(), -m, m), Cover::Always);
            }
        }
        let auth = |id: FId| if tag(id, ver) == Tag::Authorising { Cover::Never } else { Cover::Always };
        if let Some(a) = &s.shared_anchor {
            p(SapAnchor, 0, Mut::FieldElem(a.clone()), auth(SapAnchor));
        }
        for (i, sp) in s.spends.iter().enumerate() {
            p(SapSpendCv, i, Mut::Jubjub(sp.cv.clone()), Cover::Always);
            if let Some(a) = &sp.anchor {
                p(SapAnchor, i, Mut::FieldElem(a.clone()), auth(SapAnchor));
            }
            p(SapSpendNf, i, Mut::Flip(sp.nf.clone()), Cover::Always);
            p(SapSpendRk, i, Mut::Jubjub(sp.rk.clone()), Cover::Always);
            p(SapSpendProof, i, Mut::Flip(sp.proof.clone()), auth(SapSpendProof));
            p(SapSpendSig, i, Mut::Flip(sp.sig.clone()), Cover::Never);
        }
        for (i, o) in s.outputs.iter().enumerate() {
            p(SapOutCv, i, Mut::Jubjub(o.cv.clone()), Cover::Always);
            p(SapOutCmu, i, Mut::FieldElem(o.cmu.clone()), Cover::Always);
            p(SapOutEpk, i, Mut::JubjubOrFlip(o.epk.clone()), Cover::Always);
            p(SapOutEncC, i, Mut::Flip(sub(&o.enc, 0, 52)), Cover::Always);
            p(SapOutEncM, i, Mut::Flip(sub(&o.enc, 52, 564)), Cover::Always);
            p(SapOutEncR, i, Mut::Flip(sub(&o.enc, 564, 580)), Cover::Always);
            p(SapOutOut, i, Mut::Flip(o.out.clone()), Cover::Always);
            p(SapOutProof, i, Mut::Flip(o.proof.clone()), auth(SapOutProof));
        }
        if let Some(b) = &s.binding_sig {
            p(SapBinding, 0, Mut::Flip(b.clone()), Cover::Never);
        }
    }
    if let Some(o) = &l.orchard {
        orchard_positions(o, false, &mut out);
    }
    if let Some(o) = &l.ironwood {
        orchard_positions(o, true, &mut out);
    }
    // authorising positions are covered by no signature hash
    for p in out.iter_mut() {
        if tag(p.id, ver) == Tag::Authorising {
            p.cover = Cover::Never;
        }
    }
    out
}

// ---------------------------------------------------------------------------------------------
// Mutators
// ---------------------------------------------------------------------------------------------

fn pick(sel: u64, idx: usize, len: usize) -> (usize, u8) {
    let h = hash64(&[sel.to_le_bytes(), (idx as u64).to_le_bytes()].concat());
    let off = match h % 4 {
        0 => 0,
        1 => len - 1,
        _ => ((h >> 8) % len as u64) as usize,
    };
    (off, 1u8 << ((h >> 40) % 8))
}

fn le256_dec_or_inc(b: &mut [u8]) {
    if b.iter().all(|x| *x == 0) {
        b[0] = 1;
        return;
    }
    for x in b.iter_mut() {
        if *x == 0 {
            *x = 0xff;
        } else {
            *x -= 1;
            break;
        }
    }
}

fn jubjub_next(b: &[u8]) -> Option<[u8; 32]> {
    let arr: [u8; 32] = b.try_into().ok()?;
    let p: Option<jubjub::AffinePoint> = jubjub::AffinePoint::from_bytes(arr).into();
    let p = jubjub::ExtendedPoint::from(p?);
    let g: jubjub::ExtendedPoint = jubjub::SubgroupPoint::generator().into();
    Some(jubjub::AffinePoint::from(p + g).to_bytes())
}

fn pallas_next(b: &[u8]) -> Option<[u8; 32]> {
    use pasta_curves::pallas;
    let arr: [u8; 32] = b.try_into().ok()?;
    let p: Option<pallas::Point> = pallas::Point::from_bytes(&arr).into();
    Some((p? + pallas::Point::generator()).to_bytes())
}

struct Mutated {
    bytes: Vec<u8>,
    coins: Vec<Coin>,
    branch: BranchId,
}

/// Applies the mutation; `None` = not applicable to this value (counted as skipped).
fn apply(c: &Case, ver: Ver, idx: usize, m: &Mut) -> Option<Mutated> {
    let mut bytes = c.bytes.clone();
    let mut coins = c.coins.clone();
    let mut branch = c.branch;
    let flip = |bytes: &mut Vec<u8>, r: &R| {
        let (off, bit) = pick(c.sel, idx, r.len());
        bytes[r.start + off] ^= bit;
    };
    match m {
        Mut::Flip(r) => {
            if r.is_empty() {
                return None;
            }
            flip(&mut bytes, r);
        }
        Mut::XorU32(r) => bytes[r.start] ^= 1,
        Mut::Amount(r, lo, hi) => {
            let v = i64::from_le_bytes(bytes[r.clone()].try_into().unwrap());
            let up = hash64(&[c.sel.to_le_bytes(), (idx as u64).to_le_bytes()].concat()) & 1 == 0;
            let nv = if (up && v < *hi) || v <= *lo { v + 1 } else { v - 1 };
            bytes[r.clone()].copy_from_slice(&nv.to_le_bytes());
        }
        Mut::FieldElem(r) => le256_dec_or_inc(&mut bytes[r.clone()]),
        Mut::Jubjub(r) => {
            let n = jubjub_next(&bytes[r.clone()])?;
            bytes[r.clone()].copy_from_slice(&n);
        }
        Mut::Pallas(r) => {
            let n = pallas_next(&bytes[r.clone()])?;
            bytes[r.clone()].copy_from_slice(&n);
        }
        Mut::JubjubOrFlip(r) => match jubjub_next(&bytes[r.clone()]) {
            Some(n) => bytes[r.clone()].copy_from_slice(&n),
            None => flip(&mut bytes, r),
        },
        Mut::Branch(r) => {
            let cur = u32::from_le_bytes(bytes[r.clone()].try_into().unwrap());
            let k = NU5_PLUS.iter().position(|b| branch_u32(*b) == cur)?;
            let step = 1 + (hash64(&c.sel.to_le_bytes()) % 4) as usize;
            let nb = NU5_PLUS[(k + step) % NU5_PLUS.len()];
            bytes[r.clone()].copy_from_slice(&branch_u32(nb).to_le_bytes());
        }
        Mut::Flag(r, mask) => bytes[r.start] ^= mask,
        Mut::Shorten { field, script } => {
            if script.is_empty() {
                return None;
            }
            let mut nf = vec![];
            compact_size(script.len() as u64 - 1, &mut nf);
            nf.extend_from_slice(&c.bytes[script.start..script.end - 1]);
            bytes.splice(field.clone(), nf);
        }
        Mut::CoinValue(j) => {
            let v = coins[*j].value;
            coins[*j].value = if v < MAX_MONEY { v + 1 } else { v - 1 };
        }
        Mut::CoinScript(j) => {
            let s = &mut coins[*j].script;
            if s.is_empty() {
                s.push(0x51);
            } else {
                let (off, bit) = pick(c.sel, idx, s.len());
                s[off] ^= bit;
            }
        }
        Mut::ExternalBranch => {
            let cands: &[BranchId] = if ver == Ver::V4 { &V4_BRANCHES } else { &[BranchId::Overwinter, BranchId::Sapling] };
            let k = cands.iter().position(|b| *b == branch)?;
            branch = cands[(k + 1 + (hash64(&c.sel.to_le_bytes()) % (cands.len() as u64 - 1)) as usize) % cands.len()];
        }
    }
    if bytes == c.bytes && coins == c.coins && branch == c.branch {
        return None;
    }
    Some(Mutated { bytes, coins, branch })
}

// ---------------------------------------------------------------------------------------------
// Interned counter names
// ---------------------------------------------------------------------------------------------

fn intern(s: String) -> &'static str {
    static NAMES: Mutex<BTreeMap<String, &'static str>> = Mutex::new(BTreeMap::new());
    let mut m = NAMES.lock().unwrap();
    if let Some(v) = m.get(&s) {
        return v;
    }
    let l: &'static str = Box::leak(s.clone().into_boxed_str());
    m.insert(s, l);
    l
}

fn row_name(ver: Ver, bundle: &str, t: Tag) -> &'static str {
    intern(format!("pos/{}/{}/{}", ver.name(), bundle, t.name()))
}

fn field_name(ver: Ver, d: &FieldDef, t: Tag) -> &'static str {
    intern(format!("field/{}/{}.{}/{}", ver.name(), d.bundle, d.field, t.name()))
}

// ---------------------------------------------------------------------------------------------
// Part B: the metamorphic oracle
// ---------------------------------------------------------------------------------------------

fn hx(h: &H) -> String {
    hex::encode(&h[..8])
}

fn check_metamorphic(c: &Case) -> CaseResult {
    let Parsed { tx, layout: l, fields: f } = parse_case(&c.bytes, c.branch)?;
    let ver = l.ver;
    let n_in = f.vin.len();
    let cb_or_none = n_in == 0 || f.is_coinbase();
    // coinbase inputs are not signed; pre-Overwinter signature hashing is documented as unsupported
    let with_inputs = n_in > 0 && !f.is_coinbase() && v3up(ver);
    let coins_n = if with_inputs { n_in } else { 0 };
    let base = observe(tx, &c.coins, with_inputs)?;

    let mut counters: BTreeMap<&'static str, u64> = BTreeMap::new();
    // zero rows for everything this version has
    for (id, d) in FIELD_DEFS {
        if (d.applies)(ver) {
            let t = tag(*id, ver);
            counters.entry(row_name(ver, d.bundle, t)).or_insert(0);
            counters.entry(field_name(ver, d, t)).or_insert(0);
        }
    }

    // The hash type is committed to: the six hash types give six different hashes per input.
    for (i, row) in base.inputs.iter().enumerate() {
        for a in 0..6 {
            for b in a + 1..6 {
                if row[a] == row[b] {
                    vfail!(
                        sig(ver, "hash-type-not-committed"),
                        "{}: input {i} of {n_in}: signature hashes for {} and {} are equal ({})",
                        ver.name(),
                        hash_type_name(HASH_TYPES[a]),
                        hash_type_name(HASH_TYPES[b]),
                        hx(&row[a])
                    );
                }
            }
        }
        *counters.entry("hash-type-rows").or_insert(0) += 1;
    }

    let cat = catalogue(&l, coins_n);
    let mut exercised = 0u64;
    let mut sighash_checks = 0u64;
    for (idx, p) in cat.iter().enumerate() {
        let d = def(p.id);
        let t = tag(p.id, ver);
        let whatpos = || format!("{} {}.{}[{}] ({}, {:?})", ver.name(), d.bundle, d.field, p.item, t.name(), p.m);
        let Some(mu) = apply(c, ver, idx, &p.m) else {
            *counters.entry(intern(format!("skipped-inapplicable/{}/{}.{}", ver.name(), d.bundle, d.field))).or_insert(0) += 1;
            continue;
        };
        let tx2 = match read_tx(&mu.bytes, mu.branch) {
            Err(pn) => vfail!("mutated-encoding-read-panic", "Transaction::read panicked on the mutated encoding of {}: {pn}", whatpos()),
            Ok(Err(_)) => {
                *counters.entry(intern(format!("skipped-unparseable/{}/{}.{}", ver.name(), d.bundle, d.field))).or_insert(0) += 1;
                continue;
            }
            Ok(Ok(t2)) => t2,
        };
        let n_in2 = tx2.transparent_bundle().map(|b| b.vin.len()).unwrap_or(0);
        if n_in2 != n_in {
            vfail!("harness-mutation-changed-shape", "harness: mutation of {} changed the number of inputs", whatpos());
        }
        let obs = observe(tx2, &mu.coins, with_inputs)?;
        exercised += 1;
        *counters.entry(row_name(ver, d.bundle, t)).or_insert(0) += 1;
        *counters.entry(field_name(ver, d, t)).or_insert(0) += 1;

        // --- identifier
        let external = matches!(p.m, Mut::CoinValue(_) | Mut::CoinScript(_) | Mut::ExternalBranch);
        let txid_must_change = !external && (t == Tag::Effecting || !ver.zip244());
        if txid_must_change && obs.txid == base.txid {
            vfail!(
                sig(ver, if ver.zip244() { "effecting-txid-unchanged" } else { "serialised-txid-unchanged" }),
                "changing {} left the txid unchanged ({})",
                whatpos(),
                hx(&base.txid)
            );
        }
        if !txid_must_change && obs.txid != base.txid {
            vfail!(
                sig(ver, if external { "external-txid-changed" } else { "authorising-txid-changed" }),
                "changing {} changed the txid ({} -> {})",
                whatpos(),
                hx(&base.txid),
                hx(&obs.txid)
            );
        }
        // --- authorising-data commitment (v5+)
        if ver.zip244() && !external {
            let (a0, a1) = (base.auth.unwrap(), obs.auth.unwrap());
            if t == Tag::Authorising && a0 == a1 {
                vfail!(sig(ver, "authorising-auth-digest-unchanged"), "changing {} left auth_commitment() unchanged ({})", whatpos(), hx(&a0));
            }
        }
        // --- signature hashes
        let mut one = |what: Signable, h0: &H, h1: &H| -> Result<(), Fail> {
            let cov = covered(ver, p.cover, what, cb_or_none);
            sighash_checks += 1;
            if cov && h0 == h1 {
                return Err(Fail::new(
                    sig(ver, "covered-sighash-unchanged"),
                    format!(
                        "changing {} left signature_hash({}) unchanged ({}); {} inputs, {} outputs",
                        whatpos(),
                        describe_signable(what),
                        hx(h0),
                        n_in,
                        f.vout.len()
                    ),
                ));
            }
            if !cov && h0 != h1 {
                let s = if t == Tag::Authorising { "authorising-sighash-changed" } else { "excluded-sighash-changed" };
                return Err(Fail::new(
                    sig(ver, s),
                    format!(
                        "changing {} changed signature_hash({}) ({} -> {}) although that hash is defined not to commit to it; {} inputs, {} outputs",
                        whatpos(),
                        describe_signable(what),
                        hx(h0),
                        hx(h1),
                        n_in,
                        f.vout.len()
                    ),
                ));
            }
            Ok(())
        };
        if let (Some(s0), Some(s1)) = (&base.shielded, &obs.shielded) {
            one(Signable::Shielded, s0, s1)?;
        }
        for i in 0..base.inputs.len() {
            for (k, ht) in HASH_TYPES.iter().enumerate() {
                one(Signable::Input(i, *ht), &base.inputs[i][k], &obs.inputs[i][k])?;
            }
        }
    }
    let mut o = Obs::new(exercised > 0)
        .key(hash64(&c.bytes))
        .label(ver.name())
        .label_if(f.is_coinbase(), "coinbase")
        .label_if(with_inputs, "transparent-inputs")
        .label_if(with_inputs && n_in > f.vout.len(), "single-index-beyond-outputs")
        .label_if(with_inputs && n_in >= 2, "two-or-more-inputs")
        .label_if(!f.spends.is_empty(), "sapling-spends")
        .label_if(!f.outputs.is_empty(), "sapling-outputs")
        .label_if(f.orchard.is_some(), "orchard")
        .label_if(f.ironwood.is_some(), "ironwood")
        .count("positions-exercised", exercised)
        .count("sighash-comparisons", sighash_checks);
    for (k, v) in counters {
        o = o.count(k, v);
    }
    Ok(o)
}

fn describe_signable(s: Signable) -> String {
    match s {
        Signable::Shielded => "Shielded".to_string(),
        Signable::Input(i, ht) => format!("input {i}, {}", hash_type_name(ht)),
    }
}

// ---------------------------------------------------------------------------------------------

fn main() {
    let ctx = Ctx::from_args("C04", "exploration");
    ctx.set_rule(
        "Transactions: the repository's bundle generators (transparent / Sapling / Orchard-shaped) composed by the harness into every \
         version (v1, v2, v3, v4, v5, v6) under every consensus branch the version is valid in (v5: NU5, NU6, NU6.1, NU6.2, NU6.3), with \
         coinbase shapes, empty bundles, boundary amounts/heights and 0..4 inputs/outputs, 0..3 spends/outputs, 1..4 actions; plus the \
         repository's own arb_tx(branch) unmodified (large bundles) and the fixed ZIP 143/243/244 vectors. Every transaction is taken \
         through write -> read first. Reference: every transaction x {txid, auth digest, Shielded, every input x 6 hash types}. \
         Metamorphic: every transaction x every catalogue position (one minimal mutation each). Non-trivial = at least one position \
         exists and was exercised (reference: every case); distinct = hash of the encoding.",
    );
    ctx.assume("BLAKE2b-256 / SHA-256 primitives (blake2b_simd, sha2) and the Jubjub / Pallas group arithmetic used to derive replacement points are correct");
    ctx.assume("ZIP 244 personalisations and structure are written from the ZIP text and validated against the published ZIP 244 test vectors (regression sub-check); ZIP 143/243 likewise");
    ctx.assume(
        "v6 (ZIP 229 draft) has no published vectors: the v6 reference is written from the rustdoc of transaction::txid and orchard::bundle::commitments \
         (anchors move to the auth digest; _v6 personalisations; fifth Ironwood digest), so it detects structural deviations, not a consistently wrong string",
    );
    ctx.assume("collision resistance: two different preimages never give equal digests in practice; unchanged means the preimage did not change");
    ctx.assume("signature hashing of pre-Overwinter (v1/v2) transactions is documented as unsupported (panic) and is not exercised; coinbase inputs are not signed in the metamorphic part");
    ctx.assume("a v4 valueBalance with no Sapling spends and outputs must be zero by consensus and is not a catalogue position");
    let tier = ctx.tier;

    // field catalogue as evidence
    let cat: Vec<serde_json::Value> = FIELD_DEFS
        .iter()
        .map(|(_, d)| {
            let mut tags = serde_json::Map::new();
            for v in [Ver::Sprout(1), Ver::Sprout(2), Ver::V3, Ver::V4, Ver::V5, Ver::V6] {
                if (d.applies)(v) {
                    tags.insert(v.name().to_string(), json!(if (d.authorising)(v) { "authorising" } else { "effecting" }));
                }
            }
            json!({"bundle": d.bundle, "field": d.field, "tag_by_version": tags})
        })
        .collect();
    ctx.extra("field_catalogue", json!(cat));

    // For sensitivity experiments only: VERIF_C04_ONLY=<sub-check>[,<sub-check>] restricts the run.
    let only: Option<Vec<String>> = std::env::var("VERIF_C04_ONLY").ok().map(|s| s.split(',').map(|x| x.trim().to_string()).collect());
    let on = |name: &str| only.as_ref().map(|o| o.iter().any(|x| x == name)).unwrap_or(true);
    if only.is_some() {
        ctx.extra("restricted_to_sub_checks", json!(only));
    }

    // 1. regression: fixed vectors + boundary transactions
    let regs = regression_list();
    if on("regression-vectors") {
        let regs2 = regression_list();
        ctx.run_enum("regression-vectors", regs.len() as u64, true, move |i| check_regression(&regs[i as usize]), move |i| describe_reg(&regs2[i as usize]));
    }
    ctx.require_min_count("regression-vectors", "zip244-vector", 10);
    ctx.require_min_count("regression-vectors", "zip143-vector", 5);
    ctx.require_min_count("regression-vectors", "zip243-vector", 5);

    // The repository's Orchard generators draw signing keys / ephemeral keys by rejection (about 10
    // local rejects per generated case here, about 100 per arb_tx case) and proptest's reject budget
    // (65 536 per worker) is cumulative over a run: the quota is therefore split into batches
    // (`name`, `name-b2`, ...) that each stay far below the budget whatever the worker count.
    let workers = ctx.workers;
    let batches = |base: &str, total: u64, per_worker: u64| -> Vec<(String, u64)> {
        let cap = per_worker * workers as u64;
        let n = total.div_ceil(cap).max(1);
        (0..n).map(|i| (if i == 0 { base.to_string() } else { format!("{base}-b{}", i + 1) }, total / n + u64::from(i < total % n))).collect()
    };

    // 2. reference differential
    if on("reference") {
        for (name, cases) in batches("reference", tier.pick(10_000, 400_000), 2_000) {
            ctx.run_prop_with(&name, arb_case, cases, 300, check_reference);
            for (l, f) in [
                ("v5", 0.25),
                ("v6", 0.20),
                ("v4", 0.12),
                ("v3", 0.03),
                ("v1", 0.015),
                ("v2", 0.015),
                ("coinbase", 0.03),
                ("transparent-inputs", 0.40),
                ("single-index-beyond-outputs", 0.10),
                ("orchard", 0.25),
                ("ironwood", 0.12),
                ("sapling-spends", 0.15),
                ("sapling-outputs-only", 0.02),
                ("v6-no-orchard-no-ironwood", 0.01),
                ("v6-orchard-only", 0.02),
                ("v6-ironwood-only", 0.02),
                ("v5-nu5", 0.03),
                ("v5-nu6", 0.03),
                ("v5-nu6.1", 0.03),
                ("v5-nu6.2", 0.03),
                ("v5-nu6.3", 0.03),
            ] {
                ctx.require_label_fraction(&name, l, f);
            }
        }
    }
    if on("reference-repo-arb-tx") {
        for (name, cases) in batches("reference-repo-arb-tx", tier.pick(400, 12_000), 150) {
            ctx.run_prop_with(&name, arb_repo_case, cases, 40, check_reference);
            ctx.require_label_fraction(&name, "v5", 0.15);
            ctx.require_label_fraction(&name, "v6", 0.035);
            ctx.require_label_fraction(&name, "v4", 0.08);
        }
    }

    // 3. metamorphic
    if on("metamorphic") {
        for (name, cases) in batches("metamorphic", tier.pick(3_500, 105_000), 2_000) {
            ctx.run_prop_with(&name, arb_case, cases, 200, check_metamorphic);
            for (l, f) in [("v5", 0.25), ("v6", 0.20), ("v4", 0.12), ("v3", 0.03), ("transparent-inputs", 0.35), ("two-or-more-inputs", 0.20), ("single-index-beyond-outputs", 0.10)] {
                ctx.require_label_fraction(&name, l, f);
            }
            // every (version, bundle, tag) row and every catalogue field must have been exercised
            // (minimums calibrated at 3 500 cases, scaled to the batch)
            let scaled = |per_3500: u64| (per_3500 * cases / 3_500).max(1);
            for v in [Ver::Sprout(1), Ver::Sprout(2), Ver::V3, Ver::V4, Ver::V5, Ver::V6] {
                let small = matches!(v, Ver::Sprout(_) | Ver::V3);
                let mut rows: BTreeMap<&'static str, ()> = BTreeMap::new();
                for (id, d) in FIELD_DEFS {
                    if (d.applies)(v) {
                        let t = tag(*id, v);
                        rows.insert(row_name(v, d.bundle, t), ());
                        // v6 is valid under NU6.3 only: another branch id parses only without Orchard-format
                        // bundles (about 9% of the v6 cases)
                        let min = if *id == FId::HdrBranch && v == Ver::V6 {
                            25
                        } else if small {
                            15
                        } else {
                            100
                        };
                        ctx.require_min_count(&name, field_name(v, d, t), scaled(min));
                    }
                }
                for r in rows.keys() {
                    ctx.require_min_count(&name, r, scaled(if small { 60 } else { 500 }));
                }
            }
        }
    }
    ctx.finish();
}

//! C07 — Fee and change computation conserves value and pays the ZIP 317 fee.
//!
//! Sub-checks
//! * `fee-vectors`      hand-derived ZIP 317 fee vectors (pins the reference formula itself).
//! * `fee-required`     oracle 1: `FeeRule::fee_required` (zip317 standard / non-standard /
//!                      `StandardFeeRule`) against an independent u128 formula.
//! * `balance-regress`  fixed boundary cases of `compute_balance` through the generic oracle plus
//!                      a few hand-derived expectations.
//! * `compute-balance`  oracles 2-6 on generated cases (Single/Multi strategies, both fee-rule
//!                      types, all pools/policies, heights on both sides of NU6.3, anchors on/off
//!                      the ZIP 318 grid), inputs solved so that cases land on the regime frontiers.
//!
//! The reference model (padding rules, canonical-crossing rule, split count) is written from the
//! rustdoc of `sapling::builder::BundleType`, `orchard::builder::BundleType::num_actions`,
//! `Step::is_canonical_crossing`, `SplitPolicy`, `DustOutputPolicy`, `TransparentChangePolicy`
//! and ZIP 317; it shares no code with `zcash_client_backend::fees`.

use std::num::NonZeroUsize;
use std::sync::OnceLock;

use proptest::collection::vec as pvec;
use proptest::prelude::*;
use proptest::sample::select;
use vcore::{catch, panic_site, pick_index, vensure, vensure_eq, vfail, CaseResult, Ctx, Fail, Obs};

use zcash_client_backend::data_api::anchor_retention::{AnchorRetentionInterval, PoolMigrationParams};
use zcash_client_backend::data_api::testing::MockWalletDb;
use zcash_client_backend::data_api::wallet::TargetHeight;
use zcash_client_backend::data_api::{AccountMeta, PoolMeta};
use zcash_client_backend::fees::zip317::{MultiOutputChangeStrategy, SingleOutputChangeStrategy};
use zcash_client_backend::fees::{
    orchard as orchard_fees, sapling as sapling_fees, ChangeError, ChangeStrategy, DustAction, DustOutputPolicy,
    EphemeralBalance, SplitPolicy, StandardFeeRule, TransactionBalance, TransparentChangePolicy,
};
use zcash_primitives::transaction::fees::transparent::{InputSize, InputView, OutputView};
use zcash_primitives::transaction::fees::zip317::{FeeError, FeeRule as Zip317FeeRule};
use zcash_primitives::transaction::fees::FeeRule;
use zcash_protocol::consensus::BlockHeight;
use zcash_protocol::local_consensus::LocalNetwork;
use zcash_protocol::memo::MemoBytes;
use zcash_protocol::value::{BalanceError, Zatoshis, MAX_MONEY};
use zcash_protocol::{PoolType, ShieldedPool};
use zcash_transparent::address::{Script, TransparentAddress};
use zcash_transparent::bundle::{OutPoint, TxOut};

const M: u128 = MAX_MONEY as u128;
const MARGINAL: u128 = 5_000;
const GRACE: u128 = 2;
const STD_IN: u128 = 150;
const STD_OUT: u128 = 34;
/// Finding: the Ironwood padding is priced as a canonical crossing (unpadded) although an ephemeral
/// transparent output is present; the recorded shape / `Step::is_canonical_crossing` are padded.
const SIG_EPH_CROSSING: &str = "canonical-crossing-priced-with-ephemeral-output";
/// 10 x MINIMUM_FEE: the documented guard of `DustAction::AddDustToFee`.
const DUST_FEE_GUARD: u128 = 100_000;

// ---------------------------------------------------------------------------------------------
// Case description (plain data; everything the harness needs is rebuilt from it)
// ---------------------------------------------------------------------------------------------

#[derive(Clone, Copy, Debug, PartialEq, Eq, PartialOrd, Ord)]
enum Pool {
    Transparent,
    Sapling,
    Orchard,
    Ironwood,
}

impl Pool {
    fn name(self) -> &'static str {
        match self {
            Pool::Transparent => "transparent",
            Pool::Sapling => "sapling",
            Pool::Orchard => "orchard",
            Pool::Ironwood => "ironwood",
        }
    }
    fn shielded(self) -> ShieldedPool {
        match self {
            Pool::Sapling => ShieldedPool::Sapling,
            Pool::Orchard => ShieldedPool::Orchard,
            Pool::Ironwood => ShieldedPool::Ironwood,
            Pool::Transparent => unreachable!("harness: transparent is not a shielded pool"),
        }
    }
    fn of(p: PoolType) -> Pool {
        match p {
            PoolType::Transparent => Pool::Transparent,
            PoolType::Shielded(ShieldedPool::Sapling) => Pool::Sapling,
            PoolType::Shielded(ShieldedPool::Orchard) => Pool::Orchard,
            PoolType::Shielded(ShieldedPool::Ironwood) => Pool::Ironwood,
        }
    }
}

/// Orchard-family bundle version handed to the bundle view.
#[derive(Clone, Copy, Debug, PartialEq, Eq)]
enum Ver {
    OrchardV1,
    OrchardV2,
    OrchardV3,
    IronwoodV3,
}

impl Ver {
    fn real(self) -> orchard::bundle::BundleVersion {
        use orchard::bundle::BundleVersion as B;
        match self {
            Ver::OrchardV1 => B::orchard_insecure_v1(),
            Ver::OrchardV2 => B::orchard_v2(),
            Ver::OrchardV3 => B::orchard_v3(),
            Ver::IronwoodV3 => B::ironwood_v3(),
        }
    }
    /// orchard rustdoc: every version permits cross-address transfers except the Orchard pool under
    /// protocol V3; without them a requested spend and output never share an action.
    fn no_sharing(self) -> bool {
        self == Ver::OrchardV3
    }
}

#[derive(Clone, Copy, Debug, PartialEq, Eq)]
enum SapTy {
    Default,
    Required,
    Coinbase,
}

impl SapTy {
    fn real(self) -> sapling::builder::BundleType {
        match self {
            SapTy::Default => sapling::builder::BundleType::DEFAULT,
            SapTy::Required => sapling::builder::BundleType::Transactional { bundle_required: true },
            SapTy::Coinbase => sapling::builder::BundleType::Coinbase,
        }
    }
}

/// How the harness transparent input reports its size.
#[derive(Clone, Copy, Debug, PartialEq, Eq)]
enum TSize {
    /// `serialized_size()` overridden to `InputSize::Known(n)`.
    Known(usize),
    /// `serialized_size()` overridden to `InputSize::Unknown(outpoint)`.
    Unknown,
    /// trait default on a P2PKH coin (documented: the ZIP 317 standard size).
    ScriptP2pkh,
    /// trait default on a P2SH coin (documented: unknown).
    ScriptP2sh,
    /// trait default on an empty script (unknown).
    ScriptEmpty,
}

impl TSize {
    /// Reference size; `None` = unknown.
    fn reference(self) -> Option<u128> {
        match self {
            TSize::Known(n) => Some(n as u128),
            TSize::ScriptP2pkh => Some(STD_IN),
            TSize::Unknown | TSize::ScriptP2sh | TSize::ScriptEmpty => None,
        }
    }
}

#[derive(Clone, Copy, Debug, PartialEq, Eq)]
enum Eph {
    None,
    In(u64),
    Out(u64),
}

#[derive(Clone, Copy, Debug, PartialEq, Eq)]
enum DAct {
    Reject,
    Allow,
    AddToFee,
}

impl DAct {
    fn name(self) -> &'static str {
        match self {
            DAct::Reject => "Reject",
            DAct::Allow => "AllowDustChange",
            DAct::AddToFee => "AddDustToFee",
        }
    }
    fn real(self) -> DustAction {
        match self {
            DAct::Reject => DustAction::Reject,
            DAct::Allow => DustAction::AllowDustChange,
            DAct::AddToFee => DustAction::AddDustToFee,
        }
    }
}

#[derive(Clone, Debug, PartialEq, Eq)]
enum Strat {
    Single,
    Multi {
        target: usize,
        min: u64,
        /// (note count, total value) for sapling / orchard / ironwood.
        meta: [Option<(usize, u64)>; 3],
    },
}

#[derive(Clone, Copy, Debug, PartialEq, Eq)]
enum Rule {
    Prim,
    Standard,
}

#[derive(Clone, Copy, Debug, PartialEq, Eq)]
enum Regime {
    Free,
    Frontier0,
    FrontierK,
    DustEdge,
    SplitEdge,
    Turnstile,
    DustGuard,
    Rich,
}

impl Regime {
    const ALL: [Regime; 8] = [
        Regime::Free,
        Regime::Frontier0,
        Regime::FrontierK,
        Regime::DustEdge,
        Regime::SplitEdge,
        Regime::Turnstile,
        Regime::DustGuard,
        Regime::Rich,
    ];
    fn name(self) -> &'static str {
        match self {
            Regime::Free => "free",
            Regime::Frontier0 => "frontier0",
            Regime::FrontierK => "frontierK",
            Regime::DustEdge => "dust-edge",
            Regime::SplitEdge => "split-edge",
            Regime::Turnstile => "turnstile",
            Regime::DustGuard => "dust-guard",
            Regime::Rich => "rich",
        }
    }
}

#[derive(Clone, Debug, PartialEq, Eq)]
struct Case {
    tmpl: &'static str,
    /// NU6.3 activation height of the LocalNetwork (NU5=100, NU6=200, NU6.1=250, NU6.2=300).
    nu6_3: Option<u32>,
    target: u32,
    anchor: u32,
    interval: u32,
    t_in: Vec<(u64, TSize)>,
    /// (value, script length)
    t_out: Vec<(u64, usize)>,
    sap_ty: SapTy,
    s_in: Vec<u64>,
    s_out: Vec<u64>,
    o_ver: Ver,
    o_in: Vec<u64>,
    o_out: Vec<u64>,
    i_ver: Ver,
    i_in: Vec<u64>,
    i_out: Vec<u64>,
    eph: Eph,
    strat: Strat,
    rule: Rule,
    dact: DAct,
    dthr: Option<u64>,
    fallback: Pool,
    memo: bool,
    t_change_ok: bool,
    regime: Regime,
    /// small signed offset from the regime's frontier
    delta: i64,
    /// large positive surplus for `Regime::Rich`
    rich: u64,
    fund: u32,
    split_n: u32,
}

fn sum(v: &[u64]) -> u128 {
    v.iter().map(|x| *x as u128).sum()
}

impl Case {
    fn eph_in(&self) -> u128 {
        if let Eph::In(v) = self.eph {
            v as u128
        } else {
            0
        }
    }
    fn eph_out(&self) -> u128 {
        if let Eph::Out(v) = self.eph {
            v as u128
        } else {
            0
        }
    }
    fn t_in_sum(&self) -> u128 {
        self.t_in.iter().map(|x| x.0 as u128).sum::<u128>() + self.eph_in()
    }
    fn t_out_sum(&self) -> u128 {
        self.t_out.iter().map(|x| x.0 as u128).sum::<u128>() + self.eph_out()
    }
    fn sum_in(&self) -> u128 {
        self.t_in_sum() + sum(&self.s_in) + sum(&self.o_in) + sum(&self.i_in)
    }
    fn sum_out(&self) -> u128 {
        self.t_out_sum() + sum(&self.s_out) + sum(&self.o_out) + sum(&self.i_out)
    }
    fn nu63_active(&self) -> bool {
        self.nu6_3.is_some_and(|h| self.target >= h)
    }
    fn thr(&self) -> u128 {
        // DustOutputPolicy: `None` delegates to the strategy; the ZIP 317 strategies use the
        // marginal fee.
        self.dthr.map(|x| x as u128).unwrap_or(MARGINAL)
    }
    /// The change memo is documented to be discarded in a step that has an ephemeral input.
    fn effective_memo(&self) -> bool {
        self.memo && !matches!(self.eph, Eph::In(_))
    }
    fn shielded_flows_zero(&self) -> bool {
        sum(&self.s_in) == 0
            && sum(&self.s_out) == 0
            && sum(&self.o_in) == 0
            && sum(&self.o_out) == 0
            && sum(&self.i_in) == 0
            && sum(&self.i_out) == 0
    }
    fn anchor_on_grid(&self) -> bool {
        self.anchor % self.interval == 0
    }
    fn has_unknown_input(&self) -> bool {
        self.t_in.iter().any(|x| x.1.reference().is_none())
    }
    fn min_split(&self) -> Option<u128> {
        match &self.strat {
            Strat::Single => None,
            Strat::Multi { min, .. } => Some(*min as u128),
        }
    }
    /// SplitPolicy rustdoc: as many outputs as needed to bring the account up to
    /// `target_output_count` notes, at least one; a single output when no count is known.
    fn n0_shielded(&self) -> usize {
        match &self.strat {
            Strat::Single => 1,
            Strat::Multi { target, meta, .. } => {
                let known: Vec<usize> = meta.iter().flatten().map(|m| m.0).collect();
                if known.is_empty() {
                    1
                } else {
                    target.saturating_sub(known.iter().sum::<usize>()).max(1)
                }
            }
        }
    }
    fn n0(&self, pool: Pool) -> usize {
        if pool == Pool::Transparent {
            1
        } else {
            self.n0_shielded()
        }
    }
}

// ---------------------------------------------------------------------------------------------
// Reference model
// ---------------------------------------------------------------------------------------------

fn ceil_div(a: u128, b: u128) -> u128 {
    a.div_ceil(b)
}

/// ZIP 317: marginal * max(grace, max(ceil(in/150), ceil(out/34)) + max(s_in, s_out) + orchard + ironwood).
#[allow(clippy::too_many_arguments)]
fn zip317(
    marginal: u128,
    grace: u128,
    std_in: u128,
    std_out: u128,
    t_in_bytes: u128,
    t_out_bytes: u128,
    s_in: u128,
    s_out: u128,
    o: u128,
    i: u128,
) -> u128 {
    let logical = ceil_div(t_in_bytes, std_in).max(ceil_div(t_out_bytes, std_out)) + s_in.max(s_out) + o + i;
    marginal * grace.max(logical)
}

fn compact_size_len(n: usize) -> usize {
    if n < 253 {
        1
    } else if n <= 0xFFFF {
        3
    } else if n <= 0xFFFF_FFFF {
        5
    } else {
        9
    }
}

/// ZIP 318 canonical denomination: {1,2,5} x 10^k within [0.01 ZEC, 10 000 ZEC].
fn ref_canonical_denomination(v: u64) -> bool {
    if !(1_000_000..=1_000_000_000_000).contains(&v) {
        return false;
    }
    let mut n = v;
    while n % 10 == 0 {
        n /= 10;
    }
    n == 1 || n == 2 || n == 5
}

#[derive(Clone, Copy, Debug, PartialEq, Eq)]
enum RefErr {
    UnknownInput,
    SaplingCoinbaseSpends,
}

/// Padded counts of one shape.
#[derive(Clone, Copy, Debug, PartialEq, Eq)]
struct Counts {
    s_spends: usize,
    s_outputs: usize,
    o_actions: usize,
    i_actions: usize,
    s_dummy: usize,
    o_dummy: usize,
    i_dummy: usize,
}

/// Orchard-family action count (orchard `BundleType::num_actions` rustdoc, transactional, default
/// flags of the version): requested = spends+outputs without action sharing, else max; a non-empty
/// bundle is padded to `pad_min`.
fn orchard_family_actions(ver: Ver, pad_min: usize, spends: usize, outputs: usize) -> usize {
    let requested = if ver.no_sharing() { spends + outputs } else { spends.max(outputs) };
    if requested > 0 {
        requested.max(pad_min)
    } else {
        0
    }
}

/// `Step::is_canonical_crossing` rustdoc (structural bullets; the fee bullet is documented to be
/// absent from the padding decision). "No change in any other pool" is evaluated there with
/// `change_count_in_pool`, which counts every `proposed_change` entry of the pool; an ephemeral
/// transparent output is such an entry, so it disqualifies the crossing (`count_eph`).
fn ref_canonical_crossing_opt(c: &Case, k: usize, pool: Option<Pool>, count_eph: bool) -> bool {
    let ch = |p: Pool| if pool == Some(p) { k } else { 0 };
    c.o_in.len() == 1
        && ch(Pool::Orchard) <= 1
        && ch(Pool::Sapling) == 0
        && ch(Pool::Transparent) == 0
        && !(count_eph && matches!(c.eph, Eph::Out(_)))
        && c.i_in.is_empty()
        && ch(Pool::Ironwood) == 0
        && c.i_out.len() == 1
        && ref_canonical_denomination(c.i_out[0])
        && c.anchor_on_grid()
}

fn ref_canonical_crossing(c: &Case, k: usize, pool: Option<Pool>) -> bool {
    ref_canonical_crossing_opt(c, k, pool, true)
}

fn ref_counts(c: &Case, k: usize, pool: Option<Pool>) -> Result<Counts, RefErr> {
    ref_counts_opt(c, k, pool, true)
}

fn ref_counts_opt(c: &Case, k: usize, pool: Option<Pool>, count_eph: bool) -> Result<Counts, RefErr> {
    let ch = |p: Pool| if pool == Some(p) { k } else { 0 };
    // Sapling (sapling-crypto BundleType rustdoc)
    let s_real_out = c.s_out.len() + ch(Pool::Sapling);
    let (s_spends, s_outputs) = match c.sap_ty {
        SapTy::Coinbase => {
            if !c.s_in.is_empty() {
                return Err(RefErr::SaplingCoinbaseSpends);
            }
            (0, s_real_out)
        }
        ty => {
            let required = ty == SapTy::Required;
            let spends = if required || !c.s_in.is_empty() { c.s_in.len().max(1) } else { 0 };
            let outputs = if required || !c.s_in.is_empty() || s_real_out > 0 { s_real_out.max(2) } else { 0 };
            (spends, outputs)
        }
    };
    // Orchard: both strategies always use the default padding (floor 2).
    let o_real_out = c.o_out.len() + ch(Pool::Orchard);
    let o_actions = orchard_family_actions(c.o_ver, 2, c.o_in.len(), o_real_out);
    // Ironwood: unpadded exactly for a canonical crossing.
    let i_real_out = c.i_out.len() + ch(Pool::Ironwood);
    let pad = if ref_canonical_crossing_opt(c, k, pool, count_eph) { 1 } else { 2 };
    let i_actions = orchard_family_actions(c.i_ver, pad, c.i_in.len(), i_real_out);
    Ok(Counts {
        s_spends,
        s_outputs,
        o_actions,
        i_actions,
        s_dummy: s_outputs - s_real_out,
        o_dummy: o_actions.saturating_sub(o_real_out),
        i_dummy: i_actions.saturating_sub(i_real_out),
    })
}

/// Reference ZIP 317 fee of the shape "requested inputs/outputs + k change outputs in `pool`".
fn ref_fee(c: &Case, k: usize, pool: Option<Pool>) -> Result<u128, RefErr> {
    let n = ref_counts(c, k, pool)?;
    ref_fee_with(c, k, pool, &n)
}

/// Same, pricing the Ironwood padding as if an ephemeral output did not matter.
fn ref_fee_ignoring_ephemeral(c: &Case, k: usize, pool: Option<Pool>) -> Result<u128, RefErr> {
    let n = ref_counts_opt(c, k, pool, false)?;
    ref_fee_with(c, k, pool, &n)
}

/// ZIP 317 fee for explicitly given padded counts.
fn ref_fee_with(c: &Case, k: usize, pool: Option<Pool>, n: &Counts) -> Result<u128, RefErr> {
    let mut t_in_bytes: u128 = 0;
    for (_, sz) in &c.t_in {
        t_in_bytes += sz.reference().ok_or(RefErr::UnknownInput)?;
    }
    if matches!(c.eph, Eph::In(_)) {
        t_in_bytes += STD_IN;
    }
    let mut t_out_bytes: u128 = c.t_out.iter().map(|(_, len)| (8 + compact_size_len(*len) + *len) as u128).sum();
    if matches!(c.eph, Eph::Out(_)) {
        t_out_bytes += STD_OUT;
    }
    if pool == Some(Pool::Transparent) {
        t_out_bytes += STD_OUT * k as u128;
    }
    Ok(zip317(
        MARGINAL,
        GRACE,
        STD_IN,
        STD_OUT,
        t_in_bytes,
        t_out_bytes,
        n.s_spends as u128,
        n.s_outputs as u128,
        n.o_actions as u128,
        n.i_actions as u128,
    ))
}

/// Documented change-pool policy (used only to steer the generator and for an informational
/// label; the oracles take the pool from the result).
fn model_pool(c: &Case) -> Pool {
    if c.shielded_flows_zero() && !c.effective_memo() && c.t_change_ok {
        return Pool::Transparent;
    }
    let preferred = if sum(&c.o_in) > 0 || sum(&c.o_out) > 0 {
        Pool::Orchard
    } else if sum(&c.i_in) > 0 || sum(&c.i_out) > 0 {
        Pool::Ironwood
    } else if sum(&c.s_in) > 0 || sum(&c.s_out) > 0 {
        Pool::Sapling
    } else {
        c.fallback
    };
    if c.nu63_active() && preferred == Pool::Orchard {
        let f0 = ref_fee(c, 0, None).unwrap_or(2 * MARGINAL);
        let max_change = c.sum_in().saturating_sub(c.sum_out() + f0);
        if sum(&c.o_in) == 0 || max_change >= sum(&c.o_in) {
            return Pool::Ironwood;
        }
    }
    preferred
}

/// SplitPolicy rustdoc: the largest count <= n0 whose parts all reach the minimum, else one.
fn ref_split(n0: usize, min: u128, change: u128) -> usize {
    (1..=n0).rev().find(|n| change / (*n as u128) >= min).unwrap_or(1)
}

/// All (k, pool) shapes a strategy could have priced for this case.
fn candidates(c: &Case) -> Vec<(usize, Option<Pool>)> {
    let mut v = vec![(0usize, None)];
    for p in [Pool::Sapling, Pool::Orchard, Pool::Ironwood] {
        for k in 1..=c.n0_shielded() {
            v.push((k, Some(p)));
        }
    }
    if c.t_change_ok {
        v.push((1, Some(Pool::Transparent)));
    }
    v
}

// ---------------------------------------------------------------------------------------------
// Harness views
// ---------------------------------------------------------------------------------------------

fn zat(v: u64) -> Zatoshis {
    Zatoshis::from_u64(v).expect("harness: generated value within MAX_MONEY")
}

fn outpoint(i: usize) -> OutPoint {
    let mut h = [0u8; 32];
    h[..8].copy_from_slice(&(i as u64 + 1).to_le_bytes());
    OutPoint::new(h, i as u32)
}

fn script_of_len(len: usize) -> Script {
    // CompactSize-prefixed byte vector of OP_NOP-free filler (0x51 = OP_1)
    let mut enc = Vec::with_capacity(len + 3);
    if len < 253 {
        enc.push(len as u8);
    } else {
        enc.push(253);
        enc.extend_from_slice(&(len as u16).to_le_bytes());
    }
    enc.extend(std::iter::repeat(0x51u8).take(len));
    Script::read(&enc[..]).expect("harness: script encoding")
}

#[derive(Debug)]
struct HTIn {
    outpoint: OutPoint,
    coin: TxOut,
    size: Option<InputSize>,
}

/// Same input without the override, to reach the trait's default `serialized_size`.
#[derive(Debug)]
struct HTInDefault<'a>(&'a HTIn);

impl InputView for HTInDefault<'_> {
    fn outpoint(&self) -> &OutPoint {
        &self.0.outpoint
    }
    fn coin(&self) -> &TxOut {
        &self.0.coin
    }
}

impl InputView for HTIn {
    fn outpoint(&self) -> &OutPoint {
        &self.outpoint
    }
    fn coin(&self) -> &TxOut {
        &self.coin
    }
    fn serialized_size(&self) -> InputSize {
        match &self.size {
            Some(s) => s.clone(),
            None => HTInDefault(self).serialized_size(),
        }
    }
}

#[derive(Debug)]
struct HTOut {
    value: Zatoshis,
    script: Script,
}

impl OutputView for HTOut {
    fn value(&self) -> Zatoshis {
        self.value
    }
    fn script_pubkey(&self) -> &Script {
        &self.script
    }
}

struct HNote {
    id: u32,
    value: Zatoshis,
}

impl sapling_fees::InputView<u32> for HNote {
    fn note_id(&self) -> &u32 {
        &self.id
    }
    fn value(&self) -> Zatoshis {
        self.value
    }
}

impl orchard_fees::InputView<u32> for HNote {
    fn note_id(&self) -> &u32 {
        &self.id
    }
    fn value(&self) -> Zatoshis {
        self.value
    }
}

struct HOut(Zatoshis);

impl sapling_fees::OutputView for HOut {
    fn value(&self) -> Zatoshis {
        self.0
    }
}

impl orchard_fees::OutputView for HOut {
    fn value(&self) -> Zatoshis {
        self.0
    }
}

struct HSapling {
    ty: sapling::builder::BundleType,
    ins: Vec<HNote>,
    outs: Vec<HOut>,
}

impl sapling_fees::BundleView<u32> for HSapling {
    type In = HNote;
    type Out = HOut;
    fn bundle_type(&self) -> sapling::builder::BundleType {
        self.ty
    }
    fn inputs(&self) -> &[HNote] {
        &self.ins
    }
    fn outputs(&self) -> &[HOut] {
        &self.outs
    }
}

struct HOrchard {
    ver: orchard::bundle::BundleVersion,
    ins: Vec<HNote>,
    outs: Vec<HOut>,
}

impl orchard_fees::BundleView<u32> for HOrchard {
    type In = HNote;
    type Out = HOut;
    fn bundle_version(&self) -> orchard::bundle::BundleVersion {
        self.ver
    }
    fn inputs(&self) -> &[HNote] {
        &self.ins
    }
    fn outputs(&self) -> &[HOut] {
        &self.outs
    }
}

struct Harness {
    net: LocalNetwork,
    t_in: Vec<HTIn>,
    t_out: Vec<HTOut>,
    sapling: HSapling,
    orchard: HOrchard,
    ironwood: HOrchard,
    eph: Option<EphemeralBalance>,
    zip318: PoolMigrationParams,
}

fn notes(v: &[u64]) -> Vec<HNote> {
    v.iter().enumerate().map(|(i, x)| HNote { id: i as u32, value: zat(*x) }).collect()
}
fn outs(v: &[u64]) -> Vec<HOut> {
    v.iter().map(|x| HOut(zat(*x))).collect()
}

fn local_network(nu6_3: Option<u32>) -> LocalNetwork {
    let h = |x: u32| Some(BlockHeight::from_u32(x));
    LocalNetwork {
        overwinter: h(1),
        sapling: h(1),
        blossom: h(1),
        heartwood: h(1),
        canopy: h(1),
        nu5: h(100),
        nu6: h(200),
        nu6_1: h(250),
        nu6_2: h(300),
        nu6_3: nu6_3.map(BlockHeight::from_u32),
    }
}

fn build_harness(c: &Case) -> Harness {
    let p2pkh: Script = TransparentAddress::PublicKeyHash([7u8; 20]).script().into();
    let p2sh: Script = TransparentAddress::ScriptHash([9u8; 20]).script().into();
    let t_in = c
        .t_in
        .iter()
        .enumerate()
        .map(|(i, (v, sz))| {
            let op = outpoint(i);
            let (script, size) = match sz {
                TSize::Known(n) => (p2pkh.clone(), Some(InputSize::Known(*n))),
                TSize::Unknown => (p2pkh.clone(), Some(InputSize::Unknown(op.clone()))),
                TSize::ScriptP2pkh => (p2pkh.clone(), None),
                TSize::ScriptP2sh => (p2sh.clone(), None),
                TSize::ScriptEmpty => (Script::default(), None),
            };
            HTIn { outpoint: op, coin: TxOut::new(zat(*v), script), size }
        })
        .collect();
    let t_out = c.t_out.iter().map(|(v, len)| HTOut { value: zat(*v), script: script_of_len(*len) }).collect();
    Harness {
        net: local_network(c.nu6_3),
        t_in,
        t_out,
        sapling: HSapling { ty: c.sap_ty.real(), ins: notes(&c.s_in), outs: outs(&c.s_out) },
        orchard: HOrchard { ver: c.o_ver.real(), ins: notes(&c.o_in), outs: outs(&c.o_out) },
        ironwood: HOrchard { ver: c.i_ver.real(), ins: notes(&c.i_in), outs: outs(&c.i_out) },
        eph: match c.eph {
            Eph::None => None,
            Eph::In(v) => Some(EphemeralBalance::Input(zat(v))),
            Eph::Out(v) => Some(EphemeralBalance::Output(zat(v))),
        },
        zip318: PoolMigrationParams::new(if c.interval == 144 {
            AnchorRetentionInterval::ZIP_318
        } else {
            AnchorRetentionInterval::custom(std::num::NonZeroU32::new(c.interval).expect("harness: interval > 0"))
        }),
    }
}

type BalanceResult = Result<TransactionBalance, ChangeError<FeeError, u32>>;

fn run_with<S>(s: &S, c: &Case, h: &Harness, meta: &S::AccountMetaT) -> BalanceResult
where
    S: ChangeStrategy<Error = FeeError>,
{
    s.compute_balance::<_, u32>(
        &h.net,
        TargetHeight::from(c.target),
        BlockHeight::from_u32(c.anchor),
        &h.zip318,
        &h.t_in,
        &h.t_out,
        &h.sapling,
        &h.orchard,
        &h.ironwood,
        h.eph,
        meta,
    )
}

fn memo_bytes() -> MemoBytes {
    MemoBytes::from_bytes(b"c07 change memo").expect("harness: memo")
}

/// Calls the strategy selected by the case (panics propagate to the caller's `catch`).
fn run_case(c: &Case, h: &Harness) -> BalanceResult {
    let memo = c.memo.then(memo_bytes);
    let policy = DustOutputPolicy::new(c.dact.real(), c.dthr.map(zat));
    let tpol = if c.t_change_ok {
        TransparentChangePolicy::TransparentChangeAllowed
    } else {
        TransparentChangePolicy::ShieldChange
    };
    let fb = c.fallback.shielded();
    match (&c.strat, c.rule) {
        (Strat::Single, Rule::Prim) => {
            let s = SingleOutputChangeStrategy::<_, MockWalletDb>::new(Zip317FeeRule::standard(), memo, fb, policy)
                .with_transparent_change_policy(tpol);
            run_with(&s, c, h, &())
        }
        (Strat::Single, Rule::Standard) => {
            let s = SingleOutputChangeStrategy::<_, MockWalletDb>::new(StandardFeeRule::Zip317, memo, fb, policy)
                .with_transparent_change_policy(tpol);
            run_with(&s, c, h, &())
        }
        (Strat::Multi { target, min, meta }, rule) => {
            let split = SplitPolicy::with_min_output_value(
                NonZeroUsize::new(*target).expect("harness: target > 0"),
                zat(*min),
            );
            let pm = |m: &Option<(usize, u64)>| m.map(|(n, v)| PoolMeta::new(n, zat(v)));
            let am = AccountMeta::new(pm(&meta[0]), pm(&meta[1]), pm(&meta[2]));
            match rule {
                Rule::Prim => {
                    let s = MultiOutputChangeStrategy::<_, MockWalletDb>::new(
                        Zip317FeeRule::standard(),
                        memo,
                        fb,
                        policy,
                        split,
                    )
                    .with_transparent_change_policy(tpol);
                    run_with(&s, c, h, &am)
                }
                Rule::Standard => {
                    let s = MultiOutputChangeStrategy::<_, MockWalletDb>::new(
                        StandardFeeRule::Zip317,
                        memo,
                        fb,
                        policy,
                        split,
                    )
                    .with_transparent_change_policy(tpol);
                    run_with(&s, c, h, &am)
                }
            }
        }
    }
}

// ---------------------------------------------------------------------------------------------
// Static label tables (regime x outcome, policy x change pool)
// ---------------------------------------------------------------------------------------------

const OUTCOMES: [&str; 7] = ["ok-change", "ok-nochange", "insufficient", "dust-inputs", "bundle-error", "overflow", "unknown-input"];
const POOLS5: [&str; 5] = ["transparent", "sapling", "orchard", "ironwood", "none"];

fn regime_label(r: Regime, outcome: usize) -> &'static str {
    static T: OnceLock<Vec<&'static str>> = OnceLock::new();
    let t = T.get_or_init(|| {
        let mut v = vec![];
        for r in Regime::ALL {
            for o in OUTCOMES {
                v.push(&*Box::leak(format!("regime:{}/{}", r.name(), o).into_boxed_str()));
            }
        }
        v
    });
    let ri = Regime::ALL.iter().position(|x| *x == r).unwrap_or(0);
    t[ri * OUTCOMES.len() + outcome]
}

fn policy_pool_label(d: DAct, multi: bool, pool: Option<Pool>) -> &'static str {
    static T: OnceLock<Vec<&'static str>> = OnceLock::new();
    let acts = [DAct::Reject, DAct::Allow, DAct::AddToFee];
    let t = T.get_or_init(|| {
        let mut v = vec![];
        for a in acts {
            for m in ["single", "multi"] {
                for p in POOLS5 {
                    v.push(&*Box::leak(format!("ok:{}/{}/{}", a.name(), m, p).into_boxed_str()));
                }
            }
        }
        v
    });
    let ai = acts.iter().position(|x| *x == d).unwrap_or(0);
    let pi = match pool {
        Some(Pool::Transparent) => 0,
        Some(Pool::Sapling) => 1,
        Some(Pool::Orchard) => 2,
        Some(Pool::Ironwood) => 3,
        None => 4,
    };
    t[(ai * 2 + multi as usize) * 5 + pi]
}

// ---------------------------------------------------------------------------------------------
// Oracles 2-6
// ---------------------------------------------------------------------------------------------

fn z(v: Zatoshis) -> u128 {
    v.into_u64() as u128
}

fn check_balance(c: &Case) -> CaseResult {
    let h = build_harness(c);
    let result = match catch(|| run_case(c, &h)) {
        Ok(r) => r,
        Err(p) => vfail!(format!("compute-balance-panic:{}", panic_site(&p)), "compute_balance panicked: {p}"),
    };

    let sum_in = c.sum_in();
    let sum_out = c.sum_out();
    let thr = c.thr();
    let multi = matches!(c.strat, Strat::Multi { .. });
    let f0 = ref_fee(c, 0, None);
    let mpool = model_pool(c);
    let n0m = c.n0(mpool);
    let fk_model = ref_fee(c, n0m, Some(mpool));

    // distance to the feasibility frontier(s), for the non-triviality rule
    let near = |a: u128, b: u128| a.abs_diff(b) <= 10_000;
    let near_frontier = match (&f0, &fk_model) {
        (Ok(f0), Ok(fk)) => {
            near(sum_in, sum_out + f0)
                || near(sum_in, sum_out + fk)
                || (c.dact == DAct::Reject && near(sum_in, sum_out + fk + thr))
        }
        _ => false,
    };

    let mut obs = Obs::new(false)
        .label_if(c.nu63_active(), "nu6.3-active")
        .label_if(!c.nu63_active(), "nu6.3-inactive")
        .label_if(c.target < 100, "height-below-nu5")
        .label_if((100..200).contains(&c.target), "height-nu5-to-nu6")
        .label_if(c.anchor_on_grid(), "anchor-on-grid")
        .label_if(near_frontier, "near-frontier")
        .label_if(sum_in > M / 2 || sum_out > M / 2, "max-money-scale")
        .label(c.tmpl);

    match result {
        Ok(b) => {
            // ---- documented impossibilities -------------------------------------------------
            vensure!(
                !c.has_unknown_input(),
                "ok-with-unknown-input-size",
                "Ok although a transparent input has unknown size (fee rule documents an error)"
            );
            let f0 = match f0 {
                Ok(f) => f,
                Err(e) => vfail!("ok-with-invalid-bundle", "Ok although the reference shape is invalid: {e:?}"),
            };
            let fee = z(b.fee_required());
            let change = b.proposed_change();

            // ---- ephemeral entries ---------------------------------------------------------
            let eph: Vec<u128> = change.iter().filter(|x| x.is_ephemeral()).map(|x| z(x.value())).collect();
            match c.eph {
                Eph::Out(v) => vensure!(
                    eph == vec![v as u128],
                    "ephemeral-output-mismatch",
                    "EphemeralBalance::Output({v}) but ephemeral entries {eph:?}"
                ),
                _ => vensure!(eph.is_empty(), "ephemeral-output-mismatch", "unexpected ephemeral entries {eph:?}"),
            }
            for x in change.iter().filter(|x| x.is_ephemeral()) {
                vensure!(
                    x.output_pool() == PoolType::TRANSPARENT,
                    "ephemeral-output-mismatch",
                    "ephemeral output in pool {:?}",
                    x.output_pool()
                );
            }
            let real: Vec<(Pool, u128)> =
                change.iter().filter(|x| !x.is_ephemeral()).map(|x| (Pool::of(x.output_pool()), z(x.value()))).collect();
            let n = real.len();
            let csum: u128 = real.iter().map(|x| x.1).sum();

            // ---- oracle 2: exact conservation ----------------------------------------------
            vensure!(
                sum_in == sum_out + csum + fee,
                "value-not-conserved",
                "inputs {sum_in} != outputs {sum_out} + change {csum} + fee {fee} (change {real:?})"
            );
            let all: u128 = change.iter().map(|x| z(x.value())).sum();
            vensure_eq!(z(b.total()), all + fee, "total-inconsistent", "TransactionBalance::total vs sum(change)+fee");

            // ---- shape of the result ------------------------------------------------------
            let pool = real.first().map(|x| x.0);
            vensure!(
                real.iter().all(|x| Some(x.0) == pool),
                "change-in-several-pools",
                "change outputs in more than one pool: {real:?}"
            );
            if pool == Some(Pool::Transparent) {
                // TransparentChangePolicy rustdoc (safe direction)
                vensure!(
                    c.t_change_ok && c.shielded_flows_zero(),
                    "transparent-change-policy",
                    "transparent change with policy_allowed={} shielded_flows_zero={}",
                    c.t_change_ok,
                    c.shielded_flows_zero()
                );
                vensure!(n == 1, "transparent-change-split", "transparent change emitted as {n} outputs");
                vensure!(csum > 0, "transparent-change-zero", "zero-valued transparent change output");
            }
            let n0 = pool.map(|p| c.n0(p)).unwrap_or(1);
            vensure!(n <= n0.max(1), "too-many-change-outputs", "{n} change outputs, policy target {n0}");

            // ---- oracle 3c: fee vs. the shape the result itself records ---------------------
            // (DESIGN oracle 3: "with the padding the result's dummy_outputs() records")
            let f_final = match ref_fee(c, n, pool) {
                Ok(f) => f,
                Err(e) => vfail!("ok-with-invalid-bundle", "Ok although the final shape is invalid: {e:?}"),
            };
            let counts = ref_counts(c, n, pool).expect("checked by ref_fee");
            let Some(d) = b.dummy_outputs() else {
                vfail!("dummy-outputs-missing", "strategy did not record dummy outputs")
            };
            let ch = |p: Pool| if pool == Some(p) { n } else { 0 };
            let recorded = Counts {
                s_spends: counts.s_spends,
                s_outputs: c.s_out.len() + ch(Pool::Sapling) + d.sapling(),
                o_actions: c.o_out.len() + ch(Pool::Orchard) + d.orchard(),
                i_actions: c.i_out.len() + ch(Pool::Ironwood) + d.ironwood(),
                s_dummy: d.sapling(),
                o_dummy: d.orchard(),
                i_dummy: d.ironwood(),
            };
            let f_recorded = ref_fee_with(c, n, pool, &recorded).expect("sizes known");
            if fee < f_recorded {
                // One precisely delimited situation gets its own signature: the Ironwood padding was
                // priced as a canonical crossing although an ephemeral transparent output is
                // present, while the recorded shape (and Step::is_canonical_crossing) is padded.
                let eph_crossing = matches!(c.eph, Eph::Out(_))
                    && ref_canonical_crossing_opt(c, n, pool, false)
                    && d.ironwood() == 1
                    && ref_fee_ignoring_ephemeral(c, n, pool).is_ok_and(|f| fee >= f);
                if eph_crossing {
                    vfail!(
                        SIG_EPH_CROSSING,
                        "fee {fee} < ZIP 317 fee {f_recorded} of the recorded shape: Ironwood priced unpadded (canonical crossing) but recorded with {} dummy output(s) because of the ephemeral output",
                        d.ironwood()
                    );
                }
                vfail!(
                    "fee-below-recorded-shape",
                    "fee {fee} < ZIP 317 fee {f_recorded} of the shape recorded by dummy_outputs() (s,o,i)=({},{},{}) with {n} change in {pool:?}",
                    d.sapling(),
                    d.orchard(),
                    d.ironwood()
                );
            }

            // ---- oracle 3a: recorded padding vs. the documented padding rules ----------------
            vensure!(
                (d.sapling(), d.orchard(), d.ironwood()) == (counts.s_dummy, counts.o_dummy, counts.i_dummy),
                "dummy-outputs-mismatch",
                "recorded dummies (s,o,i)=({},{},{}) reference ({},{},{}) for {n} change in {pool:?}; canonical={}",
                d.sapling(),
                d.orchard(),
                d.ironwood(),
                counts.s_dummy,
                counts.o_dummy,
                counts.i_dummy,
                ref_canonical_crossing(c, n, pool)
            );

            // ---- oracle 3b: fee vs. ZIP 317 fee of the final shape ---------------------------
            vensure!(
                fee >= f_final,
                "fee-below-zip317",
                "fee {fee} < ZIP 317 fee {f_final} of the final shape ({n} change in {pool:?})"
            );
            vensure!(fee >= f0, "fee-below-zip317", "fee {fee} < changeless fee {f0}");
            let dust_fold_ok = |f_priced: u128| -> bool {
                // AddDustToFee: the folded amount is below the threshold and within the guard
                fee >= f_priced && fee - f_priced < thr && fee - f_priced <= DUST_FEE_GUARD
            };
            let mut dust_folded = false;
            if n >= 1 {
                let p = pool.expect("n>=1");
                if c.dact == DAct::AddToFee && csum == 0 && fee != f_final {
                    // zero-valued memo carrier with dust folded into the fee
                    let ok = (1..=n0.max(1)).any(|k| ref_fee(c, k, Some(p)).is_ok_and(|f| dust_fold_ok(f)));
                    vensure!(
                        ok,
                        "fee-not-zip317",
                        "AddDustToFee with zero change: fee {fee} is not F(k)+dust for any k<={n0} (F(final)={f_final}, thr={thr})"
                    );
                    vensure!(c.effective_memo(), "fee-not-zip317", "dust folded next to a zero change output without a memo");
                    dust_folded = true;
                } else {
                    vensure!(
                        fee == f_final,
                        "fee-not-zip317",
                        "fee {fee} != ZIP 317 fee {f_final} of the final shape ({n} change in {pool:?}, target {n0})"
                    );
                }
            } else {
                // No change output: documented only for fully transparent flows without a change
                // memo, or under AddDustToFee without a change memo.
                let transparent_case = c.shielded_flows_zero() && !c.effective_memo();
                let exact0 = transparent_case && fee == f0;
                let exact_t = transparent_case
                    && c.t_change_ok
                    && ref_fee(c, 1, Some(Pool::Transparent)).is_ok_and(|f| f == fee);
                if !(exact0 || exact_t) {
                    let folded = c.dact == DAct::AddToFee
                        && !c.effective_memo()
                        && candidates(c).iter().any(|(k, p)| ref_fee(c, *k, *p).is_ok_and(|f| dust_fold_ok(f)));
                    vensure!(
                        folded,
                        "no-change-output",
                        "no change output with fee {fee} (F(0)={f0}); flows_transparent={} memo={} policy={:?} thr={thr}",
                        c.shielded_flows_zero(),
                        c.effective_memo(),
                        c.dact
                    );
                    dust_folded = true;
                }
            }

            // ---- oracle 4: dust policy and split ---------------------------------------------
            if n >= 1 && csum > 0 && csum < thr {
                match c.dact {
                    DAct::Reject => vfail!(
                        "dust-change-under-reject",
                        "total change {csum} below the dust threshold {thr} under DustAction::Reject"
                    ),
                    DAct::Allow => {}
                    DAct::AddToFee => vensure!(
                        csum > DUST_FEE_GUARD,
                        "dust-not-added-to-fee",
                        "AddDustToFee: dust change {csum} < threshold {thr} emitted although within the guard"
                    ),
                }
            }
            let mut split_below_thr = false;
            if n >= 2 {
                let min = c.min_split().unwrap_or(0);
                let q = csum / n as u128;
                let r = csum % n as u128;
                vensure!(
                    real[0].1 == q + r && real[1..].iter().all(|x| x.1 == q),
                    "split-not-even",
                    "parts {real:?} are not quotient {q} with remainder {r} on the first"
                );
                vensure!(q >= min, "split-part-below-minimum", "split part {q} < min_split_output_value {min} ({n} parts)");
                split_below_thr = q < thr && c.dact == DAct::Reject;
            }
            // (AddDustToFee with zero change emits exactly one zero-valued memo carrier: documented
            // "zero-valued change is also always allowed for this policy")
            let zero_carrier = c.dact == DAct::AddToFee && csum == 0;
            if n >= 1 && pool != Some(Pool::Transparent) && !dust_folded && !zero_carrier {
                if let (Some(min), Some(p)) = (c.min_split(), pool) {
                    // never fewer parts than the policy's most conservative reading
                    if let Ok(fmax) = ref_fee(c, n0, Some(p)) {
                        let est = sum_in.saturating_sub(sum_out + fmax);
                        let n_lo = ref_split(n0, min, est);
                        vensure!(
                            n >= n_lo,
                            "split-count-too-small",
                            "{n} change outputs although {n_lo} parts of >= {min} fit (change after max fee {est}, target {n0})"
                        );
                    }
                }
            }

            // ---- oracle 5: Orchard turnstile ------------------------------------------------
            let o_in = sum(&c.o_in);
            let o_out = sum(&c.o_out);
            let mut gains_with_payments = false;
            if c.nu63_active() && pool == Some(Pool::Orchard) {
                vensure!(
                    csum < o_in,
                    "orchard-turnstile",
                    "NU6.3 active: Orchard change {csum} >= Orchard inputs {o_in} (Orchard payments {o_out})"
                );
                gains_with_payments = o_out > 0 && csum + o_out >= o_in;
            }

            let nontrivial = n >= 1;
            obs.nontrivial = nontrivial;
            obs = obs
                .label(if n >= 1 { "ok-with-change" } else { "ok-no-change" })
                .label(regime_label(c.regime, if n >= 1 { 0 } else { 1 }))
                .label(policy_pool_label(c.dact, multi, pool))
                .label_if(n >= 2, "split>=2")
                .label_if(n >= 1 && n < n0, "split-reduced")
                .label_if(n >= 2 && csum % n as u128 != 0, "split-with-remainder")
                .label_if(split_below_thr, "obs:split-part-below-dust-threshold-under-reject")
                .label_if(dust_folded, "dust-folded-into-fee")
                .label_if(n >= 1 && csum == 0, "zero-valued-change")
                .label_if(n >= 1 && pool != Some(mpool) && !matches!(c.eph, Eph::Out(_)), "obs:pool-differs-from-documented-policy")
                .label_if(counts.i_actions == 1, "ironwood-unpadded-canonical")
                .label_if(ref_canonical_crossing(c, 0, None) && counts.i_actions != 1, "canonical-shape-but-padded")
                .label_if(c.nu63_active() && pool == Some(Pool::Orchard), "turnstile-orchard-change")
                .label_if(c.nu63_active() && pool == Some(Pool::Ironwood) && o_in > 0, "turnstile-redirected-to-ironwood")
                .label_if(gains_with_payments, "obs:orchard-grows-with-requested-orchard-payments")
                .label_if(matches!(c.eph, Eph::In(_)), "ephemeral-input")
                .label_if(matches!(c.eph, Eph::Out(_)), "ephemeral-output")
                .label_if(c.rule == Rule::Standard, "standard-fee-rule");
            Ok(obs)
        }
        Err(ChangeError::InsufficientFunds { available, required }) => {
            let (available, required) = (z(available), z(required));
            vensure_eq!(available, sum_in, "insufficient-available-wrong", "`available` is not the input total");
            vensure!(
                required > available,
                "insufficient-but-required-covered",
                "InsufficientFunds with required {required} <= available {available}"
            );
            if c.has_unknown_input() || f0.is_err() {
                // the fee of the shape is undefined; nothing further to compare against
                return Ok(obs.label("insufficient").label(regime_label(c.regime, 2)));
            }
            let cands: Vec<(usize, u128)> =
                candidates(c).iter().filter_map(|(k, p)| ref_fee(c, *k, *p).ok().map(|f| (*k, f))).collect();
            // a positive minimum part value forces the split down to one output before refusing
            let k_needed = match c.min_split() {
                Some(0) => c.n0_shielded(),
                _ => 1,
            };
            let plain = cands.iter().any(|(k, f)| *k <= k_needed && required == sum_out + f);
            let dust_form = c.dact == DAct::Reject
                && cands.iter().any(|(_, f)| {
                    required == sum_out + f + thr && sum_in > sum_out + f && sum_in < sum_out + f + thr
                });
            if !(plain || dust_form) && matches!(c.eph, Eph::Out(_)) {
                // same root cause as SIG_EPH_CROSSING in the Ok arm: `required` built from a fee that
                // prices the Ironwood bundle unpadded despite the ephemeral output
                let alt: Vec<(usize, u128)> = candidates(c)
                    .iter()
                    .filter(|(k, p)| ref_canonical_crossing_opt(c, *k, *p, false))
                    .filter_map(|(k, p)| ref_fee_ignoring_ephemeral(c, *k, *p).ok().map(|f| (*k, f)))
                    .collect();
                let alt_plain = alt.iter().any(|(k, f)| *k <= k_needed && required == sum_out + f);
                let alt_dust = c.dact == DAct::Reject
                    && alt.iter().any(|(_, f)| required == sum_out + f + thr && sum_in > sum_out + f && sum_in < sum_out + f + thr);
                if alt_plain || alt_dust {
                    vfail!(
                        SIG_EPH_CROSSING,
                        "InsufficientFunds.required {required} prices the Ironwood bundle unpadded (canonical crossing) although an ephemeral output is present; reference fees {cands:?}, unpadded pricing {alt:?}"
                    );
                }
            }
            vensure!(
                plain || dust_form,
                "insufficient-required-wrong",
                "required {required} is neither outputs {sum_out} + F(k<={k_needed}) nor the dust-shortfall form (thr {thr}, policy {:?}); candidate fees {cands:?}",
                c.dact
            );
            obs.nontrivial = near_frontier;
            Ok(obs
                .label("insufficient")
                .label(regime_label(c.regime, 2))
                .label_if(dust_form && !plain, "insufficient-dust-shortfall")
                .label_if(plain && required == sum_out + f0.unwrap_or(0), "insufficient-min-fee")
                .label_if(plain && required != sum_out + f0.unwrap_or(0), "insufficient-change-fee"))
        }
        Err(ChangeError::DustInputs { transparent, sapling, orchard, ironwood }) => {
            // documented: all of which have value <= marginal fee; they are inputs of the case
            vensure!(
                !(transparent.is_empty() && sapling.is_empty() && orchard.is_empty() && ironwood.is_empty()),
                "dust-inputs-empty",
                "DustInputs with empty lists"
            );
            for op in &transparent {
                let i = h.t_in.iter().position(|x| &x.outpoint == op);
                match i {
                    Some(i) => vensure!(
                        c.t_in[i].0 as u128 <= MARGINAL,
                        "dust-inputs-not-dust",
                        "transparent input {i} of value {} reported as dust",
                        c.t_in[i].0
                    ),
                    None => vfail!("dust-inputs-not-dust", "unknown outpoint {op:?} reported as dust"),
                }
            }
            for (name, ids, vals) in [("sapling", &sapling, &c.s_in), ("orchard", &orchard, &c.o_in), ("ironwood", &ironwood, &c.i_in)] {
                let mut seen = std::collections::BTreeSet::new();
                for id in ids.iter() {
                    vensure!(seen.insert(*id), "dust-inputs-not-dust", "{name} note {id} listed twice");
                    match vals.get(*id as usize) {
                        Some(v) => vensure!(
                            *v as u128 <= MARGINAL,
                            "dust-inputs-not-dust",
                            "{name} note {id} of value {v} reported as dust"
                        ),
                        None => vfail!("dust-inputs-not-dust", "{name} note id {id} is not an input"),
                    }
                }
            }
            Ok(obs.label("dust-inputs").label(regime_label(c.regime, 3)))
        }
        Err(ChangeError::BundleError(msg)) => {
            vensure!(
                c.sap_ty == SapTy::Coinbase && !c.s_in.is_empty(),
                "bundle-error-unexpected",
                "BundleError({msg}) without its documented trigger (sapling type {:?}, {} spends)",
                c.sap_ty,
                c.s_in.len()
            );
            Ok(obs.label("bundle-error").label(regime_label(c.regime, 4)))
        }
        Err(ChangeError::StrategyError(FeeError::UnknownP2shInputs(ops))) => {
            let want: Vec<OutPoint> =
                c.t_in.iter().enumerate().filter(|(_, x)| x.1.reference().is_none()).map(|(i, _)| outpoint(i)).collect();
            vensure!(!want.is_empty(), "unknown-input-unexpected", "UnknownP2shInputs({ops:?}) but every input size is known");
            let key = |o: &OutPoint| (o.hash().to_vec(), o.n());
            let mut a: Vec<_> = ops.iter().map(key).collect();
            let mut b: Vec<_> = want.iter().map(key).collect();
            a.sort();
            b.sort();
            vensure!(a == b, "unknown-input-list-wrong", "UnknownP2shInputs lists {ops:?}, expected {want:?}");
            Ok(obs.label("unknown-input").label(regime_label(c.regime, 6)))
        }
        Err(ChangeError::StrategyError(FeeError::Balance(BalanceError::Overflow))) => {
            // documented trigger: an amount computation left the valid range
            let fmax = candidates(c).iter().filter_map(|(k, p)| ref_fee(c, *k, *p).ok()).max().unwrap_or(0);
            vensure!(
                sum_in > M || sum_out + fmax + DUST_FEE_GUARD + thr > M,
                "overflow-unexpected",
                "Overflow although inputs {sum_in} and outputs {sum_out} + max fee {fmax} are far inside MAX_MONEY"
            );
            Ok(obs.label("overflow").label(regime_label(c.regime, 5)))
        }
        Err(ChangeError::StrategyError(FeeError::Balance(BalanceError::Underflow))) => {
            vfail!("underflow-unexpected", "StrategyError(Underflow): no documented trigger (inputs {sum_in}, outputs {sum_out})")
        }
        Err(other) => vfail!("unexpected-error-variant", "undocumented error {other:?}"),
    }
}

// ---------------------------------------------------------------------------------------------
// Oracle 1: fee_required
// ---------------------------------------------------------------------------------------------

#[derive(Clone, Copy, Debug, PartialEq, Eq)]
enum FRule {
    Prim,
    Standard,
    NonStd { marginal: u64, grace: usize, std_in: usize, std_out: usize },
}

#[derive(Clone, Debug, PartialEq, Eq)]
struct FeeCase {
    rule: FRule,
    /// `None` = `InputSize::Unknown`
    t_in: Vec<Option<usize>>,
    t_out: Vec<usize>,
    s_in: usize,
    s_out: usize,
    o: usize,
    i: usize,
    height: u32,
}

fn check_fee_required(c: &FeeCase) -> CaseResult {
    let net = local_network(Some(400));
    let sizes: Vec<InputSize> = c
        .t_in
        .iter()
        .enumerate()
        .map(|(i, s)| match s {
            Some(n) => InputSize::Known(*n),
            None => InputSize::Unknown(outpoint(i)),
        })
        .collect();
    let unknown: Vec<OutPoint> = c.t_in.iter().enumerate().filter(|(_, s)| s.is_none()).map(|(i, _)| outpoint(i)).collect();
    let height = BlockHeight::from_u32(c.height);
    let (marginal, grace, std_in, std_out) = match c.rule {
        FRule::Prim | FRule::Standard => (MARGINAL, GRACE, STD_IN, STD_OUT),
        FRule::NonStd { marginal, grace, std_in, std_out } => (marginal as u128, grace as u128, std_in as u128, std_out as u128),
    };
    let got: Result<Zatoshis, FeeError> = match c.rule {
        FRule::Prim => {
            let r = Zip317FeeRule::standard();
            vensure!(
                (z(r.marginal_fee()), r.grace_actions(), r.p2pkh_standard_input_size(), r.p2pkh_standard_output_size())
                    == (5000, 2, 150, 34),
                "zip317-constants",
                "standard rule constants differ from ZIP 317"
            );
            catch(|| r.fee_required(&net, height, sizes.clone(), c.t_out.clone(), c.s_in, c.s_out, c.o, c.i))
        }
        FRule::Standard => catch(|| {
            StandardFeeRule::Zip317.fee_required(&net, height, sizes.clone(), c.t_out.clone(), c.s_in, c.s_out, c.o, c.i)
        }),
        FRule::NonStd { marginal, grace, std_in, std_out } => {
            let r = Zip317FeeRule::non_standard(zat(marginal), grace, std_in, std_out);
            match r {
                None => {
                    vensure!(
                        std_in == 0 || std_out == 0,
                        "non-standard-ctor",
                        "non_standard returned None for non-zero sizes {std_in}/{std_out}"
                    );
                    return Ok(Obs::new(false).label("non-standard-rejected"));
                }
                Some(r) => {
                    vensure!(
                        std_in != 0 && std_out != 0,
                        "non-standard-ctor",
                        "non_standard accepted a zero standard size {std_in}/{std_out}"
                    );
                    catch(|| r.fee_required(&net, height, sizes.clone(), c.t_out.clone(), c.s_in, c.s_out, c.o, c.i))
                }
            }
        }
    }
    .map_err(|p| Fail::new(format!("fee-required-panic:{}", panic_site(&p)), format!("fee_required panicked: {p}")))?;

    let t_in_bytes: u128 = c.t_in.iter().flatten().map(|x| *x as u128).sum();
    let t_out_bytes: u128 = c.t_out.iter().map(|x| *x as u128).sum();
    let exact = zip317(
        marginal,
        grace,
        std_in,
        std_out,
        t_in_bytes,
        t_out_bytes,
        c.s_in as u128,
        c.s_out as u128,
        c.o as u128,
        c.i as u128,
    );
    let logical = exact.checked_div(marginal).unwrap_or(0);
    match got {
        Ok(f) => {
            vensure!(unknown.is_empty(), "fee-ok-with-unknown-input", "Ok({f:?}) although {} inputs have unknown size", unknown.len());
            vensure!(exact <= M, "fee-ok-beyond-max-money", "Ok({f:?}) although the exact fee {exact} exceeds MAX_MONEY");
            vensure_eq!(z(f), exact, "fee-not-zip317-formula", "fee_required vs reference for {c:?}");
        }
        Err(FeeError::UnknownP2shInputs(ops)) => {
            vensure!(!unknown.is_empty(), "fee-unknown-unexpected", "UnknownP2shInputs although every size is known");
            let key = |o: &OutPoint| (o.hash().to_vec(), o.n());
            let mut a: Vec<_> = ops.iter().map(key).collect();
            let mut b: Vec<_> = unknown.iter().map(key).collect();
            a.sort();
            b.sort();
            vensure!(a == b, "fee-unknown-list-wrong", "UnknownP2shInputs lists {ops:?}, expected {unknown:?}");
        }
        Err(FeeError::Balance(e)) => {
            vensure!(exact > M, "fee-err-in-range", "Err({e:?}) although the exact fee {exact} is within MAX_MONEY");
            vensure_eq!(e, BalanceError::Overflow, "fee-err-variant", "error variant for an over-range fee");
        }
    }
    let boundary = (std_in > 0 && t_in_bytes > 0 && (t_in_bytes % std_in <= 1 || t_in_bytes % std_in == std_in - 1))
        || (std_out > 0 && t_out_bytes > 0 && (t_out_bytes % std_out <= 1 || t_out_bytes % std_out == std_out - 1));
    Ok(Obs::new(logical > grace || exact > M || !unknown.is_empty())
        .label_if(logical <= grace, "grace-floor")
        .label_if(logical > grace && exact <= M, "above-grace")
        .label_if(exact > M, "overflow")
        .label_if(exact <= M && exact + marginal > M, "at-max-money")
        .label_if(!unknown.is_empty(), "unknown-input")
        .label_if(boundary, "size-boundary")
        .label_if(c.i > 0, "ironwood-actions")
        .label_if(c.s_in != c.s_out, "sapling-asymmetric")
        .label_if(matches!(c.rule, FRule::NonStd { .. }), "non-standard-rule")
        .label_if(c.rule == FRule::Standard, "standard-fee-rule"))
}

fn fee_vectors() -> Vec<(FeeCase, Result<u64, &'static str>)> {
    let fc = |t_in: Vec<Option<usize>>, t_out: Vec<usize>, s_in, s_out, o, i| FeeCase {
        rule: FRule::Prim,
        t_in,
        t_out,
        s_in,
        s_out,
        o,
        i,
        height: 1_000,
    };
    vec![
        (fc(vec![], vec![], 0, 0, 0, 0), Ok(10_000)),
        (fc(vec![Some(150)], vec![34], 0, 0, 0, 0), Ok(10_000)),
        (fc(vec![Some(150); 3], vec![34], 0, 0, 0, 0), Ok(15_000)),
        (fc(vec![Some(151)], vec![], 1, 0, 0, 0), Ok(15_000)),
        (fc(vec![Some(300)], vec![], 1, 0, 0, 0), Ok(15_000)),
        (fc(vec![Some(301)], vec![], 0, 0, 0, 0), Ok(15_000)),
        (fc(vec![], vec![35], 0, 1, 0, 0), Ok(15_000)),
        (fc(vec![], vec![34, 34, 1], 0, 0, 0, 0), Ok(15_000)),
        (fc(vec![], vec![], 1, 2, 0, 0), Ok(10_000)),
        (fc(vec![], vec![], 3, 2, 2, 0), Ok(25_000)),
        (fc(vec![], vec![], 2, 3, 2, 0), Ok(25_000)),
        (fc(vec![], vec![], 0, 0, 2, 3), Ok(25_000)),
        (fc(vec![], vec![], 0, 0, 0, 5), Ok(25_000)),
        (fc(vec![Some(150), Some(150)], vec![34, 34, 34], 2, 5, 4, 1), Ok(65_000)),
        (fc(vec![Some(10_049)], vec![], 0, 0, 0, 0), Ok(335_000)),
        (fc(vec![], vec![], 420_000_000_000, 0, 0, 0), Ok(MAX_MONEY)),
        (fc(vec![], vec![], 420_000_000_001, 0, 0, 0), Err("overflow")),
        (fc(vec![], vec![], 0, 0, 210_000_000_000, 210_000_000_001), Err("overflow")),
        (fc(vec![Some(150), None], vec![34], 0, 0, 0, 0), Err("unknown")),
    ]
}

fn check_fee_vector(i: u64) -> CaseResult {
    let (c, want) = &fee_vectors()[i as usize];
    for rule in [FRule::Prim, FRule::Standard] {
        let c = FeeCase { rule, ..c.clone() };
        // the hand-derived value pins the reference formula ...
        let exact = zip317(
            MARGINAL,
            GRACE,
            STD_IN,
            STD_OUT,
            c.t_in.iter().flatten().map(|x| *x as u128).sum(),
            c.t_out.iter().map(|x| *x as u128).sum(),
            c.s_in as u128,
            c.s_out as u128,
            c.o as u128,
            c.i as u128,
        );
        match want {
            Ok(w) => vensure_eq!(exact, *w as u128, "reference-formula-vs-hand-vector", "vector {i}"),
            Err("overflow") => vensure!(exact > M, "reference-formula-vs-hand-vector", "vector {i}: expected overflow, reference {exact}"),
            Err(_) => {}
        }
        // ... and the implementation is compared with the reference
        check_fee_required(&c)?;
    }
    Ok(Obs::nontrivial().key(vcore::hash64(&i.to_le_bytes())))
}

// ---------------------------------------------------------------------------------------------
// Generators
// ---------------------------------------------------------------------------------------------

fn arb_typical() -> impl Strategy<Value = u64> {
    // log-uniform 2^10 .. 2^40
    (10u32..40, any::<u64>()).prop_map(|(b, r)| (1u64 << b) + (r & ((1u64 << b) - 1)))
}

fn denominations() -> Vec<u64> {
    let mut v = vec![];
    for k in 5..=12u32 {
        for m in [1u64, 2, 5] {
            let d = m * 10u64.pow(k);
            v.extend([d - 1, d, d, d, d + 1]);
        }
    }
    v.push(3_000_000);
    v
}

/// Output / generic value.
fn arb_value() -> BoxedStrategy<u64> {
    prop_oneof![
        4 => select(vec![0u64, 1, 4_999, 5_000, 5_001, 9_999, 10_000, 10_001, 14_999, 15_000, 15_001, 20_000,
                         99_999, 100_000, 100_001, 999_999, 1_000_000, 1_000_001]),
        5 => arb_typical(),
        1 => select(denominations()),
        1 => 0u64..30_000,
    ]
    .boxed()
}

/// Input value; `dusty` admits values at or below the marginal fee.
fn arb_in_value(dusty: bool, big: bool) -> BoxedStrategy<u64> {
    let base = prop_oneof![
        3 => select(vec![5_001u64, 9_999, 10_000, 10_001, 15_000, 20_000, 25_000, 100_000, 1_000_000, 1_015_000, 1_020_000]),
        6 => arb_typical().prop_map(|v| v.max(5_001)),
        1 => 5_001u64..60_000,
    ];
    match (dusty, big) {
        (false, false) => base.boxed(),
        (true, _) => prop_oneof![
            3 => base,
            1 => select(vec![0u64, 1, 4_999, 5_000]),
        ]
        .boxed(),
        (false, true) => prop_oneof![
            3 => base,
            1 => select(vec![MAX_MONEY, MAX_MONEY - 1, MAX_MONEY / 2, MAX_MONEY / 2 + 1, MAX_MONEY / 4, MAX_MONEY - 10_000, MAX_MONEY - 20_000]),
        ]
        .boxed(),
    }
}

fn arb_out_value(big: bool) -> BoxedStrategy<u64> {
    if big {
        prop_oneof![
            4 => arb_value(),
            1 => select(vec![MAX_MONEY, MAX_MONEY - 1, MAX_MONEY / 2, MAX_MONEY / 4, MAX_MONEY - 10_000, MAX_MONEY - 15_000]),
        ]
        .boxed()
    } else {
        arb_value()
    }
}

/// Element count: mostly small, occasionally up to `max_n`.
fn arb_count(w0: u32, max_n: usize) -> BoxedStrategy<usize> {
    prop_oneof![
        w0 => Just(0usize),
        4 => Just(1usize),
        2 => Just(2usize),
        1 => 3usize..=max_n.max(3),
    ]
    .boxed()
}

fn arb_tsize() -> BoxedStrategy<TSize> {
    prop_oneof![
        8 => select(vec![1usize, 149, 150, 150, 150, 151, 299, 300, 301, 10_049]).prop_map(TSize::Known),
        6 => Just(TSize::ScriptP2pkh),
        1 => (0usize..400).prop_map(TSize::Known),
        1 => select(vec![TSize::Unknown, TSize::ScriptP2sh, TSize::ScriptEmpty]),
    ]
    .boxed()
}

fn arb_script_len() -> BoxedStrategy<usize> {
    prop_oneof![
        6 => Just(25usize),
        3 => select(vec![0usize, 1, 23, 24, 26, 27, 59, 60, 252, 253, 254, 10_000]),
        1 => 0usize..120,
    ]
    .boxed()
}

fn arb_pool3() -> impl Strategy<Value = Pool> {
    select(vec![Pool::Sapling, Pool::Orchard, Pool::Ironwood])
}

fn arb_strat(max_n: usize) -> BoxedStrategy<Strat> {
    let _ = max_n;
    let meta = prop_oneof![
        2 => Just(None),
        5 => (prop_oneof![4 => 0usize..=1, 2 => 0usize..=4, 1 => 0usize..=10], 0u64..=MAX_MONEY / 3).prop_map(Some),
    ];
    prop_oneof![
        4 => Just(Strat::Single),
        6 => (
            1usize..=8,
            prop_oneof![
                3 => select(vec![0u64, 1, 4_999, 5_000, 5_001, 10_000, 100_000, 1_000_000]),
                1 => arb_typical(),
            ],
            [meta.clone(), meta.clone(), meta],
        )
            .prop_map(|(target, min, meta)| Strat::Multi { target, min, meta }),
    ]
    .boxed()
}

#[derive(Clone, Debug)]
struct Config {
    nu6_3: Option<u32>,
    target: u32,
    anchor: u32,
    interval: u32,
    sap_ty: SapTy,
    o_ver: Ver,
    i_ver: Ver,
    eph: Eph,
    strat: Strat,
    rule: Rule,
    dact: DAct,
    dthr: Option<u64>,
    fallback: Pool,
    memo: bool,
    t_change_ok: bool,
}

fn arb_config(max_n: usize, active_bias: u32, on_grid_bias: u32) -> BoxedStrategy<Config> {
    // heights on both sides of NU5 (100), NU6 (200) and NU6.3
    let heights = (select(vec![None, Some(400u32), Some(400), Some(3_428_143), Some(4_134_000)]), 0u32..(10 + active_bias)).prop_map(
        |(nu6_3, sel)| {
            let a = nu6_3.unwrap_or(400);
            let target = match sel {
                0 => 99,
                1 => 100,
                2 => 199,
                3 => 200,
                4 => a - 1,
                5 => a - 1,
                6 => a,
                7 => a + 1,
                8 => a + 10_000,
                _ => a + 25,
            };
            (nu6_3, target)
        },
    );
    let anchor = (select(vec![144u32, 144, 144, 1, 10, 1_000]), 0u32..30_000, 0u32..(4 + on_grid_bias)).prop_map(|(iv, k, off)| {
        let base = (k % (u32::MAX / iv - 2)) * iv;
        let anchor = match off {
            0 => base + 1,
            1 => base + iv - 1,
            2 => base + iv / 2,
            _ => base,
        };
        (anchor, iv)
    });
    let vers = (0u32..20, 0u32..20);
    let eph = prop_oneof![
        8 => Just(Eph::None),
        1 => arb_in_value(false, false).prop_map(Eph::In),
        1 => arb_value().prop_map(Eph::Out),
    ];
    let dust = (
        select(vec![DAct::Reject, DAct::Reject, DAct::Allow, DAct::AddToFee, DAct::AddToFee]),
        select(vec![None, None, Some(0u64), Some(1), Some(4_999), Some(5_000), Some(5_001), Some(1_000_000), Some(1_000_000)]),
    );
    (
        heights,
        anchor,
        select(vec![SapTy::Default; 30].into_iter().chain([SapTy::Required, SapTy::Required, SapTy::Coinbase]).collect::<Vec<_>>()),
        vers,
        eph,
        arb_strat(max_n),
        select(vec![Rule::Prim, Rule::Standard]),
        dust,
        arb_pool3(),
        proptest::bool::weighted(0.25),
        proptest::bool::weighted(0.4),
    )
        .prop_map(|((nu6_3, target), (anchor, interval), sap_ty, (ov, iv), eph, strat, rule, (dact, dthr), fallback, memo, t_ok)| {
            let active = nu6_3.is_some_and(|h| target >= h);
            // the caller normally passes the version that applies at the height; sometimes not
            let o_ver = match ov {
                0 => Ver::OrchardV1,
                1 => Ver::OrchardV2,
                2 => Ver::OrchardV3,
                _ if active => Ver::OrchardV3,
                _ => Ver::OrchardV2,
            };
            let i_ver = if iv == 0 { Ver::OrchardV2 } else { Ver::IronwoodV3 };
            Config { nu6_3, target, anchor, interval, sap_ty, o_ver, i_ver, eph, strat, rule, dact, dthr, fallback, memo, t_change_ok: t_ok }
        })
        .boxed()
}

#[derive(Clone, Debug)]
struct Flows {
    t_in: Vec<(u64, TSize)>,
    t_out: Vec<(u64, usize)>,
    s_in: Vec<u64>,
    s_out: Vec<u64>,
    o_in: Vec<u64>,
    o_out: Vec<u64>,
    i_in: Vec<u64>,
    i_out: Vec<u64>,
}

fn vec_n<T: std::fmt::Debug + 'static>(elem: BoxedStrategy<T>, count: BoxedStrategy<usize>) -> BoxedStrategy<Vec<T>> {
    count.prop_flat_map(move |n| pvec(elem.clone(), n)).boxed()
}

fn arb_flows_general(max_n: usize) -> BoxedStrategy<Flows> {
    (proptest::bool::weighted(0.3), proptest::bool::weighted(0.06))
        .prop_flat_map(move |(dusty, big)| {
            let iv = arb_in_value(dusty, big);
            let ov = arb_out_value(big);
            (
                vec_n((iv.clone(), arb_tsize()).boxed(), arb_count(8, max_n)),
                vec_n((ov.clone(), arb_script_len()).boxed(), arb_count(8, max_n)),
                vec_n(iv.clone(), arb_count(6, max_n)),
                vec_n(ov.clone(), arb_count(8, max_n)),
                vec_n(iv.clone(), arb_count(6, max_n)),
                vec_n(ov.clone(), arb_count(10, max_n)),
                vec_n(iv, arb_count(8, max_n)),
                vec_n(ov, arb_count(8, max_n)),
            )
        })
        .prop_map(|(t_in, t_out, s_in, s_out, o_in, o_out, i_in, i_out)| Flows { t_in, t_out, s_in, s_out, o_in, o_out, i_in, i_out })
        .boxed()
}

/// One shielded pool (plus optional transparent recipients): the everyday shapes.
fn arb_flows_single_pool(max_n: usize) -> BoxedStrategy<Flows> {
    (arb_pool3(), proptest::bool::weighted(0.2))
        .prop_flat_map(move |(pool, dusty)| {
            let iv = arb_in_value(dusty, false);
            (
                Just(pool),
                vec_n(iv, prop_oneof![5 => Just(1usize), 3 => Just(2usize), 2 => 3usize..=max_n.max(3)].boxed()),
                vec_n(arb_value(), arb_count(3, max_n)),
                vec_n((arb_value(), arb_script_len()).boxed(), arb_count(12, max_n)),
            )
        })
        .prop_map(|(pool, ins, outs_, t_out)| {
            let mut f = Flows { t_in: vec![], t_out, s_in: vec![], s_out: vec![], o_in: vec![], o_out: vec![], i_in: vec![], i_out: vec![] };
            match pool {
                Pool::Sapling => {
                    f.s_in = ins;
                    f.s_out = outs_;
                }
                Pool::Orchard => {
                    f.o_in = ins;
                    f.o_out = outs_;
                }
                _ => {
                    f.i_in = ins;
                    f.i_out = outs_;
                }
            }
            f
        })
        .boxed()
}

/// Transparent-only flows (second half of a ZIP 320 pair, shielding, t->t).
fn arb_flows_transparent(max_n: usize) -> BoxedStrategy<Flows> {
    (
        vec_n(
            (arb_in_value(false, false), arb_tsize()).boxed(),
            prop_oneof![5 => Just(1usize), 3 => Just(2usize), 2 => 3usize..=max_n.max(3)].boxed(),
        ),
        vec_n((arb_value(), arb_script_len()).boxed(), arb_count(3, max_n)),
        // zero-valued shielded items keep the flows "fully transparent" but add a bundle
        vec_n(Just(0u64).boxed(), arb_count(30, 3)),
    )
        .prop_map(|(t_in, t_out, s_out)| Flows { t_in, t_out, s_in: vec![], s_out, o_in: vec![], o_out: vec![], i_in: vec![], i_out: vec![] })
        .boxed()
}

/// The ZIP 318 canonical-crossing neighbourhood: one Orchard note, one Ironwood payment.
fn arb_flows_canonical(max_n: usize) -> BoxedStrategy<Flows> {
    (
        vec_n(arb_in_value(false, false), prop_oneof![12 => Just(1usize), 1 => Just(0usize), 1 => Just(2usize)].boxed()),
        vec_n(
            prop_oneof![6 => select(denominations()), 1 => arb_value()].boxed(),
            prop_oneof![12 => Just(1usize), 1 => Just(2usize)].boxed(),
        ),
        vec_n(arb_in_value(false, false), arb_count(40, 2)),
        vec_n(arb_value(), arb_count(30, 2)),
        vec_n(arb_in_value(false, false), arb_count(20, max_n.min(3))),
        vec_n((arb_in_value(false, false), Just(TSize::ScriptP2pkh)).boxed(), arb_count(20, 2)),
    )
        .prop_map(|(o_in, i_out, i_in, o_out, s_in, t_in)| Flows { t_in, t_out: vec![], s_in, s_out: vec![], o_in, o_out, i_in, i_out })
        .boxed()
}

/// Orchard spends funded alongside another pool, no Orchard payments: the turnstile decision.
fn arb_flows_turnstile(max_n: usize) -> BoxedStrategy<Flows> {
    (
        vec_n(arb_in_value(false, false), prop_oneof![6 => Just(1usize), 2 => Just(2usize), 1 => 3usize..=max_n.max(3)].boxed()),
        vec_n(arb_in_value(false, false), arb_count(2, 3)),
        vec_n(arb_in_value(false, false), arb_count(6, 3)),
        vec_n((arb_in_value(false, false), Just(TSize::ScriptP2pkh)).boxed(), arb_count(6, 3)),
        vec_n(arb_value(), arb_count(3, 3)),
        vec_n(arb_value(), arb_count(3, 3)),
        vec_n(arb_value(), arb_count(40, 2)),
    )
        .prop_map(|(o_in, s_in, i_in, t_in, s_out, i_out, o_out)| Flows { t_in, t_out: vec![], s_in, s_out, o_in, o_out, i_in, i_out })
        .boxed()
}

#[derive(Clone, Debug)]
struct Steer {
    regime: Regime,
    delta: i64,
    rich: u64,
    fund: u32,
    split_n: u32,
}

fn arb_steer(turnstile_w: u32) -> BoxedStrategy<Steer> {
    (
        prop_oneof![
            3 => Just(Regime::Free),
            2 => Just(Regime::Frontier0),
            3 => Just(Regime::FrontierK),
            2 => Just(Regime::DustEdge),
            3 => Just(Regime::SplitEdge),
            turnstile_w => Just(Regime::Turnstile),
            1 => Just(Regime::DustGuard),
            5 => Just(Regime::Rich),
        ],
        prop_oneof![
            6 => -2i64..=2,
            2 => select(vec![-10_000i64, -5_001, -5_000, -4_999, 4_999, 5_000, 5_001, 9_999, 10_000, 10_001]),
            1 => -12_000i64..12_000,
        ],
        arb_typical(),
        any::<u32>(),
        any::<u32>(),
    )
        .prop_map(|(regime, delta, rich, fund, split_n)| Steer { regime, delta, rich, fund, split_n })
        .boxed()
}

fn assemble(tmpl: &'static str, f: Flows, g: Config, s: Steer) -> Case {
    finalize(Case {
        tmpl,
        nu6_3: g.nu6_3,
        target: g.target,
        anchor: g.anchor,
        interval: g.interval,
        t_in: f.t_in,
        t_out: f.t_out,
        sap_ty: g.sap_ty,
        s_in: f.s_in,
        s_out: f.s_out,
        o_ver: g.o_ver,
        o_in: f.o_in,
        o_out: f.o_out,
        i_ver: g.i_ver,
        i_in: f.i_in,
        i_out: f.i_out,
        eph: g.eph,
        strat: g.strat,
        rule: g.rule,
        dact: g.dact,
        dthr: g.dthr,
        fallback: g.fallback,
        memo: g.memo,
        t_change_ok: g.t_change_ok,
        regime: s.regime,
        delta: s.delta,
        rich: s.rich,
        fund: s.fund,
        split_n: s.split_n,
    })
}

/// Solves the value of one designated ("funding") input so that the case lands where its regime
/// says, using the reference model only.
fn finalize(mut c: Case) -> Case {
    let lens = [c.t_in.len(), c.s_in.len(), c.o_in.len(), c.i_in.len()];
    let total: usize = lens.iter().sum();
    if c.regime == Regime::Free || total == 0 {
        return c;
    }
    if c.regime == Regime::DustGuard {
        // the guard only matters when the threshold exceeds it
        c.dact = DAct::AddToFee;
        c.dthr = Some(1_000_000);
    }
    // slot -> (pool index, element index)
    let locate = |slot: usize| -> (usize, usize) {
        let mut s = slot;
        for (p, l) in lens.iter().enumerate() {
            if s < *l {
                return (p, s);
            }
            s -= l;
        }
        unreachable!("harness: slot in range")
    };
    let mut slot = pick_index(c.fund, total);
    if c.regime == Regime::Turnstile {
        // the funding input must not be an Orchard note
        if locate(slot).0 == 2 {
            match (0..total).find(|s| locate(*s).0 != 2) {
                Some(s) => slot = s,
                None => return c,
            }
        }
    }
    let (p, e) = locate(slot);
    let get = |c: &Case| -> u64 {
        match p {
            0 => c.t_in[e].0,
            1 => c.s_in[e],
            2 => c.o_in[e],
            _ => c.i_in[e],
        }
    };
    for _ in 0..3 {
        let pool = model_pool(&c);
        let n0 = c.n0(pool);
        let (Ok(f0), Ok(fk)) = (ref_fee(&c, 0, None), ref_fee(&c, n0, Some(pool))) else {
            return c;
        };
        let thr = c.thr() as i128;
        let d = c.delta as i128;
        let (base, surplus): (u128, i128) = match c.regime {
            Regime::Free => return c,
            Regime::Frontier0 => (f0, d),
            Regime::FrontierK => (fk, d),
            Regime::DustEdge => (fk, thr + d),
            Regime::SplitEdge => {
                let n = 1 + pick_index(c.split_n, n0) as i128;
                let min = c.min_split().unwrap_or(MARGINAL) as i128;
                (fk, n * min + d)
            }
            Regime::Turnstile => (f0, sum(&c.o_in) as i128 + d.clamp(-2, 2)),
            Regime::DustGuard => (fk, DUST_FEE_GUARD as i128 + d.clamp(-2, 2)),
            Regime::Rich => (fk, c.rich as i128),
        };
        let others = c.sum_in() as i128 - get(&c) as i128;
        let want = c.sum_out() as i128 + base as i128 + surplus - others;
        if !(0..=M as i128).contains(&want) {
            return c;
        }
        let want = want as u64;
        match p {
            0 => c.t_in[e].0 = want,
            1 => c.s_in[e] = want,
            2 => c.o_in[e] = want,
            _ => c.i_in[e] = want,
        }
    }
    c
}

fn arb_case(max_n: usize) -> BoxedStrategy<Case> {
    prop_oneof![
        40 => (arb_flows_general(max_n), arb_config(max_n, 2, 2), arb_steer(1)).prop_map(|(f, g, s)| assemble("tmpl:general", f, g, s)),
        22 => (arb_flows_single_pool(max_n), arb_config(max_n, 2, 2), arb_steer(1)).prop_map(|(f, g, s)| assemble("tmpl:single-pool", f, g, s)),
        12 => (arb_flows_transparent(max_n), arb_config(max_n, 2, 2), arb_steer(1)).prop_map(|(f, g, s)| assemble("tmpl:transparent", f, g, s)),
        14 => (arb_flows_canonical(max_n), arb_config(max_n, 6, 8), arb_steer(1)).prop_map(|(f, g, s)| assemble("tmpl:canonical", f, g, s)),
        12 => (arb_flows_turnstile(max_n), arb_config(max_n, 12, 2), arb_steer(14)).prop_map(|(f, g, s)| assemble("tmpl:turnstile", f, g, s)),
    ]
    .boxed()
}

fn arb_fee_case(max_n: usize) -> BoxedStrategy<FeeCase> {
    let size_in = prop_oneof![
        8 => select(vec![0usize, 1, 149, 150, 151, 299, 300, 301, 449, 450, 451, 10_049]),
        2 => 0usize..2_000,
        1 => 0usize..(1 << 40),
    ];
    let size_out = prop_oneof![
        8 => select(vec![0usize, 1, 33, 34, 35, 67, 68, 69, 101, 102, 103, 10_000, 10_011]),
        2 => 0usize..500,
        1 => 0usize..(1 << 40),
    ];
    let count = || {
        prop_oneof![
            40 => 0usize..=3,
            20 => 0usize..=6,
            8 => 0usize..=max_n.max(7),
            2 => select(vec![u32::MAX as usize, u32::MAX as usize + 1, 419_999_999_999, 420_000_000_000, 420_000_000_001, 1usize << 58]),
            2 => 419_999_999_990usize..420_000_000_010,
            1 => 0usize..(1 << 58),
        ]
    };
    let rule = prop_oneof![
        5 => Just(FRule::Prim),
        3 => Just(FRule::Standard),
        3 => (
            prop_oneof![3 => select(vec![0u64, 1, 4_999, 5_000, 5_001, 10_000, MAX_MONEY]), 1 => 0u64..=MAX_MONEY],
            prop_oneof![3 => 0usize..6, 1 => 0usize..(1 << 50)],
            prop_oneof![1 => Just(0usize), 6 => select(vec![1usize, 149, 150, 151, 1_000])],
            prop_oneof![1 => Just(0usize), 6 => select(vec![1usize, 33, 34, 35, 1_000])],
        )
            .prop_map(|(marginal, grace, std_in, std_out)| FRule::NonStd { marginal, grace, std_in, std_out }),
    ];
    (
        rule,
        pvec(prop_oneof![12 => size_in.prop_map(Some), 1 => Just(None)], 0..=max_n),
        pvec(size_out, 0..=max_n),
        count(),
        count(),
        count(),
        count(),
        select(vec![1u32, 99, 100, 399, 400, 401, 3_428_143]),
    )
        .prop_map(|(rule, t_in, t_out, s_in, s_out, o, i, height)| FeeCase { rule, t_in, t_out, s_in, s_out, o, i, height })
        .boxed()
}

// ---------------------------------------------------------------------------------------------
// Fixed boundary cases (re-run forever)
// ---------------------------------------------------------------------------------------------

fn base_case() -> Case {
    Case {
        tmpl: "tmpl:regress",
        nu6_3: Some(400),
        target: 300,
        anchor: 144 * 2,
        interval: 144,
        t_in: vec![],
        t_out: vec![],
        sap_ty: SapTy::Default,
        s_in: vec![],
        s_out: vec![],
        o_ver: Ver::OrchardV2,
        o_in: vec![],
        o_out: vec![],
        i_ver: Ver::IronwoodV3,
        i_in: vec![],
        i_out: vec![],
        eph: Eph::None,
        strat: Strat::Single,
        rule: Rule::Prim,
        dact: DAct::Reject,
        dthr: None,
        fallback: Pool::Sapling,
        memo: false,
        t_change_ok: false,
        regime: Regime::Free,
        delta: 0,
        rich: 0,
        fund: 0,
        split_n: 0,
    }
}

/// What a fixed case is expected to produce, derived by hand from ZIP 317 / ZIP 318 / the rustdoc.
#[derive(Clone, Debug)]
enum Expect {
    /// fee, change values (non-ephemeral), change pool, ironwood dummy outputs
    Ok { fee: u64, change: Vec<u64>, pool: Option<Pool>, i_dummy: Option<usize> },
    Insufficient { required: u64 },
    Any,
}

fn regress_cases() -> Vec<(&'static str, Case, Expect)> {
    let b = base_case();
    let post = |mut c: Case| {
        c.target = 500;
        c.o_ver = Ver::OrchardV3;
        c
    };
    let multi = |target, min, notes: usize| Strat::Multi { target, min, meta: [Some((notes, 0)), None, None] };
    let mut v: Vec<(&'static str, Case, Expect)> = vec![];
    // sapling 1-in/1-out: 2 logical actions; change 5000 is exactly at the default threshold
    v.push((
        "sapling change at threshold",
        Case { s_in: vec![55_000], s_out: vec![40_000], ..b.clone() },
        Expect::Ok { fee: 10_000, change: vec![5_000], pool: Some(Pool::Sapling), i_dummy: Some(0) },
    ));
    v.push((
        "sapling change one below threshold -> dust shortfall",
        Case { s_in: vec![54_999], s_out: vec![40_000], ..b.clone() },
        Expect::Insufficient { required: 55_000 },
    ));
    v.push((
        "sapling exact: zero-valued change is kept for shielded flows",
        Case { s_in: vec![50_000], s_out: vec![40_000], ..b.clone() },
        Expect::Ok { fee: 10_000, change: vec![0], pool: Some(Pool::Sapling), i_dummy: Some(0) },
    ));
    v.push((
        "sapling short by one",
        Case { s_in: vec![49_999], s_out: vec![40_000], ..b.clone() },
        Expect::Insufficient { required: 50_000 },
    ));
    // fully transparent, exact with min fee: no change at all
    v.push((
        "transparent exact",
        Case { t_in: vec![(50_000, TSize::ScriptP2pkh)], t_out: vec![(40_000, 25)], ..b.clone() },
        Expect::Ok { fee: 10_000, change: vec![], pool: None, i_dummy: Some(0) },
    ));
    // transparent change allowed: 1 in, 2 outputs + change = 3 outputs -> 15000
    v.push((
        "transparent change, third output raises the fee",
        Case {
            t_in: vec![(100_000, TSize::ScriptP2pkh)],
            t_out: vec![(20_000, 25), (20_000, 25)],
            t_change_ok: true,
            ..b.clone()
        },
        Expect::Ok { fee: 15_000, change: vec![45_000], pool: Some(Pool::Transparent), i_dummy: Some(0) },
    ));
    // 35-byte output = 2 logical output actions
    v.push((
        "35-byte transparent output",
        Case { s_in: vec![100_000], t_out: vec![(10_000, 26)], ..b.clone() },
        Expect::Ok { fee: 20_000, change: vec![70_000], pool: Some(Pool::Sapling), i_dummy: Some(0) },
    ));
    // multi-output: 5 parts of >= 1_000_000 from 7_500_000 - 1_000_000 - 30000
    v.push((
        "split into five",
        Case { s_in: vec![7_500_000], s_out: vec![1_000_000], strat: multi(5, 1_000_000, 0), ..b.clone() },
        Expect::Ok { fee: 30_000, change: vec![1_294_000; 5], pool: Some(Pool::Sapling), i_dummy: Some(0) },
    ));
    // not enough for five: four parts, fee recomputed for four
    v.push((
        "split reduced to four, fee recomputed",
        Case { s_in: vec![6_000_000], s_out: vec![1_000_000], strat: multi(5, 1_000_000, 0), ..b.clone() },
        Expect::Ok { fee: 25_000, change: vec![1_243_750; 4], pool: Some(Pool::Sapling), i_dummy: Some(0) },
    ));
    // remainder goes to the first part: change 3_000_001 - ... chosen so that 3 parts leave remainder 2
    v.push((
        "split with remainder on the first part",
        Case { s_in: vec![4_020_002], s_out: vec![1_000_000], strat: multi(3, 1_000_000, 0), ..b.clone() },
        Expect::Ok { fee: 20_000, change: vec![1_000_002, 1_000_000, 1_000_000], pool: Some(Pool::Sapling), i_dummy: Some(0) },
    ));
    // AddDustToFee: 100 zat of dust folded into the fee, no change output
    v.push((
        "dust folded into the fee",
        Case {
            t_in: vec![(50_100, TSize::ScriptP2pkh)],
            t_out: vec![(40_000, 25)],
            dact: DAct::AddToFee,
            t_change_ok: true,
            ..b.clone()
        },
        Expect::Ok { fee: 10_100, change: vec![], pool: None, i_dummy: Some(0) },
    ));
    // ZIP 318 canonical crossing after NU6.3: orchard 2 actions + 1 unpadded ironwood action
    let crossing = post(Case { o_in: vec![10_000_000], i_out: vec![1_000_000], fallback: Pool::Orchard, ..b.clone() });
    v.push((
        "canonical crossing on the grid",
        crossing.clone(),
        Expect::Ok { fee: 15_000, change: vec![8_985_000], pool: Some(Pool::Orchard), i_dummy: Some(0) },
    ));
    v.push((
        "canonical shape off the grid is padded",
        Case { anchor: 144 * 2 + 1, ..crossing.clone() },
        Expect::Ok { fee: 20_000, change: vec![8_980_000], pool: Some(Pool::Orchard), i_dummy: Some(1) },
    ));
    v.push((
        "one zatoshi off the denomination is padded",
        Case { i_out: vec![1_000_001], ..crossing.clone() },
        Expect::Ok { fee: 20_000, change: vec![8_979_999], pool: Some(Pool::Orchard), i_dummy: Some(1) },
    ));
    // turnstile: changeless remainder == orchard input -> change must not return to Orchard
    // orchard v3: 1 spend -> 2 actions; sapling 1 spend + 1 output -> 2; F(0) = 20000
    let ts = post(Case { o_in: vec![100_000], s_in: vec![60_000], s_out: vec![40_000], ..b.clone() });
    v.push(("turnstile: remainder equals the orchard input", ts.clone(), Expect::Any));
    v.push((
        "turnstile: remainder one below the orchard input",
        Case { s_in: vec![59_999], ..ts.clone() },
        Expect::Ok { fee: 20_000, change: vec![99_999], pool: Some(Pool::Orchard), i_dummy: Some(0) },
    ));
    v.push(("turnstile: transparent funds, orchard fallback", post(Case { t_in: vec![(63_000, TSize::ScriptP2pkh)], t_out: vec![(40_000, 25)], fallback: Pool::Orchard, ..b.clone() }), Expect::Any));
    // MAX_MONEY-scale
    v.push((
        "max money input",
        Case { s_in: vec![MAX_MONEY], s_out: vec![MAX_MONEY - 10_000], ..b.clone() },
        Expect::Ok { fee: 10_000, change: vec![0], pool: Some(Pool::Sapling), i_dummy: Some(0) },
    ));
    v.push(("inputs above max money", Case { s_in: vec![MAX_MONEY, 10_000], s_out: vec![1], ..b.clone() }, Expect::Any));
    v.push(("ephemeral output", Case { s_in: vec![100_000], eph: Eph::Out(30_000), ..b.clone() }, Expect::Any));
    // minimal input of the finding SIG_EPH_CROSSING: fee 20000 (Ironwood priced as 1 action) while the
    // recorded shape has 1 Ironwood dummy output (2 actions, ZIP 317 fee 25000)
    v.push(("finding: canonical crossing next to an ephemeral output", Case { eph: Eph::Out(30_000), ..crossing.clone() }, Expect::Any));
    v.push(("ephemeral input", Case { eph: Eph::In(50_000), t_out: vec![(40_000, 25)], memo: true, ..b.clone() }, Expect::Any));
    v
}

fn check_regress(i: u64) -> CaseResult {
    let (name, c, want) = regress_cases().swap_remove(i as usize);
    let obs = check_balance(&c)?;
    let h = build_harness(&c);
    let r = catch(|| run_case(&c, &h)).map_err(|p| Fail::new("compute-balance-panic", p))?;
    match (want, r) {
        (Expect::Any, _) => {}
        (Expect::Ok { fee, change, pool, i_dummy }, Ok(b)) => {
            let got: Vec<u64> = b.proposed_change().iter().filter(|x| !x.is_ephemeral()).map(|x| x.value().into_u64()).collect();
            vensure_eq!(b.fee_required().into_u64(), fee, "regress-expectation", "{name}: fee");
            vensure_eq!(got, change, "regress-expectation", "{name}: change values");
            let got_pool = b.proposed_change().iter().find(|x| !x.is_ephemeral()).map(|x| Pool::of(x.output_pool()));
            vensure_eq!(got_pool, pool, "regress-expectation", "{name}: change pool");
            if let Some(d) = i_dummy {
                vensure_eq!(b.dummy_outputs().map(|x| x.ironwood()), Some(d), "regress-expectation", "{name}: ironwood dummies");
            }
        }
        (Expect::Insufficient { required }, Err(ChangeError::InsufficientFunds { required: r, .. })) => {
            vensure_eq!(r.into_u64(), required, "regress-expectation", "{name}: required");
        }
        (want, got) => vfail!("regress-expectation", "{name}: expected {want:?}, got {got:?}"),
    }
    Ok(Obs { nontrivial: true, key: vcore::hash64(name.as_bytes()), ..obs })
}

fn main() {
    let ctx = Ctx::from_args("C07", "exploration");
    ctx.set_rule(
        "fee-required: generated size lists (boundary sizes around multiples of 150/34, up to 2^40), action counts \
         (small, u32 boundary, around the MAX_MONEY/5000 overflow point, up to 2^58), standard/StandardFeeRule/\
         non-standard rules; non-trivial = logical actions above the grace floor, an over-range fee or an unknown \
         input. compute-balance: per-pool input/output multisets from the boundary lattice (0,1,4999..5001,9999..\
         10001, thresholds+-1, ZIP 318 denominations+-1, log-uniform typical, MAX_MONEY-scale), five shape templates, \
         all dust/split/fallback/memo/ephemeral/transparent-change policies, heights around NU5/NU6/NU6.3, anchors \
         on/off the grid; one input is then solved with the reference model so that the case lands on its regime's \
         frontier (changeless fee, fee with change, dust threshold, split minimum, turnstile bound, dust guard, \
         rich). Non-trivial = Ok with >= 1 change output, or InsufficientFunds within 10 000 zat of a feasibility \
         frontier; distinct = hash of the whole case.",
    );
    ctx.assume("sapling-crypto / orchard builder padding behaves as their BundleType rustdoc says (reference padding model is written from that text)");
    ctx.assume("AccountMeta pool totals sum to at most MAX_MONEY (AccountMeta::total_value documents that it does not overflow)");
    ctx.assume("transparent sizes and action counts passed to fee_required stay below 2^40 bytes / 2^58 actions (no usize wrap in the sums)");
    ctx.assume("after NU6.3 callers do not request Orchard payments (documented: Step::from_parts rejects them); the turnstile oracle therefore compares Orchard change with Orchard inputs only");
    ctx.assume("the change memo is ignored when an ephemeral input is present (documented in single_pool_output_balance)");
    let tier = ctx.tier;
    let max_n = tier.pick(6usize, 40usize);

    // C07_SKIP_FIXED=1 skips the two fixed-list sub-checks; used only when measuring the sensitivity
    // of the generated sub-checks against mutants (a violation in a fixed list stops the run first).
    let skip_fixed = std::env::var_os("C07_SKIP_FIXED").is_some();
    let nv = if skip_fixed { 0 } else { fee_vectors().len() as u64 };
    ctx.run_enum("fee-vectors", nv, true, check_fee_vector, |i| format!("{:?}", fee_vectors()[i as usize]));
    ctx.run_prop("fee-required", move || arb_fee_case(max_n), tier.pick(1_500_000, 10_000_000), check_fee_required);
    for l in ["above-grace", "grace-floor", "overflow", "unknown-input", "size-boundary", "ironwood-actions", "non-standard-rule", "standard-fee-rule"] {
        ctx.require_min_count("fee-required", l, 2_000);
    }
    ctx.require_min_count("fee-required", "at-max-money", 30);

    let nr = if skip_fixed { 0 } else { regress_cases().len() as u64 };
    ctx.run_enum("balance-regress", nr, true, check_regress, |i| {
        let (n, c, e) = regress_cases().swap_remove(i as usize);
        format!("{n}: {c:?} expect {e:?}")
    });

    ctx.run_prop("compute-balance", move || arb_case(max_n), tier.pick(3_000_000, 20_000_000), check_balance);
    ctx.require_label_fraction("compute-balance", "ok-with-change", 0.30);
    ctx.require_label_fraction("compute-balance", "near-frontier", 0.15);
    ctx.require_label_fraction("compute-balance", "insufficient", 0.05);
    ctx.require_label_fraction("compute-balance", "nu6.3-active", 0.25);
    ctx.require_label_fraction("compute-balance", "nu6.3-inactive", 0.25);
    for l in [
        "split>=2",
        "split-reduced",
        "split-with-remainder",
        "dust-folded-into-fee",
        "zero-valued-change",
        "ironwood-unpadded-canonical",
        "canonical-shape-but-padded",
        "turnstile-orchard-change",
        "turnstile-redirected-to-ironwood",
        "insufficient-dust-shortfall",
        "insufficient-min-fee",
        "insufficient-change-fee",
        "dust-inputs",
        "bundle-error",
        "overflow",
        "unknown-input",
        "ephemeral-input",
        "ephemeral-output",
        "standard-fee-rule",
        "max-money-scale",
        "height-below-nu5",
        "height-nu5-to-nu6",
        "ok-no-change",
    ] {
        ctx.require_min_count("compute-balance", l, 300);
    }
    // every policy x strategy x change pool combination
    for d in [DAct::Reject, DAct::Allow, DAct::AddToFee] {
        for m in [false, true] {
            for p in [Some(Pool::Transparent), Some(Pool::Sapling), Some(Pool::Orchard), Some(Pool::Ironwood)] {
                ctx.require_min_count("compute-balance", policy_pool_label(d, m, p), 200);
            }
        }
    }
    for r in Regime::ALL {
        ctx.require_min_count("compute-balance", regime_label(r, 0), 300);
    }
    ctx.finish();
}

//! C20 — Chain-history tree roots match a from-scratch recomputation.
//!
//! Reference model (written from ZIP 221 + the V2/V3 extensions documented in
//! `zcash_history::node_data` / `version`): plain leaf list, stack-built array representation,
//! from-scratch MMR root (peaks by binary decomposition of the leaf count, bagged left to right),
//! own node serialiser / parser / CompactSize codec, BLAKE2b-256 personalised with
//! "ZcashHistory" || branch_id_le. Shared with the code under test: only the BLAKE2b primitive.

use proptest::prelude::*;
use vcore::{catch, hash64, vensure, vensure_eq, vfail, CaseResult, Ctx, Fail, Obs};
use zcash_encoding_local::CompactSize;
use zcash_history::{
    Entry, EntryLink, Error as HistError, NodeData, NodeDataV2, NodeDataV3, Tree, Version, MAX_ENTRY_SIZE,
    MAX_NODE_DATA_SIZE, V1, V2, V3,
};

// ---------------------------------------------------------------------------------------------
// Reference: 256-bit work, node data, serialiser, parser, combine
// ---------------------------------------------------------------------------------------------

/// 256-bit unsigned integer, little-endian 64-bit limbs (independent of primitive_types).
#[derive(Clone, Copy, PartialEq, Eq, Default)]
struct W256([u64; 4]);

impl W256 {
    fn checked_add(self, o: W256) -> Option<W256> {
        let mut out = [0u64; 4];
        let mut carry = 0u128;
        for i in 0..4 {
            let s = self.0[i] as u128 + o.0[i] as u128 + carry;
            out[i] = s as u64;
            carry = s >> 64;
        }
        if carry != 0 {
            None
        } else {
            Some(W256(out))
        }
    }
    fn shr1(self) -> W256 {
        let mut out = [0u64; 4];
        for i in 0..4 {
            out[i] = self.0[i] >> 1;
            if i < 3 {
                out[i] |= self.0[i + 1] << 63;
            }
        }
        W256(out)
    }
    fn to_le_bytes(self) -> [u8; 32] {
        let mut b = [0u8; 32];
        for i in 0..4 {
            b[i * 8..i * 8 + 8].copy_from_slice(&self.0[i].to_le_bytes());
        }
        b
    }
    fn from_le_bytes(b: &[u8]) -> W256 {
        let mut l = [0u64; 4];
        for i in 0..4 {
            l[i] = u64::from_le_bytes(b[i * 8..i * 8 + 8].try_into().unwrap());
        }
        W256(l)
    }
}

impl std::fmt::Debug for W256 {
    fn fmt(&self, f: &mut std::fmt::Formatter<'_>) -> std::fmt::Result {
        write!(f, "0x{:016x}{:016x}{:016x}{:016x}", self.0[3], self.0[2], self.0[1], self.0[0])
    }
}

#[derive(Clone, PartialEq, Eq, Default)]
struct RData {
    branch: u32,
    commitment: [u8; 32],
    start_time: u32,
    end_time: u32,
    start_target: u32,
    end_target: u32,
    start_sapling: [u8; 32],
    end_sapling: [u8; 32],
    work: W256,
    start_height: u64,
    end_height: u64,
    sapling_tx: u64,
    // V2+
    start_orchard: [u8; 32],
    end_orchard: [u8; 32],
    orchard_tx: u64,
    // V3
    start_ironwood: [u8; 32],
    end_ironwood: [u8; 32],
    ironwood_tx: u64,
}

fn h8(b: &[u8; 32]) -> String {
    hex::encode(&b[..6])
}

impl std::fmt::Debug for RData {
    fn fmt(&self, f: &mut std::fmt::Formatter<'_>) -> std::fmt::Result {
        write!(
            f,
            "RData{{branch:{:#x} cm:{} t:{}..{} tg:{}..{} sap:{}..{} work:{:?} h:{}..{} stx:{} orch:{}..{} otx:{} iw:{}..{} itx:{}}}",
            self.branch,
            h8(&self.commitment),
            self.start_time,
            self.end_time,
            self.start_target,
            self.end_target,
            h8(&self.start_sapling),
            h8(&self.end_sapling),
            self.work,
            self.start_height,
            self.end_height,
            self.sapling_tx,
            h8(&self.start_orchard),
            h8(&self.end_orchard),
            self.orchard_tx,
            h8(&self.start_ironwood),
            h8(&self.end_ironwood),
            self.ironwood_tx
        )
    }
}

/// Names of the fields in which two records differ (for messages).
fn diff_fields(a: &RData, b: &RData) -> String {
    let mut v = vec![];
    macro_rules! d {
        ($f:ident) => {
            if a.$f != b.$f {
                v.push(format!("{}: got {:?} want {:?}", stringify!($f), a.$f, b.$f));
            }
        };
    }
    d!(branch);
    d!(commitment);
    d!(start_time);
    d!(end_time);
    d!(start_target);
    d!(end_target);
    d!(start_sapling);
    d!(end_sapling);
    d!(work);
    d!(start_height);
    d!(end_height);
    d!(sapling_tx);
    d!(start_orchard);
    d!(end_orchard);
    d!(orchard_tx);
    d!(start_ironwood);
    d!(end_ironwood);
    d!(ironwood_tx);
    v.join("; ")
}

/// Reference CompactSize (Bitcoin-style, canonical, full u64 range).
fn ref_compact(v: u64, out: &mut Vec<u8>) {
    if v < 253 {
        out.push(v as u8);
    } else if v <= 0xffff {
        out.push(0xfd);
        out.extend_from_slice(&(v as u16).to_le_bytes());
    } else if v <= 0xffff_ffff {
        out.push(0xfe);
        out.extend_from_slice(&(v as u32).to_le_bytes());
    } else {
        out.push(0xff);
        out.extend_from_slice(&v.to_le_bytes());
    }
}

/// Encodes `v` with an explicit form (1: fd+u16, 2: fe+u32, 3: ff+u64), canonical or not.
/// Returns false (and writes the canonical form) if the value does not fit the form.
fn compact_with_form(v: u64, form: u8, out: &mut Vec<u8>) -> bool {
    match form {
        1 if v <= 0xffff => {
            out.push(0xfd);
            out.extend_from_slice(&(v as u16).to_le_bytes());
            true
        }
        2 if v <= 0xffff_ffff => {
            out.push(0xfe);
            out.extend_from_slice(&(v as u32).to_le_bytes());
            true
        }
        3 => {
            out.push(0xff);
            out.extend_from_slice(&v.to_le_bytes());
            true
        }
        _ => {
            ref_compact(v, out);
            false
        }
    }
}

fn canonical_form(v: u64) -> u8 {
    if v < 253 {
        0
    } else if v <= 0xffff {
        1
    } else if v <= 0xffff_ffff {
        2
    } else {
        3
    }
}

/// Reference serialisation (ZIP 221 node layout + Orchard (NU5) + Ironwood (V3) extension).
/// `widen = Some((k, form))` re-encodes the k-th CompactSize field with the given (possibly
/// non-canonical) form — used by the mutation fuzzer only.
fn ref_serialize_with(ver: u8, d: &RData, widen: Option<(usize, u8)>) -> Vec<u8> {
    let mut out = Vec::with_capacity(320);
    let mut k = 0usize;
    let mut cs = |v: u64, out: &mut Vec<u8>| {
        match widen {
            Some((wk, form)) if wk == k => {
                compact_with_form(v, form, out);
            }
            _ => ref_compact(v, out),
        }
        k += 1;
    };
    out.extend_from_slice(&d.commitment);
    out.extend_from_slice(&d.start_time.to_le_bytes());
    out.extend_from_slice(&d.end_time.to_le_bytes());
    out.extend_from_slice(&d.start_target.to_le_bytes());
    out.extend_from_slice(&d.end_target.to_le_bytes());
    out.extend_from_slice(&d.start_sapling);
    out.extend_from_slice(&d.end_sapling);
    out.extend_from_slice(&d.work.to_le_bytes());
    cs(d.start_height, &mut out);
    cs(d.end_height, &mut out);
    cs(d.sapling_tx, &mut out);
    if ver >= 2 {
        out.extend_from_slice(&d.start_orchard);
        out.extend_from_slice(&d.end_orchard);
        cs(d.orchard_tx, &mut out);
    }
    if ver >= 3 {
        out.extend_from_slice(&d.start_ironwood);
        out.extend_from_slice(&d.end_ironwood);
        cs(d.ironwood_tx, &mut out);
    }
    out
}

fn ref_serialize(ver: u8, d: &RData) -> Vec<u8> {
    ref_serialize_with(ver, d, None)
}

fn n_compact_fields(ver: u8) -> usize {
    match ver {
        1 => 3,
        2 => 4,
        _ => 5,
    }
}

#[derive(Clone, Copy, Debug, PartialEq, Eq)]
enum Rej {
    Eof,
    NonCanonical,
    HeightRange,
    BadKind,
}

struct Rd<'a> {
    b: &'a [u8],
    pos: usize,
}

impl<'a> Rd<'a> {
    fn take(&mut self, n: usize) -> Result<&'a [u8], Rej> {
        if self.b.len() - self.pos < n {
            return Err(Rej::Eof);
        }
        let s = &self.b[self.pos..self.pos + n];
        self.pos += n;
        Ok(s)
    }
    fn a32(&mut self) -> Result<[u8; 32], Rej> {
        Ok(self.take(32)?.try_into().unwrap())
    }
    fn u32(&mut self) -> Result<u32, Rej> {
        Ok(u32::from_le_bytes(self.take(4)?.try_into().unwrap()))
    }
    fn compact(&mut self) -> Result<u64, Rej> {
        let flag = self.take(1)?[0];
        match flag {
            0..=252 => Ok(flag as u64),
            253 => {
                let v = u16::from_le_bytes(self.take(2)?.try_into().unwrap()) as u64;
                if v < 253 {
                    Err(Rej::NonCanonical)
                } else {
                    Ok(v)
                }
            }
            254 => {
                let v = u32::from_le_bytes(self.take(4)?.try_into().unwrap()) as u64;
                if v <= 0xffff {
                    Err(Rej::NonCanonical)
                } else {
                    Ok(v)
                }
            }
            255 => {
                let v = u64::from_le_bytes(self.take(8)?.try_into().unwrap());
                if v <= 0xffff_ffff {
                    Err(Rej::NonCanonical)
                } else {
                    Ok(v)
                }
            }
        }
    }
}

/// Reference parser of node data. Rejects truncated input, non-canonical CompactSize and (per the
/// rustdoc of `NodeData::read`) a descending / unrepresentable height range.
fn ref_parse_data(ver: u8, branch: u32, r: &mut Rd<'_>) -> Result<RData, Rej> {
    let mut d = RData {
        branch,
        ..Default::default()
    };
    d.commitment = r.a32()?;
    d.start_time = r.u32()?;
    d.end_time = r.u32()?;
    d.start_target = r.u32()?;
    d.end_target = r.u32()?;
    d.start_sapling = r.a32()?;
    d.end_sapling = r.a32()?;
    d.work = W256::from_le_bytes(r.take(32)?);
    d.start_height = r.compact()?;
    d.end_height = r.compact()?;
    if d.end_height < d.start_height || d.end_height - d.start_height == u64::MAX {
        return Err(Rej::HeightRange);
    }
    d.sapling_tx = r.compact()?;
    if ver >= 2 {
        d.start_orchard = r.a32()?;
        d.end_orchard = r.a32()?;
        d.orchard_tx = r.compact()?;
    }
    if ver >= 3 {
        d.start_ironwood = r.a32()?;
        d.end_ironwood = r.a32()?;
        d.ironwood_tx = r.compact()?;
    }
    Ok(d)
}

fn ref_hash(branch: u32, input: &[u8]) -> [u8; 32] {
    let mut pers = [0u8; 16];
    pers[..12].copy_from_slice(b"ZcashHistory");
    pers[12..].copy_from_slice(&branch.to_le_bytes());
    let h = blake2b_simd::Params::new().hash_length(32).personal(&pers).hash(input);
    h.as_bytes().try_into().unwrap()
}

/// ZIP 221 `make_parent` (+ Orchard / Ironwood fields by version).
fn ref_combine(ver: u8, l: &RData, r: &RData) -> RData {
    let mut buf = ref_serialize(ver, l);
    buf.extend_from_slice(&ref_serialize(ver, r));
    let mut p = RData {
        branch: l.branch,
        commitment: ref_hash(l.branch, &buf),
        start_time: l.start_time,
        end_time: r.end_time,
        start_target: l.start_target,
        end_target: r.end_target,
        start_sapling: l.start_sapling,
        end_sapling: r.end_sapling,
        work: l.work.checked_add(r.work).expect("generator keeps total work < 2^256"),
        start_height: l.start_height,
        end_height: r.end_height,
        sapling_tx: l.sapling_tx.checked_add(r.sapling_tx).expect("generator keeps counters < 2^64"),
        ..Default::default()
    };
    if ver >= 2 {
        p.start_orchard = l.start_orchard;
        p.end_orchard = r.end_orchard;
        p.orchard_tx = l.orchard_tx.checked_add(r.orchard_tx).expect("generator keeps counters < 2^64");
    }
    if ver >= 3 {
        p.start_ironwood = l.start_ironwood;
        p.end_ironwood = r.end_ironwood;
        p.ironwood_tx = l.ironwood_tx.checked_add(r.ironwood_tx).expect("generator keeps counters < 2^64");
    }
    p
}

/// Root of a perfect subtree over `leaves` (length a power of two), by halving.
fn ref_subtree(ver: u8, leaves: &[RData]) -> RData {
    if leaves.len() == 1 {
        leaves[0].clone()
    } else {
        let (a, b) = leaves.split_at(leaves.len() / 2);
        ref_combine(ver, &ref_subtree(ver, a), &ref_subtree(ver, b))
    }
}

/// From-scratch MMR root: peaks by binary decomposition of the leaf count (largest first = leftmost),
/// bagged left to right with the accumulated node on the left (ZIP 221 `bag_peaks`, `Tree::new`).
fn scratch_root(ver: u8, leaves: &[RData]) -> RData {
    let n = leaves.len();
    assert!(n > 0);
    let mut rest = leaves;
    let mut acc: Option<RData> = None;
    for k in (0..usize::BITS).rev() {
        if (n >> k) & 1 == 1 {
            let (p, r) = rest.split_at(1usize << k);
            rest = r;
            let pd = ref_subtree(ver, p);
            acc = Some(match acc {
                None => pd,
                Some(a) => ref_combine(ver, &a, &pd),
            });
        }
    }
    acc.unwrap()
}

// ---------------------------------------------------------------------------------------------
// Reference array representation (what a node store holds)
// ---------------------------------------------------------------------------------------------

#[derive(Clone, Debug, PartialEq, Eq)]
struct SNode {
    data: RData,
    kids: Option<(u32, u32)>,
}

/// Length of the array representation of an MMR with `n` leaves.
fn ref_len(n: usize) -> usize {
    2 * n - n.count_ones() as usize
}

/// (array index, height) of the peaks of an `n`-leaf MMR, left to right, by binary decomposition.
fn peaks_by_formula(n: usize) -> Vec<(u32, u32)> {
    let mut out = vec![];
    let mut offset = 0usize;
    for k in (0..usize::BITS).rev() {
        if (n >> k) & 1 == 1 {
            let size = (1usize << (k + 1)) - 1;
            out.push(((offset + size - 1) as u32, k));
            offset += size;
        }
    }
    out
}

#[derive(Clone)]
struct Model {
    ver: u8,
    leaves: Vec<RData>,
    store: Vec<SNode>,
    peaks: Vec<(u32, u32)>,
}

impl Model {
    fn new(ver: u8) -> Self {
        Model {
            ver,
            leaves: vec![],
            store: vec![],
            peaks: vec![],
        }
    }
    fn n(&self) -> usize {
        self.leaves.len()
    }
    /// Stack-based MMR append: push the leaf, then merge equal-height peaks.
    fn append(&mut self, leaf: RData) {
        self.leaves.push(leaf.clone());
        self.store.push(SNode { data: leaf, kids: None });
        self.peaks.push((self.store.len() as u32 - 1, 0));
        while self.peaks.len() >= 2 && self.peaks[self.peaks.len() - 1].1 == self.peaks[self.peaks.len() - 2].1 {
            let (r, h) = self.peaks.pop().unwrap();
            let (l, _) = self.peaks.pop().unwrap();
            let data = ref_combine(self.ver, &self.store[l as usize].data, &self.store[r as usize].data);
            self.store.push(SNode { data, kids: Some((l, r)) });
            self.peaks.push((self.store.len() as u32 - 1, h + 1));
        }
        assert_eq!(self.peaks, peaks_by_formula(self.n()), "harness: peak bookkeeping");
        assert_eq!(self.store.len(), ref_len(self.n()), "harness: array length");
    }
    /// Removes the last leaf; returns it and the array nodes that disappear.
    fn truncate(&mut self) -> (RData, Vec<SNode>) {
        assert!(self.n() >= 2);
        let leaf = self.leaves.pop().unwrap();
        let tail = self.store.split_off(ref_len(self.n()));
        self.peaks = peaks_by_formula(self.n());
        (leaf, tail)
    }
    /// Root from the array representation: bag the stored peaks left to right.
    fn root(&self) -> RData {
        let mut acc = self.store[self.peaks[0].0 as usize].data.clone();
        for (i, _) in &self.peaks[1..] {
            acc = ref_combine(self.ver, &acc, &self.store[*i as usize].data);
        }
        acc
    }
    /// Root of the MMR over the first `k` leaves (k <= n), from the same array (its prefix).
    fn root_for(&self, k: usize) -> RData {
        assert!(k >= 1 && k <= self.n());
        let pk = peaks_by_formula(k);
        let mut acc = self.store[pk[0].0 as usize].data.clone();
        for (i, _) in &pk[1..] {
            acc = ref_combine(self.ver, &acc, &self.store[*i as usize].data);
        }
        acc
    }
    /// `truncate_needs` for the tree over the first `k` leaves.
    fn needs_for(&self, k: usize) -> Vec<u32> {
        let mut out = vec![];
        let mut cur = peaks_by_formula(k).last().unwrap().0;
        while let Some((l, r)) = self.store[cur as usize].kids {
            out.push(l);
            out.push(r);
            cur = r;
        }
        out
    }
    fn peak_indices(&self) -> Vec<u32> {
        self.peaks.iter().map(|p| p.0).collect()
    }
    fn non_peak_indices(&self) -> Vec<u32> {
        let pk = self.peak_indices();
        (0..self.store.len() as u32).filter(|i| !pk.contains(i)).collect()
    }
    /// Minimal extra nodes a single `truncate_leaf` needs besides the peaks: both children of every
    /// internal node on the right spine of the last peak (nothing when the last peak is a lone leaf).
    fn truncate_needs(&self) -> Vec<u32> {
        let mut out = vec![];
        let mut cur = self.peaks.last().unwrap().0;
        while let Some((l, r)) = self.store[cur as usize].kids {
            out.push(l);
            out.push(r);
            cur = r;
        }
        out
    }
}

// ---------------------------------------------------------------------------------------------
// Glue to the three crate versions
// ---------------------------------------------------------------------------------------------

trait Glue: Version + Sized {
    const VER: u8;
    fn to_crate(d: &RData) -> Self::NodeData;
    fn from_crate(d: &Self::NodeData) -> RData;
}

fn v1_to_crate(d: &RData) -> NodeData {
    NodeData {
        consensus_branch_id: d.branch,
        subtree_commitment: d.commitment,
        start_time: d.start_time,
        end_time: d.end_time,
        start_target: d.start_target,
        end_target: d.end_target,
        start_sapling_root: d.start_sapling,
        end_sapling_root: d.end_sapling,
        subtree_total_work: primitive_types::U256::from_little_endian(&d.work.to_le_bytes()),
        start_height: d.start_height,
        end_height: d.end_height,
        sapling_tx: d.sapling_tx,
    }
}

fn v1_from_crate(c: &NodeData) -> RData {
    let mut w = [0u8; 32];
    c.subtree_total_work.to_little_endian(&mut w);
    RData {
        branch: c.consensus_branch_id,
        commitment: c.subtree_commitment,
        start_time: c.start_time,
        end_time: c.end_time,
        start_target: c.start_target,
        end_target: c.end_target,
        start_sapling: c.start_sapling_root,
        end_sapling: c.end_sapling_root,
        work: W256::from_le_bytes(&w),
        start_height: c.start_height,
        end_height: c.end_height,
        sapling_tx: c.sapling_tx,
        ..Default::default()
    }
}

impl Glue for V1 {
    const VER: u8 = 1;
    fn to_crate(d: &RData) -> NodeData {
        v1_to_crate(d)
    }
    fn from_crate(c: &NodeData) -> RData {
        v1_from_crate(c)
    }
}

impl Glue for V2 {
    const VER: u8 = 2;
    fn to_crate(d: &RData) -> NodeDataV2 {
        NodeDataV2 {
            v1: v1_to_crate(d),
            start_orchard_root: d.start_orchard,
            end_orchard_root: d.end_orchard,
            orchard_tx: d.orchard_tx,
        }
    }
    fn from_crate(c: &NodeDataV2) -> RData {
        RData {
            start_orchard: c.start_orchard_root,
            end_orchard: c.end_orchard_root,
            orchard_tx: c.orchard_tx,
            ..v1_from_crate(&c.v1)
        }
    }
}

impl Glue for V3 {
    const VER: u8 = 3;
    fn to_crate(d: &RData) -> NodeDataV3 {
        NodeDataV3 {
            v2: <V2 as Glue>::to_crate(d),
            start_ironwood_root: d.start_ironwood,
            end_ironwood_root: d.end_ironwood,
            ironwood_tx: d.ironwood_tx,
        }
    }
    fn from_crate(c: &NodeDataV3) -> RData {
        RData {
            start_ironwood: c.start_ironwood_root,
            end_ironwood: c.end_ironwood_root,
            ironwood_tx: c.ironwood_tx,
            ..<V2 as Glue>::from_crate(&c.v2)
        }
    }
}

/// Zeroes the fields a version does not have (so that equality with `from_crate` is meaningful).
fn project(ver: u8, mut d: RData) -> RData {
    if ver < 2 {
        d.start_orchard = [0; 32];
        d.end_orchard = [0; 32];
        d.orchard_tx = 0;
    }
    if ver < 3 {
        d.start_ironwood = [0; 32];
        d.end_ironwood = [0; 32];
        d.ironwood_tx = 0;
    }
    d
}

fn mk_entry<G: Glue>(n: &SNode) -> Entry<G> {
    match n.kids {
        None => Entry::new_leaf(G::to_crate(&n.data)),
        Some((l, r)) => Entry::new(G::to_crate(&n.data), EntryLink::Stored(l), EntryLink::Stored(r)),
    }
}

/// `Tree::new(length, peaks, extra)` over the model's array: the peaks plus the listed extra nodes.
fn build_view<G: Glue>(m: &Model, extra: &[u32]) -> Result<Tree<G>, Fail> {
    let peaks: Vec<(u32, Entry<G>)> = m.peaks.iter().map(|(i, _)| (*i, mk_entry::<G>(&m.store[*i as usize]))).collect();
    let extra: Vec<(u32, Entry<G>)> = extra.iter().map(|i| (*i, mk_entry::<G>(&m.store[*i as usize]))).collect();
    let len = m.store.len() as u32;
    catch(move || Tree::<G>::new(len, peaks, extra))
        .map_err(|p| Fail::new("tree-new-panic", format!("Tree::new(len={len}) with non-empty peaks panicked: {p}")))
}

fn link_str(l: EntryLink) -> String {
    match l {
        EntryLink::Stored(i) => format!("Stored({i})"),
        EntryLink::Generated(i) => format!("Generated({i})"),
    }
}

/// Root data / len / leaf count / root link kind of a tree against expected values.
fn check_state<G: Glue>(t: &Tree<G>, exp_root: &RData, exp_len: usize, n: usize, what: &str) -> Result<(), Fail> {
    vensure_eq!(t.len() as usize, exp_len, "tree-len", "{what}: Tree::len() with {n} leaves");
    vensure!(!t.is_empty(), "tree-len", "{what}: is_empty() on a tree with {n} leaves");
    let rn = match t.root_node() {
        Ok(r) => r,
        Err(e) => vfail!("root-unresolvable", "{what}: root_node() failed with {e:?} ({n} leaves)"),
    };
    let got = G::from_crate(rn.data());
    if got != *exp_root {
        vfail!("root-mismatch", "{what}: root data differs from the rebuilt MMR root at {n} leaves: {}", diff_fields(&got, exp_root));
    }
    let bytes = catch(|| G::to_bytes(rn.data())).map_err(|p| Fail::new("serialize-panic", format!("{what}: to_bytes(root) panicked: {p}")))?;
    vensure!(bytes == ref_serialize(G::VER, exp_root), "root-serialization-mismatch", "{what}: to_bytes(root) differs from the reference serialisation at {n} leaves");
    let lc = catch(|| rn.node().leaf_count()).map_err(|p| Fail::new("leaf-count-panic", format!("{what}: leaf_count panicked: {p}")))?;
    vensure_eq!(lc, n as u64, "root-leaf-count", "{what}: root leaf_count()");
    match (rn.link(), n.is_power_of_two()) {
        (EntryLink::Stored(i), true) => vensure_eq!(i as usize, exp_len - 1, "root-link", "{what}: stored root index at {n} leaves"),
        (EntryLink::Generated(_), false) => {}
        (l, _) => vfail!("root-link", "{what}: root link {} at {n} leaves (a complete tree has a stored root, any other a generated one)", link_str(l)),
    }
    Ok(())
}

/// Reference bytes of a stored entry: kind byte (0 = node + two LE u32 links, 1 = leaf) then node data.
fn ref_entry_bytes(ver: u8, n: &SNode) -> Vec<u8> {
    let mut out = vec![];
    match n.kids {
        Some((l, r)) => {
            out.push(0);
            out.extend_from_slice(&l.to_le_bytes());
            out.extend_from_slice(&r.to_le_bytes());
        }
        None => out.push(1),
    }
    out.extend_from_slice(&ref_serialize(ver, &n.data));
    out
}

/// `append_leaf` on `t`; the returned links must name exactly the array nodes `expected` (the
/// reference array's new tail) in array order; then the state must match.
fn do_append<G: Glue>(
    t: &mut Tree<G>,
    leaf: &RData,
    len_before: usize,
    expected: &[SNode],
    exp_root: &RData,
    n_after: usize,
    what: &str,
) -> Result<(), Fail> {
    let data = G::to_crate(leaf);
    let links = match catch(|| t.append_leaf(data)) {
        Err(p) => vfail!("append-panic", "{what}: append_leaf to {} leaves panicked: {p}", n_after - 1),
        Ok(Err(e)) => vfail!("append-error", "{what}: append_leaf to {} leaves failed: {e:?}", n_after - 1),
        Ok(Ok(l)) => l,
    };
    vensure_eq!(links.len(), expected.len(), "append-link-count", "{what}: number of links returned by append_leaf to {} leaves", n_after - 1);
    for (j, link) in links.iter().enumerate() {
        match *link {
            EntryLink::Stored(i) => vensure_eq!(i as usize, len_before + j, "append-link-index", "{what}: {j}-th appended link"),
            EntryLink::Generated(_) => vfail!("append-link-index", "{what}: append_leaf returned a generated link {}", link_str(*link)),
        }
        let node = match t.resolve_link(*link) {
            Ok(nd) => nd,
            Err(e) => vfail!("append-link-unresolvable", "{what}: appended link {} does not resolve: {e:?}", link_str(*link)),
        };
        let got = G::from_crate(node.data());
        if got != expected[j].data {
            vfail!("append-node-data", "{what}: appended node {} (array index {}) differs from the reference: {}", j, len_before + j, diff_fields(&got, &expected[j].data));
        }
        let e = node.node();
        let kids = match (e.leaf(), e.left(), e.right()) {
            (true, Err(_), Err(_)) => None,
            (false, Ok(EntryLink::Stored(l)), Ok(EntryLink::Stored(r))) => Some((l, r)),
            (lf, l, r) => vfail!("append-node-links", "{what}: appended node {j}: leaf()={lf} left={l:?} right={r:?}"),
        };
        vensure_eq!(kids, expected[j].kids, "append-node-links", "{what}: children of appended node {j} (array index {})", len_before + j);
        let mut buf = vec![];
        match catch(|| e.write(&mut buf)) {
            Err(p) => vfail!("serialize-panic", "{what}: Entry::write panicked: {p}"),
            Ok(Err(er)) => vfail!("entry-write-error", "{what}: Entry::write of a stored node failed: {er}"),
            Ok(Ok(())) => {}
        }
        vensure!(buf == ref_entry_bytes(G::VER, &expected[j]), "entry-serialization-mismatch", "{what}: Entry::write of appended node {j} differs from the reference bytes");
    }
    check_state(t, exp_root, len_before + expected.len(), n_after, what)
}

/// `truncate_leaf` on `t`: returned count = number of array nodes removed; then state must match.
fn do_truncate<G: Glue>(t: &mut Tree<G>, len_before: usize, exp_removed: usize, exp_root: &RData, n_after: usize, what: &str) -> Result<(), Fail> {
    let c = match catch(|| t.truncate_leaf()) {
        Err(p) => vfail!("truncate-panic", "{what}: truncate_leaf from {} leaves panicked: {p}", n_after + 1),
        Ok(Err(e)) => vfail!("truncate-error", "{what}: truncate_leaf from {} leaves failed: {e:?}", n_after + 1),
        Ok(Ok(c)) => c,
    };
    vensure_eq!(c as usize, exp_removed, "truncate-count", "{what}: truncate_leaf from {} leaves: number of array nodes to remove", n_after + 1);
    check_state(t, exp_root, len_before - exp_removed, n_after, what)
}

/// A `truncate_leaf` that must fail cleanly (one-leaf tree).
fn expect_truncate_err<G: Glue>(t: &mut Tree<G>, what: &str) -> Result<(), Fail> {
    match catch(|| t.truncate_leaf()) {
        Err(p) => vfail!("truncate-panic", "{what}: truncate_leaf panicked instead of returning an error: {p}"),
        Ok(Ok(c)) => vfail!("truncate-one-leaf-ok", "{what}: truncate_leaf returned Ok({c}) although no leaf can be removed"),
        Ok(Err(_)) => Ok(()),
    }
}

/// `truncate_leaf` on a view that lacks some of the nodes in `missing`: either a clean
/// `ExpectedInMemory(Stored(i))` naming one of the omitted nodes, or a fully correct result (count,
/// len, and a root that is correct or itself reports the omitted node). Never a panic, another
/// error, or wrong data. Returns whether it errored.
fn lacking_truncate<G: Glue>(
    t: &mut Tree<G>,
    missing: &[u32],
    len_before: usize,
    exp_removed: usize,
    exp_root: &RData,
    what: &str,
) -> Result<bool, Fail> {
    let is_missing = |e: &HistError| matches!(e, HistError::ExpectedInMemory(EntryLink::Stored(i)) if missing.contains(i));
    match catch(|| t.truncate_leaf()) {
        Err(p) => vfail!("truncate-panic", "{what}: truncate_leaf panicked instead of returning an error: {p}"),
        Ok(Err(e)) => {
            vensure!(is_missing(&e), "truncate-missing-node-error", "{what}: expected ExpectedInMemory(Stored(one of {missing:?})), got {e:?}");
            Ok(true)
        }
        Ok(Ok(c)) => {
            vensure_eq!(c as usize, exp_removed, "truncate-missing-node-wrong", "{what}: count returned without the node");
            vensure_eq!(t.len() as usize, len_before - exp_removed, "truncate-missing-node-wrong", "{what}: len() after the op");
            match t.root_node() {
                Ok(r) => {
                    let got = G::from_crate(r.data());
                    if got != *exp_root {
                        vfail!("truncate-missing-node-wrong", "{what}: wrong root produced without the node: {}", diff_fields(&got, exp_root));
                    }
                }
                Err(e) => vensure!(is_missing(&e), "truncate-missing-node-error", "{what}: root_node() after the op: expected ExpectedInMemory of an omitted node, got {e:?}"),
            }
            Ok(false)
        }
    }
}

// ---------------------------------------------------------------------------------------------
// Leaves
// ---------------------------------------------------------------------------------------------

#[derive(Clone, Debug)]
struct LeafSpec {
    seed: u64,
    work: [u64; 4],
    stx: u64,
    otx: u64,
    itx: u64,
}

fn derive32(seed: u64, tag: u8) -> [u8; 32] {
    let mut inp = [0u8; 9];
    inp[..8].copy_from_slice(&seed.to_le_bytes());
    inp[8] = tag;
    blake2b_simd::Params::new().hash_length(32).hash(&inp).as_bytes().try_into().unwrap()
}

fn derive_u32(seed: u64, tag: u8) -> u32 {
    let x = hash64(&[&seed.to_le_bytes()[..], &[tag]].concat());
    // a few extreme values
    match x % 16 {
        0 => 0,
        1 => u32::MAX,
        2 => 1,
        _ => (x >> 8) as u32,
    }
}

impl LeafSpec {
    /// Deterministic "ordinary" leaf for bulk growth: small counters around the 1-byte/3-byte
    /// CompactSize boundary, small work.
    fn small(seed: u64, j: u64) -> LeafSpec {
        let x = hash64(&[seed.to_le_bytes(), j.to_le_bytes()].concat());
        let pick = |y: u64| -> u64 {
            match y % 8 {
                0 => 0,
                1 => 252,
                2 => 253,
                3 => 1,
                4 => 0xffff,
                _ => (y >> 8) % 3000,
            }
        };
        LeafSpec {
            seed: x,
            work: [(x >> 3) & 0xff_ffff_ffff, 0, 0, 0],
            stx: pick(x),
            otx: pick(x >> 16),
            itx: pick(x >> 32),
        }
    }
}

/// Clamps a counter so that the live total stays below 2^64 (implicit precondition of real chains).
fn clamp_counter(v: u64, live: u64) -> u64 {
    let remaining = u64::MAX - live;
    if v > remaining {
        v % (remaining / 2 + 1)
    } else {
        v
    }
}

/// Builds the leaf record for height `height`, keeping Σwork < 2^256 and Σcounters < 2^64 over the
/// live leaf set.
fn make_leaf(ver: u8, branch: u32, height: u64, spec: &LeafSpec, live: &[RData]) -> RData {
    let mut work = W256(spec.work);
    let mut live_work = W256::default();
    let (mut ls, mut lo, mut li) = (0u64, 0u64, 0u64);
    for l in live {
        live_work = live_work.checked_add(l.work).expect("harness: live work bounded");
        ls += l.sapling_tx;
        lo += l.orchard_tx;
        li += l.ironwood_tx;
    }
    while live_work.checked_add(work).is_none() {
        work = work.shr1();
    }
    let s = spec.seed;
    let realistic = s % 4 == 0; // a real leaf describes one block: start == end
    let zero_roots = s % 16 == 5;
    let root = |tag: u8| if zero_roots { [0u8; 32] } else { derive32(s, tag) };
    let d = RData {
        branch,
        commitment: derive32(s, 0),
        start_time: derive_u32(s, 1),
        end_time: if realistic { derive_u32(s, 1) } else { derive_u32(s, 2) },
        start_target: derive_u32(s, 3),
        end_target: if realistic { derive_u32(s, 3) } else { derive_u32(s, 4) },
        start_sapling: root(5),
        end_sapling: if realistic { root(5) } else { root(6) },
        work,
        start_height: height,
        end_height: height,
        sapling_tx: clamp_counter(spec.stx, ls),
        start_orchard: root(7),
        end_orchard: if realistic { root(7) } else { root(8) },
        orchard_tx: clamp_counter(spec.otx, lo),
        start_ironwood: root(9),
        end_ironwood: if realistic { root(9) } else { root(10) },
        ironwood_tx: clamp_counter(spec.itx, li),
    };
    project(ver, d)
}

// ---------------------------------------------------------------------------------------------
// Op sequences
// ---------------------------------------------------------------------------------------------

#[derive(Clone, Debug)]
enum Mac {
    /// one append of a fully generated leaf
    A(LeafSpec),
    /// one truncate; the selector picks which needed node the "lacking" view omits
    T(u32),
    /// k appends of ordinary leaves
    Grow(u8, u64),
    /// up to k truncates
    Shrink(u8, u32),
    /// append until the leaf count is the next power of two
    UpPow2(u64),
    /// truncate until the leaf count is a power of two (at least once)
    DownPow2(u32),
    /// oscillate append/truncate around the current size
    Osc(u8, u64, u32),
}

#[derive(Clone, Debug)]
struct SeqCase {
    ver: u8,
    branch: u32,
    h0: u64,
    n0: u16,
    init_seed: u64,
    macs: Vec<Mac>,
}

#[derive(Clone, Debug)]
enum Op {
    A(LeafSpec),
    T(u32),
}

/// Expands the macro ops into at most `max_ops` primitive ops (simulating the leaf count).
fn expand(c: &SeqCase, max_ops: usize) -> Vec<Op> {
    let mut ops: Vec<Op> = vec![];
    let mut n = c.n0.max(1) as usize;
    let mut ctr = 0u64;
    for m in &c.macs {
        let room = max_ops.saturating_sub(ops.len());
        if room == 0 {
            break;
        }
        let mut local: Vec<Op> = vec![];
        let mut app = |local: &mut Vec<Op>, n: &mut usize, seed: u64| {
            ctr += 1;
            local.push(Op::A(LeafSpec::small(seed, ctr)));
            *n += 1;
        };
        match m {
            Mac::A(s) => {
                local.push(Op::A(s.clone()));
                n += 1;
            }
            Mac::T(sel) => {
                local.push(Op::T(*sel));
                if n > 1 {
                    n -= 1;
                }
            }
            Mac::Grow(k, seed) => {
                for _ in 0..(*k as usize).min(room) {
                    app(&mut local, &mut n, *seed);
                }
            }
            Mac::Shrink(k, sel) => {
                for j in 0..(*k as usize).min(room) {
                    if n <= 1 {
                        break;
                    }
                    local.push(Op::T(sel.wrapping_add((j as u32).wrapping_mul(0x9e37_79b9))));
                    n -= 1;
                }
            }
            Mac::UpPow2(seed) => {
                let mut did = 0;
                while did < room && (did == 0 || !n.is_power_of_two()) {
                    app(&mut local, &mut n, *seed);
                    did += 1;
                }
            }
            Mac::DownPow2(sel) => {
                let mut did = 0;
                while did < room && n > 1 && (did == 0 || !n.is_power_of_two()) {
                    local.push(Op::T(sel.wrapping_add((did as u32).wrapping_mul(0x9e37_79b9))));
                    n -= 1;
                    did += 1;
                }
            }
            Mac::Osc(reps, seed, sel) => {
                for j in 0..*reps as u32 {
                    if local.len() + 4 > room {
                        break;
                    }
                    let s = sel.wrapping_add(j.wrapping_mul(0x9e37_79b9));
                    if n.is_power_of_two() && n > 1 {
                        local.push(Op::T(s));
                        n -= 1;
                        app(&mut local, &mut n, *seed);
                        app(&mut local, &mut n, *seed);
                        local.push(Op::T(!s));
                        n -= 1;
                    } else {
                        app(&mut local, &mut n, *seed);
                        local.push(Op::T(s));
                        n -= 1;
                    }
                }
            }
        }
        local.truncate(room);
        ops.extend(local);
    }
    ops
}

#[derive(Default)]
struct SeqStats {
    peak_counts: std::collections::BTreeSet<usize>,
    appends: u64,
    truncates: u64,
    cross_down: u64, // truncate from exactly 2^k leaves (k >= 1)
    cross_up: u64,   // append reaching exactly 2^k leaves
    single_truncate: u64,
    lacking: u64,
    lacking_err: u64,
    two_op: u64,
    max_n: usize,
    extreme_counter: bool,
    scratch_checks: u64,
}

/// One append step checked on the live tree, a fully loaded view and a peaks-only view.
fn step_append<G: Glue>(m: &mut Model, live: Option<&mut Tree<G>>, leaf: RData, scratch: bool, st: &mut SeqStats) -> Result<(), Fail> {
    let ver = G::VER;
    let n_before = m.n();
    let len_before = m.store.len();
    let root_before = m.root();
    let mut full = build_view::<G>(m, &m.non_peak_indices())?;
    let mut mini = build_view::<G>(m, &[])?;
    m.append(leaf.clone());
    let root_after = m.root();
    if scratch {
        assert_eq!(root_after, scratch_root(ver, &m.leaves), "harness: array model vs from-scratch root");
        st.scratch_checks += 1;
    }
    let expected: Vec<SNode> = m.store[len_before..].to_vec();
    // number of array nodes an append adds = 1 + number of trailing one bits of the old count
    assert_eq!(expected.len(), 1 + n_before.trailing_ones() as usize);
    if let Some(t) = live {
        do_append(t, &leaf, len_before, &expected, &root_after, n_before + 1, "long-lived tree")?;
    }
    for (t, name) in [(&mut full, "fully loaded view"), (&mut mini, "peaks-only view")] {
        do_append(t, &leaf, len_before, &expected, &root_after, n_before + 1, name)?;
        // append then truncate restores root and len; count = nodes the append added
        do_truncate(t, len_before + expected.len(), expected.len(), &root_before, n_before, &format!("{name}, truncate after append"))
            .map_err(|f| Fail::new(format!("append-truncate-restore/{}", f.signature), f.msg))?;
    }
    st.appends += 1;
    if (n_before + 1).is_power_of_two() && n_before + 1 >= 2 {
        st.cross_up += 1;
    }
    Ok(())
}

/// One truncate step (n >= 2) checked on the live tree, a fully loaded view, the minimal view, and
/// views lacking needed nodes. `lack_all` = try every needed node, else the one chosen by `sel`.
fn step_truncate<G: Glue>(m: &mut Model, live: Option<&mut Tree<G>>, sel: u32, lack_all: bool, scratch: bool, st: &mut SeqStats) -> Result<(), Fail> {
    let ver = G::VER;
    let n_before = m.n();
    let len_before = m.store.len();
    let root_before = m.root();
    let needs = m.truncate_needs();
    assert_eq!(needs.len(), 2 * m.peaks.last().unwrap().1 as usize);
    let mut full = build_view::<G>(m, &m.non_peak_indices())?;
    let mut mini = build_view::<G>(m, &needs)?;
    // views that lack a needed node: clean ExpectedInMemory, never a wrong result or a panic
    let mut lacking: Vec<(Tree<G>, Vec<u32>, String)> = vec![];
    if !needs.is_empty() {
        let which: Vec<usize> = if lack_all { (0..needs.len()).collect() } else { vec![vcore::pick_index(sel, needs.len())] };
        for w in which {
            let partial: Vec<u32> = needs.iter().copied().enumerate().filter(|(i, _)| *i != w).map(|(_, x)| x).collect();
            lacking.push((build_view::<G>(m, &partial)?, vec![needs[w]], format!("view lacking needed node {} at {n_before} leaves", needs[w])));
        }
        lacking.push((build_view::<G>(m, &[])?, needs.clone(), format!("peaks-only view at {n_before} leaves")));
    }
    // a view prepared for TWO truncates: peaks + the needs of both ops (the peaks of the
    // intermediate tree are among them or among the original peaks)
    let mut two_op = if n_before >= 3 && (sel & 1 == 1 || lack_all) {
        let mut ex = needs.clone();
        for i in m.needs_for(n_before - 1) {
            if !ex.contains(&i) && !m.peak_indices().contains(&i) {
                ex.push(i);
            }
        }
        let root2 = m.root_for(n_before - 2);
        Some((build_view::<G>(m, &ex)?, root2))
    } else {
        None
    };
    let (leaf, tail) = m.truncate();
    let root_after = m.root();
    if scratch {
        assert_eq!(root_after, scratch_root(ver, &m.leaves), "harness: array model vs from-scratch root");
        st.scratch_checks += 1;
    }
    if let Some((v, root2)) = two_op.as_mut() {
        let what = "view prepared for two truncates";
        do_truncate(v, len_before, tail.len(), &root_after, n_before - 1, what)?;
        let removed2 = ref_len(n_before - 1) - ref_len(n_before - 2);
        do_truncate(v, len_before - tail.len(), removed2, root2, n_before - 2, &format!("{what}, second op")).map_err(|f| Fail::new(format!("two-truncates/{}", f.signature), f.msg))?;
        st.two_op += 1;
    }
    let new_peaks = m.peak_indices();
    for (mut v, missing, what) in lacking {
        let errored = lacking_truncate(&mut v, &missing, len_before, tail.len(), &root_after, &what)?;
        // data of every new peak is inherently needed to bag >= 2 peaks into the new root
        if new_peaks.len() >= 2 && missing.iter().any(|i| new_peaks.contains(i)) && missing.len() == 1 {
            vensure!(errored, "truncate-missing-node-ok", "{what}: truncate_leaf succeeded without the data of new peak {:?}", missing);
        }
        st.lacking += 1;
        if errored {
            st.lacking_err += 1;
        }
    }
    let removed = tail.len();
    if let Some(t) = live {
        do_truncate(t, len_before, removed, &root_after, n_before - 1, "long-lived tree")?;
    }
    for (t, name) in [(&mut full, "fully loaded view"), (&mut mini, "minimal view (peaks + right-spine children)")] {
        do_truncate(t, len_before, removed, &root_after, n_before - 1, name)?;
        // truncate then re-append of the same leaf restores the previous root and array tail
        do_append(t, &leaf, len_before - removed, &tail, &root_before, n_before, &format!("{name}, re-append after truncate"))
            .map_err(|f| Fail::new(format!("truncate-append-restore/{}", f.signature), f.msg))?;
    }
    st.truncates += 1;
    if n_before.is_power_of_two() {
        st.cross_down += 1;
    }
    Ok(())
}

/// Truncating a one-leaf tree must be a clean error.
fn step_truncate_single<G: Glue>(m: &Model, st: &mut SeqStats) -> Result<(), Fail> {
    assert_eq!(m.n(), 1);
    let mut v = build_view::<G>(m, &[])?;
    expect_truncate_err(&mut v, "one-leaf tree")?;
    st.single_truncate += 1;
    Ok(())
}

fn initial_model(ver: u8, branch: u32, h0: u64, n0: usize, seed: u64) -> Model {
    let mut m = Model::new(ver);
    for i in 0..n0 {
        let spec = LeafSpec::small(seed, i as u64);
        let leaf = make_leaf(ver, branch, h0 + i as u64, &spec, &m.leaves);
        m.append(leaf);
    }
    m
}

fn run_sequence<G: Glue>(c: &SeqCase, max_ops: usize) -> CaseResult {
    let ver = G::VER;
    let ops = expand(c, max_ops);
    let mut st = SeqStats::default();
    let mut m = initial_model(ver, c.branch, c.h0, c.n0.max(1) as usize, c.init_seed);
    // the long-lived tree starts as a fully loaded view of the reference array
    let mut live = build_view::<G>(&m, &m.non_peak_indices())?;
    check_state(&live, &scratch_root(ver, &m.leaves), m.store.len(), m.n(), "Tree::new over the reference array")?;
    let mini = build_view::<G>(&m, &[])?;
    check_state(&mini, &m.root(), m.store.len(), m.n(), "Tree::new with peaks only")?;
    st.peak_counts.insert(m.peaks.len());
    st.max_n = m.n();
    let last = ops.len().saturating_sub(1);
    for (i, op) in ops.iter().enumerate() {
        let scratch = m.n() <= 64 || i % 8 == 0 || i == last;
        match op {
            Op::A(spec) => {
                let leaf = make_leaf(ver, c.branch, c.h0 + m.n() as u64, spec, &m.leaves);
                if leaf.sapling_tx > 0x0200_0000 || leaf.orchard_tx > 0x0200_0000 || leaf.ironwood_tx > 0x0200_0000 {
                    st.extreme_counter = true;
                }
                step_append::<G>(&mut m, Some(&mut live), leaf, scratch, &mut st)?;
            }
            Op::T(sel) => {
                if m.n() == 1 {
                    step_truncate_single::<G>(&m, &mut st)?;
                } else {
                    step_truncate::<G>(&mut m, Some(&mut live), *sel, false, scratch, &mut st)?;
                }
            }
        }
        st.peak_counts.insert(m.peaks.len());
        st.max_n = st.max_n.max(m.n());
    }
    let nontrivial = st.peak_counts.len() >= 3 && st.cross_down >= 1;
    Ok(Obs::new(nontrivial)
        .label(match ver {
            1 => "v1",
            2 => "v2",
            _ => "v3",
        })
        .label_if(nontrivial, "nontrivial")
        .label_if(st.cross_down >= 1, "truncate-crosses-pow2")
        .label_if(st.cross_up >= 1, "append-reaches-pow2")
        .label_if(st.extreme_counter, "counter-gt-max-compact-size")
        .label_if(st.single_truncate > 0, "truncate-one-leaf")
        .label_if(st.max_n >= 64, "reached-64-leaves")
        .label_if(st.max_n >= 128, "reached-128-leaves")
        .label_if(st.peak_counts.len() >= 5, "peak-counts-ge-5")
        .label_if(c.h0 > u32::MAX as u64 - 1000, "heights-beyond-u32")
        .count("ops", ops.len() as u64)
        .count("appends", st.appends)
        .count("truncates", st.truncates)
        .count("truncates-crossing-pow2", st.cross_down)
        .count("lacking-node-views", st.lacking)
        .count("lacking-node-clean-errors", st.lacking_err)
        .count("two-truncate-views", st.two_op)
        .count("from-scratch-root-recomputations", st.scratch_checks))
}

fn seq_oracle(c: &SeqCase, max_ops: usize) -> CaseResult {
    match c.ver {
        1 => run_sequence::<V1>(c, max_ops),
        2 => run_sequence::<V2>(c, max_ops),
        _ => run_sequence::<V3>(c, max_ops),
    }
}

// ---------------------------------------------------------------------------------------------
// Enumerated walk through every peak configuration (regression sub-check)
// ---------------------------------------------------------------------------------------------

const WALK_H0: [u64; 6] = [0, 1, 250, 0xffff - 7, u32::MAX as u64 - 5, (1u64 << 63) - 3];
const WALK_BRANCH: [u32; 3] = [0xf5b9_230b, 0xc2d6_d0b4, 0x37a5_165b];

/// For one (version, n): Tree::new over the reference array (full and peaks-only), one append and
/// one truncate with every lacking-node view.
fn walk_config<G: Glue>(n: usize) -> CaseResult {
    let ver = G::VER;
    let branch = WALK_BRANCH[ver as usize - 1];
    let h0 = WALK_H0[n % WALK_H0.len()];
    let mut st = SeqStats::default();
    let mut m = initial_model(ver, branch, h0, n, 0xC20 + n as u64);
    let sroot = scratch_root(ver, &m.leaves);
    assert_eq!(sroot, m.root(), "harness: array model vs from-scratch root");
    let full = build_view::<G>(&m, &m.non_peak_indices())?;
    check_state(&full, &sroot, m.store.len(), n, "Tree::new over the full reference array")?;
    let mini = build_view::<G>(&m, &[])?;
    check_state(&mini, &sroot, m.store.len(), n, "Tree::new with peaks only")?;
    // an extreme leaf appended to this configuration
    let spec = LeafSpec {
        seed: n as u64 * 7 + 1,
        work: [u64::MAX, u64::MAX, 1, 0],
        stx: [1u64 << 32, 0x0200_0001, u32::MAX as u64, 1u64 << 62][n % 4],
        otx: [253u64, 1u64 << 33, 252, 0x0200_0000][n % 4],
        itx: [0u64, 0xffff, 1u64 << 40, 0x1_0000][n % 4],
    };
    let leaf = make_leaf(ver, branch, h0 + n as u64, &spec, &m.leaves);
    let mut m2 = m.clone();
    step_append::<G>(&mut m2, None, leaf, true, &mut st)?;
    if n >= 2 {
        step_truncate::<G>(&mut m, None, 0, true, true, &mut st)?;
    } else {
        step_truncate_single::<G>(&m, &mut st)?;
    }
    Ok(Obs::new(true)
        .label_if(n.is_power_of_two(), "complete-tree")
        .label_if(n % 2 == 0, "even-leaf-count")
        .count("lacking-node-views", st.lacking)
        .count("lacking-node-clean-errors", st.lacking_err))
}

/// One long-lived tree grown by `append_leaf` from one leaf to `n_max` leaves and truncated back
/// to one, checked against the reference after every op (every peak configuration both ways).
fn there_and_back<G: Glue>(n_max: usize) -> CaseResult {
    let ver = G::VER;
    let branch = WALK_BRANCH[ver as usize - 1];
    let h0 = [250u64, u32::MAX as u64 - 100, 0][ver as usize - 1];
    let mut m = initial_model(ver, branch, h0, 1, 77);
    let mut live = build_view::<G>(&m, &[])?;
    check_state(&live, &m.root(), 1, 1, "one-leaf tree")?;
    for i in 1..n_max {
        let mut spec = LeafSpec::small(0x7ab, i as u64);
        if i == 5 {
            spec.stx = 1 << 63;
            spec.otx = (1 << 32) + 1;
            spec.itx = 0x0200_0001;
            spec.work = [0, 0, 0, 1 << 62];
        }
        let leaf = make_leaf(ver, branch, h0 + i as u64, &spec, &m.leaves);
        let len_before = m.store.len();
        m.append(leaf.clone());
        let root = if i % 16 == 0 || i < 40 { scratch_root(ver, &m.leaves) } else { m.root() };
        let expected = m.store[len_before..].to_vec();
        do_append(&mut live, &leaf, len_before, &expected, &root, i + 1, "long-lived tree (growing)")?;
    }
    while m.n() > 1 {
        let len_before = m.store.len();
        let (_, tail) = m.truncate();
        let root = if m.n() % 16 == 0 || m.n() < 40 { scratch_root(ver, &m.leaves) } else { m.root() };
        do_truncate(&mut live, len_before, tail.len(), &root, m.n(), "long-lived tree (shrinking)")?;
    }
    expect_truncate_err(&mut live, "long-lived tree shrunk to one leaf")?;
    Ok(Obs::new(true).label("there-and-back").count("ops", 2 * (n_max as u64 - 1)))
}

/// `Tree::new` documents a panic for empty peaks.
fn empty_peaks_panics<G: Glue>() -> CaseResult {
    match catch(|| Tree::<G>::new(0, vec![], vec![])) {
        Err(_) => Ok(Obs::new(true).label("documented-panic")),
        Ok(_) => vfail!("tree-new-empty-peaks", "Tree::new with empty peaks returned although a panic is documented"),
    }
}

// ---------------------------------------------------------------------------------------------
// Node (de)serialisation round trip and byte fuzzing
// ---------------------------------------------------------------------------------------------

#[derive(Clone, Debug)]
struct NodeCase {
    ver: u8,
    data: RData,
    kids: Option<(u32, u32)>,
    pad: Vec<u8>,
}

fn height_range_ok(d: &RData) -> bool {
    d.end_height >= d.start_height && d.end_height - d.start_height != u64::MAX
}

fn max_size(ver: u8) -> usize {
    // ZIP 221: 171 bytes before NU5, 244 from NU5; V3 adds 32+32+9
    match ver {
        1 => 171,
        2 => 244,
        _ => 317,
    }
}

fn node_roundtrip<G: Glue>(c: &NodeCase) -> CaseResult {
    let ver = G::VER;
    let d = project(ver, c.data.clone());
    let cd = G::to_crate(&d);
    let want = ref_serialize(ver, &d);
    let bytes = catch(|| G::to_bytes(&cd)).map_err(|p| Fail::new("serialize-panic", format!("to_bytes panicked on {d:?}: {p}")))?;
    vensure!(bytes == want, "serialization-mismatch", "to_bytes differs from the reference serialisation for {d:?}: got {} want {}", hex::encode(&bytes), hex::encode(&want));
    vensure!(bytes.len() <= max_size(ver) && bytes.len() <= MAX_NODE_DATA_SIZE, "serialization-size", "serialised length {} above the maximum for V{ver}", bytes.len());
    let mut w = vec![];
    match catch(|| G::write(&cd, &mut w)) {
        Ok(Ok(())) => vensure!(w == want, "serialization-mismatch", "Version::write differs from the reference serialisation for {d:?}"),
        Ok(Err(e)) => vfail!("write-error", "Version::write to a Vec failed for {d:?}: {e}"),
        Err(p) => vfail!("serialize-panic", "Version::write panicked on {d:?}: {p}"),
    }
    let h = catch(|| G::hash(&cd)).map_err(|p| Fail::new("serialize-panic", format!("hash panicked: {p}")))?;
    vensure!(h == ref_hash(d.branch, &want), "node-hash-mismatch", "Version::hash differs from BLAKE2b-256(\"ZcashHistory\"||branch) of the serialisation for {d:?}");
    // parse back (also from a buffer with trailing bytes, as fixed-size FFI buffers have)
    let mut padded = bytes.clone();
    padded.extend_from_slice(&c.pad);
    let valid = height_range_ok(&d);
    for (buf, name) in [(&bytes, "exact"), (&padded, "padded")] {
        match catch(|| G::from_bytes(d.branch, buf)) {
            Err(p) => vfail!("parse-panic", "from_bytes panicked on own serialisation ({name}) of {d:?}: {p}"),
            Ok(Ok(back)) => {
                vensure!(valid, "height-range-accepted", "from_bytes accepted a descending/unrepresentable height range {}..{}", d.start_height, d.end_height);
                let got = G::from_crate(&back);
                if got != d {
                    vfail!("roundtrip-mismatch", "write -> read ({name}) changed the record: {}", diff_fields(&got, &d));
                }
            }
            Ok(Err(e)) => {
                vensure!(!valid, "roundtrip-rejected", "from_bytes rejected its own serialisation ({name}) of {d:?}: {e}");
                vensure_eq!(e.kind(), std::io::ErrorKind::InvalidData, "height-range-error-kind", "error kind for an invalid height range (documented InvalidData)");
            }
        }
    }
    // every strict prefix is an error, not a panic (checked on a sample of cut points)
    for cut in [0usize, 1, 31, 32, 143, 144, bytes.len() - 1, bytes.len() / 2] {
        if cut >= bytes.len() {
            continue;
        }
        match catch(|| G::from_bytes(d.branch, &bytes[..cut])) {
            Err(p) => vfail!("parse-panic", "from_bytes panicked on a {cut}-byte prefix: {p}"),
            Ok(Ok(_)) => vfail!("prefix-accepted", "from_bytes accepted a strict {cut}-byte prefix of a {}-byte record", bytes.len()),
            Ok(Err(_)) => {}
        }
    }
    // Entry round trip
    let sn = SNode { data: d.clone(), kids: c.kids };
    let e = mk_entry::<G>(&sn);
    let mut eb = vec![];
    match catch(|| e.write(&mut eb)) {
        Ok(Ok(())) => {}
        Ok(Err(er)) => vfail!("entry-write-error", "Entry::write of a stored entry failed: {er}"),
        Err(p) => vfail!("serialize-panic", "Entry::write panicked: {p}"),
    }
    vensure!(eb == ref_entry_bytes(ver, &sn), "entry-serialization-mismatch", "Entry::write differs from the reference bytes for kids={:?} {d:?}", c.kids);
    vensure!(eb.len() <= MAX_ENTRY_SIZE, "serialization-size", "entry length {} > MAX_ENTRY_SIZE", eb.len());
    let mut ep = eb.clone();
    ep.extend_from_slice(&c.pad);
    match catch(|| Entry::<G>::from_bytes(d.branch, &ep)) {
        Err(p) => vfail!("parse-panic", "Entry::from_bytes panicked on own serialisation: {p}"),
        Ok(Ok(back)) => {
            vensure!(valid, "height-range-accepted", "Entry::from_bytes accepted an invalid height range {}..{}", d.start_height, d.end_height);
            let got = G::from_crate(back.data());
            if got != d {
                vfail!("roundtrip-mismatch", "Entry write -> read changed the record: {}", diff_fields(&got, &d));
            }
            let kids = match (back.leaf(), back.left(), back.right()) {
                (true, Err(_), Err(_)) => None,
                (false, Ok(EntryLink::Stored(l)), Ok(EntryLink::Stored(r))) => Some((l, r)),
                (lf, l, r) => vfail!("roundtrip-mismatch", "Entry write -> read: leaf()={lf} left={l:?} right={r:?}"),
            };
            vensure_eq!(kids, c.kids, "roundtrip-mismatch", "Entry write -> read changed the links");
            let lc = catch(|| back.leaf_count()).map_err(|p| Fail::new("leaf-count-panic", format!("leaf_count of a parsed entry panicked: {p}")))?;
            vensure_eq!(lc, d.end_height - d.start_height + 1, "leaf-count", "leaf_count of a parsed entry");
        }
        Ok(Err(er)) => vensure!(!valid, "roundtrip-rejected", "Entry::from_bytes rejected its own serialisation: {er}"),
    }
    // an entry with a generated link has no stored form: must not panic
    let ge = Entry::<G>::new(G::to_crate(&d), EntryLink::Generated(1), EntryLink::Stored(2));
    let mut gb = vec![];
    if let Err(p) = catch(|| ge.write(&mut gb)) {
        vfail!("serialize-panic", "Entry::write with a generated link panicked: {p}");
    }
    let counters = [d.sapling_tx, d.orchard_tx, d.ironwood_tx];
    let big = counters.iter().any(|c| *c > 0x0200_0000);
    let multi = big || d.start_height >= 253 || d.end_height >= 253 || counters.iter().any(|c| *c >= 253);
    Ok(Obs::new(multi)
        .label(match ver {
            1 => "v1",
            2 => "v2",
            _ => "v3",
        })
        .label_if(big, "counter-gt-max-compact-size")
        .label_if(counters.iter().any(|c| *c > u32::MAX as u64), "counter-9-byte")
        .label_if(!valid, "invalid-height-range")
        .label_if(c.kids.is_some(), "node-entry"))
}

#[derive(Clone, Debug)]
enum Mutn {
    Set(u32, u8),
    Cut(u32),
    Push(u8),
}

#[derive(Clone, Debug)]
enum FuzzIn {
    Raw(Vec<u8>),
    Mutated { data: RData, widen: Option<(u8, u8)>, muts: Vec<Mutn> },
}

#[derive(Clone, Debug)]
struct FuzzCase {
    ver: u8,
    branch: u32,
    prefix: Vec<u8>,
    input: FuzzIn,
}

fn fuzz_bytes<G: Glue>(c: &FuzzCase) -> CaseResult {
    let ver = G::VER;
    let mut widened = false;
    let bytes: Vec<u8> = match &c.input {
        FuzzIn::Raw(b) => b.clone(),
        FuzzIn::Mutated { data, widen, muts } => {
            let d = project(ver, data.clone());
            let w = widen.map(|(k, f)| (k as usize % n_compact_fields(ver), f));
            let mut b = ref_serialize_with(ver, &d, w);
            widened = b != ref_serialize(ver, &d);
            for m in muts {
                match m {
                    Mutn::Set(p, v) => {
                        if !b.is_empty() {
                            let i = vcore::pick_index(*p, b.len());
                            b[i] = *v;
                        }
                    }
                    Mutn::Cut(p) => {
                        let l = vcore::pick_index(*p, b.len() + 1);
                        b.truncate(l);
                    }
                    Mutn::Push(v) => b.push(*v),
                }
            }
            b
        }
    };
    // --- node data level
    let mut rd = Rd { b: &bytes, pos: 0 };
    let want = ref_parse_data(ver, c.branch, &mut rd);
    let consumed = rd.pos;
    let got = catch(|| G::from_bytes(c.branch, &bytes)).map_err(|p| Fail::new("parse-panic", format!("from_bytes panicked on {}: {p}", hex::encode(&bytes))))?;
    let mut kind_invalid_input = false;
    match (&got, &want) {
        (Ok(g), Ok(w)) => {
            let g2 = G::from_crate(g);
            if g2 != *w {
                vfail!("parse-mismatch", "from_bytes parsed different fields than the reference parser: {} (input {})", diff_fields(&g2, w), hex::encode(&bytes));
            }
            let re = catch(|| G::to_bytes(g)).map_err(|p| Fail::new("serialize-panic", format!("to_bytes of a parsed record panicked: {p}")))?;
            vensure!(re[..] == bytes[..consumed], "reserialize-not-fixed-point", "accepted input does not re-serialise to itself: input {} reserialised {}", hex::encode(&bytes[..consumed]), hex::encode(&re));
            match catch(|| G::from_bytes(c.branch, &re)) {
                Ok(Ok(g3)) => vensure!(G::from_crate(&g3) == *w, "reserialize-not-fixed-point", "re-parse of the re-serialisation differs"),
                other => vfail!("reserialize-not-fixed-point", "re-parse of the re-serialisation failed: {:?}", other.map(|r| r.map(|_| ()))),
            }
        }
        (Err(e), Err(_)) => {
            kind_invalid_input = e.kind() == std::io::ErrorKind::InvalidInput;
        }
        (Ok(g), Err(r)) => {
            let sig = match r {
                Rej::NonCanonical => "noncanonical-compactsize-accepted",
                Rej::HeightRange => "height-range-accepted",
                _ => "short-input-accepted",
            };
            vfail!(sig, "from_bytes accepted input the reference rejects ({r:?}): {} -> {:?}", hex::encode(&bytes), G::from_crate(g));
        }
        (Err(e), Ok(w)) => vfail!("valid-record-rejected", "from_bytes rejected a well-formed record ({e}): {} = {w:?}", hex::encode(&bytes)),
    }
    // --- entry level: kind prefix + the same bytes
    let mut eb = c.prefix.clone();
    eb.extend_from_slice(&bytes);
    let ewant: Result<(Option<(u32, u32)>, RData), Rej> = (|| {
        let mut r = Rd { b: &eb, pos: 0 };
        let kids = match r.take(1)?[0] {
            0 => Some((r.u32()?, r.u32()?)),
            1 => None,
            _ => return Err(Rej::BadKind),
        };
        Ok((kids, ref_parse_data(ver, c.branch, &mut r)?))
    })();
    let egot = catch(|| Entry::<G>::from_bytes(c.branch, &eb)).map_err(|p| Fail::new("parse-panic", format!("Entry::from_bytes panicked on {}: {p}", hex::encode(&eb))))?;
    match (&egot, &ewant) {
        (Ok(g), Ok((kids, w))) => {
            let g2 = G::from_crate(g.data());
            if g2 != *w {
                vfail!("parse-mismatch", "Entry::from_bytes parsed different fields: {}", diff_fields(&g2, w));
            }
            let gk = match (g.leaf(), g.left(), g.right()) {
                (true, Err(_), Err(_)) => None,
                (false, Ok(EntryLink::Stored(l)), Ok(EntryLink::Stored(r))) => Some((l, r)),
                (lf, l, r) => vfail!("parse-mismatch", "Entry::from_bytes: leaf()={lf} left={l:?} right={r:?}"),
            };
            vensure_eq!(gk, *kids, "parse-mismatch", "Entry::from_bytes links");
            let mut re = vec![];
            match catch(|| g.write(&mut re)) {
                Ok(Ok(())) => vensure!(eb.starts_with(&re), "reserialize-not-fixed-point", "accepted entry does not re-serialise to its input prefix"),
                other => vfail!("reserialize-not-fixed-point", "Entry::write of a parsed entry failed: {other:?}"),
            }
            // leaf_count is documented not to panic on entries produced by read
            if let Err(p) = catch(|| g.leaf_count()) {
                vfail!("leaf-count-panic", "leaf_count panicked on an entry produced by Entry::read: {p}");
            }
        }
        (Err(_), Err(_)) => {}
        (Ok(_), Err(r)) => vfail!("entry-accepted", "Entry::from_bytes accepted input the reference rejects ({r:?}): {}", hex::encode(&eb)),
        (Err(e), Ok(_)) => vfail!("valid-record-rejected", "Entry::from_bytes rejected a well-formed entry ({e}): {}", hex::encode(&eb)),
    }
    let accepted = want.is_ok();
    let rej = want.as_ref().err().copied();
    Ok(Obs::new(accepted || matches!(rej, Some(Rej::NonCanonical) | Some(Rej::HeightRange)))
        .key(hash64(&[&[ver][..], &eb[..]].concat()))
        .label_if(accepted, "accepted")
        .label_if(rej == Some(Rej::Eof), "rejected-short")
        .label_if(rej == Some(Rej::NonCanonical), "rejected-noncanonical")
        .label_if(rej == Some(Rej::HeightRange), "rejected-height-range")
        .label_if(widened, "widened-compactsize")
        .label_if(kind_invalid_input, "reject-kind-InvalidInput")
        .label_if(ewant.is_ok(), "entry-accepted")
        .label_if(matches!(ewant, Err(Rej::BadKind)), "entry-bad-kind"))
}

// ---------------------------------------------------------------------------------------------
// CompactSize::{read_unbounded, write_unbounded} (local zcash_encoding 0.5, as linked by zcash_history)
// ---------------------------------------------------------------------------------------------

fn compact_lattice() -> Vec<u64> {
    let mut v = vec![0u64, 1, 2, 251, 252, 253, 254, 255, 256, 0xfffe, 0xffff, 0x1_0000, 0x1_0001];
    for b in [0x0200_0000u64, 0xffff_ffff, 0x1_0000_0000, 1 << 62, 1 << 63] {
        for d in 0..3 {
            v.push(b - d);
            v.push(b + d);
        }
    }
    for s in 0..64 {
        v.push(1u64 << s);
        v.push((1u64 << s) - 1);
    }
    v.push(u64::MAX);
    v.push(u64::MAX - 1);
    v.sort();
    v.dedup();
    v
}

fn compact_check(v: u64) -> CaseResult {
    let mut want = vec![];
    ref_compact(v, &mut want);
    let mut got = vec![];
    match catch(|| CompactSize::write_unbounded(&mut got, v)) {
        Ok(Ok(())) => {}
        Ok(Err(e)) => vfail!("compactsize-write-error", "write_unbounded({v}) failed: {e}"),
        Err(p) => vfail!("compactsize-panic", "write_unbounded({v}) panicked: {p}"),
    }
    vensure!(got == want, "compactsize-encoding", "write_unbounded({v}) = {} want {}", hex::encode(&got), hex::encode(&want));
    match catch(|| CompactSize::read_unbounded(&got[..])) {
        Ok(Ok(b)) => vensure_eq!(b, v, "compactsize-roundtrip", "read_unbounded(write_unbounded(v))"),
        Ok(Err(e)) => vfail!("compactsize-roundtrip", "read_unbounded rejected the encoding of {v}: {e}"),
        Err(p) => vfail!("compactsize-panic", "read_unbounded panicked: {p}"),
    }
    // every wider-than-canonical form of v is rejected; every strict prefix is an error
    for form in (canonical_form(v) + 1)..=3 {
        let mut nc = vec![];
        assert!(compact_with_form(v, form, &mut nc));
        match catch(|| CompactSize::read_unbounded(&nc[..])) {
            Ok(Err(_)) => {}
            Ok(Ok(b)) => vfail!("compactsize-noncanonical-accepted", "read_unbounded accepted non-canonical {} as {b}", hex::encode(&nc)),
            Err(p) => vfail!("compactsize-panic", "read_unbounded panicked on {}: {p}", hex::encode(&nc)),
        }
    }
    for cut in 0..got.len() {
        match catch(|| CompactSize::read_unbounded(&got[..cut])) {
            Ok(Err(_)) => {}
            Ok(Ok(b)) => vfail!("compactsize-short-accepted", "read_unbounded accepted a {cut}-byte prefix of {} as {b}", hex::encode(&got)),
            Err(p) => vfail!("compactsize-panic", "read_unbounded panicked on a short input: {p}"),
        }
    }
    Ok(Obs::new(v >= 253).key(hash64(&v.to_le_bytes())).label_if(v > 0x0200_0000, "gt-max-compact-size"))
}

// ---------------------------------------------------------------------------------------------
// Strategies
// ---------------------------------------------------------------------------------------------

fn arb_counter() -> impl Strategy<Value = u64> {
    prop_oneof![
        4 => 0u64..=300,
        3 => proptest::sample::select(vec![
            0u64, 1, 252, 253, 254, 0xffff, 0x1_0000, 0x01ff_ffff, 0x0200_0000, 0x0200_0001, 0xffff_ffff, 0x1_0000_0000,
            0x1_0000_0001, 1 << 62, 1 << 63, (1 << 63) + 1, u64::MAX - 1, u64::MAX,
        ]),
        1 => 0xff00u64..=0x1_0100,
        1 => 0xffff_ff00u64..=0x1_0000_0100,
        1 => 0x01ff_ff00u64..=0x0200_0100,
        1 => any::<u64>(),
        1 => (0u32..64).prop_map(|s| 1u64 << s),
    ]
}

fn arb_work() -> impl Strategy<Value = [u64; 4]> {
    prop_oneof![
        4 => (0u64..(1 << 40)).prop_map(|x| [x, 0, 0, 0]),
        2 => any::<u64>().prop_map(|x| [x, 0, 0, 0]),
        1 => any::<[u64; 4]>(),
        1 => (0u32..256).prop_map(|s| {
            let mut l = [0u64; 4];
            l[(s / 64) as usize] = 1u64 << (s % 64);
            l
        }),
        1 => (0u64..1000).prop_map(|d| [u64::MAX - d, u64::MAX, u64::MAX, u64::MAX]),
        1 => Just([u64::MAX, u64::MAX, 0, 0]),
    ]
}

fn arb_leaf_spec() -> impl Strategy<Value = LeafSpec> {
    (any::<u64>(), arb_work(), arb_counter(), arb_counter(), arb_counter()).prop_map(|(seed, work, stx, otx, itx)| LeafSpec { seed, work, stx, otx, itx })
}

fn arb_branch(ver: u8) -> BoxedStrategy<u32> {
    let used: Vec<u32> = match ver {
        1 => vec![0xf5b9_230b, 0xe9ff_75a6],
        2 => vec![0xc2d6_d0b4, 0xc8e7_1055, 0x4dec_4df0, 0x5437_f330],
        _ => vec![0x37a5_165b, 0xffff_ffff],
    };
    prop_oneof![
        4 => proptest::sample::select(used),
        1 => proptest::sample::select(vec![0u32, 1, u32::MAX, 0x0100_0000]),
        1 => any::<u32>(),
    ]
    .boxed()
}

fn arb_h0() -> impl Strategy<Value = u64> {
    prop_oneof![
        4 => proptest::sample::select(vec![
            0u64, 1, 2, 250, 0xffff - 3, u32::MAX as u64 - 5, u32::MAX as u64 - 1, u32::MAX as u64, 1 << 32, (1 << 63) - 2, u64::MAX - 2000,
        ]),
        2 => 0u64..3_000_000,
        1 => (0u64..700).prop_map(|d| u32::MAX as u64 - d),
        1 => (0u64..700).prop_map(|d| 253u64.saturating_sub(d % 253)),
        1 => 0u64..=(u64::MAX - 2000),
    ]
}

fn arb_mac() -> impl Strategy<Value = Mac> {
    prop_oneof![
        4 => arb_leaf_spec().prop_map(Mac::A),
        4 => any::<u32>().prop_map(Mac::T),
        3 => (1u8..=40, any::<u64>()).prop_map(|(k, s)| Mac::Grow(k, s)),
        2 => (1u8..=40, any::<u32>()).prop_map(|(k, s)| Mac::Shrink(k, s)),
        3 => any::<u64>().prop_map(Mac::UpPow2),
        3 => any::<u32>().prop_map(Mac::DownPow2),
        3 => (1u8..=6, any::<u64>(), any::<u32>()).prop_map(|(r, s, t)| Mac::Osc(r, s, t)),
    ]
}

fn arb_seq(max_n0: u16, max_macs: usize) -> impl Strategy<Value = SeqCase> {
    let n0 = prop_oneof![
        3 => 1u16..=3,
        2 => 1u16..=max_n0,
        3 => proptest::sample::select(vec![2u16, 3, 4, 5, 7, 8, 9, 15, 16, 17, 31, 32, 33, 63, 64, 65, 127, 128, 129]),
    ];
    (1u8..=3).prop_flat_map(move |ver| {
        (Just(ver), arb_branch(ver), arb_h0(), n0.clone(), any::<u64>(), proptest::collection::vec(arb_mac(), 1..=max_macs))
            .prop_map(|(ver, branch, h0, n0, init_seed, macs)| SeqCase { ver, branch, h0, n0, init_seed, macs })
    })
}

fn arb_rdata() -> impl Strategy<Value = RData> {
    let u32x = || prop_oneof![2 => any::<u32>(), 1 => proptest::sample::select(vec![0u32, 1, u32::MAX])];
    let heights = prop_oneof![
        3 => (arb_counter(), 0u64..4).prop_map(|(s, d)| (s, s.saturating_add(d))),
        2 => (arb_counter(), arb_counter()).prop_map(|(a, b)| (a.min(b), a.max(b))),
        1 => (arb_counter(), arb_counter()),
        1 => proptest::sample::select(vec![(0u64, u64::MAX), (1u64, u64::MAX), (u64::MAX, u64::MAX), (200u64, 5u64), (0u64, u64::MAX - 1)]),
    ];
    (
        any::<u32>(),
        any::<u64>(),
        (u32x(), u32x(), u32x(), u32x()),
        arb_work(),
        heights,
        (arb_counter(), arb_counter(), arb_counter()),
    )
        .prop_map(|(branch, seed, (t0, t1, g0, g1), work, (sh, eh), (stx, otx, itx))| RData {
            branch,
            commitment: derive32(seed, 0),
            start_time: t0,
            end_time: t1,
            start_target: g0,
            end_target: g1,
            start_sapling: derive32(seed, 1),
            end_sapling: derive32(seed, 2),
            work: W256(work),
            start_height: sh,
            end_height: eh,
            sapling_tx: stx,
            start_orchard: derive32(seed, 3),
            end_orchard: derive32(seed, 4),
            orchard_tx: otx,
            start_ironwood: derive32(seed, 5),
            end_ironwood: derive32(seed, 6),
            ironwood_tx: itx,
        })
}

fn arb_node_case() -> impl Strategy<Value = NodeCase> {
    (
        1u8..=3,
        arb_rdata(),
        proptest::option::of((any::<u32>(), any::<u32>())),
        prop_oneof![Just(vec![]), proptest::collection::vec(any::<u8>(), 1..12), Just(vec![0u8; 40]), Just(vec![0xffu8; 9])],
    )
        .prop_map(|(ver, data, kids, pad)| NodeCase { ver, data, kids, pad })
}

fn arb_fuzz_case() -> impl Strategy<Value = FuzzCase> {
    let mutn = prop_oneof![
        5 => (any::<u32>(), prop_oneof![any::<u8>(), proptest::sample::select(vec![0u8, 252, 253, 254, 255])]).prop_map(|(p, v)| Mutn::Set(p, v)),
        1 => any::<u32>().prop_map(Mutn::Cut),
        1 => any::<u8>().prop_map(Mutn::Push),
    ];
    let input = prop_oneof![
        2 => proptest::collection::vec(any::<u8>(), 0..=340).prop_map(FuzzIn::Raw),
        1 => proptest::collection::vec(prop_oneof![3 => 0u8..=252, 1 => 253u8..=255], 140..=340).prop_map(FuzzIn::Raw),
        3 => (arb_rdata(), proptest::option::weighted(0.5, (0u8..5, 1u8..=3)), proptest::collection::vec(mutn, 0..4))
            .prop_map(|(data, widen, muts)| FuzzIn::Mutated { data, widen, muts }),
    ];
    let prefix = prop_oneof![
        3 => Just(vec![1u8]),
        3 => (any::<u32>(), any::<u32>()).prop_map(|(l, r)| {
            let mut v = vec![0u8];
            v.extend_from_slice(&l.to_le_bytes());
            v.extend_from_slice(&r.to_le_bytes());
            v
        }),
        1 => (2u8..=255).prop_map(|b| vec![b]),
        1 => Just(vec![]),
        1 => Just(vec![0u8, 1, 2]),
    ];
    (1u8..=3, any::<u32>(), prefix, input).prop_map(|(ver, branch, prefix, input)| FuzzCase { ver, branch, prefix, input })
}

fn main() {
    let ctx = Ctx::from_args("C20", "exploration");
    ctx.set_rule(
        "Cases: (a) exhaustive walk: every leaf count 1..=N x V1/V2/V3 (Tree::new over the reference array, one extreme append, \
         one truncate with EVERY lacking-node view) plus one long-lived tree per version grown 1->M->1; (b) random op sequences \
         (macro ops: single append of a generated leaf with extreme counters/work, single truncate, grow/shrink runs, \
         go-to-next/previous power of two, oscillation) over V1/V2/V3, branch ids, start heights crossing CompactSize boundaries; \
         after EVERY op the long-lived tree, a fully loaded view and a minimal view are compared with the reference array and \
         the from-scratch MMR root; (c) node/entry write->read with reference serialiser; (d) byte fuzz vs reference parser; \
         (e) CompactSize unbounded codec. Sequence non-trivial = >= 3 distinct peak counts and >= 1 truncate from exactly 2^k leaves; \
         distinct = hash of the generated case.",
    );
    ctx.assume("leaves of one tree share a branch id and have consecutive heights with start_height == end_height (leaf_count is derived from heights)");
    ctx.assume("sum of work < 2^256 and sum of each tx counter < 2^64 over the live leaf set (combine_inner adds with plain +; real chains satisfy this)");
    ctx.assume("Tree::new with empty peaks panics by documentation; truncating a one-leaf tree must return Err");
    ctx.assume("the array representation is the ZIP 221 append order (leaf, then each completed parent); append_leaf returns its new nodes in that order");
    ctx.assume("BLAKE2b (blake2b_simd) is shared with the code under test as a primitive");
    let tier = ctx.tier;

    // (a) exhaustive walk + regression cases
    let n_walk: u64 = tier.pick(160, 700);
    let m_back: usize = tier.pick(300, 1100);
    let total = 3 * n_walk + 3 + 3;
    ctx.run_enum(
        "walk-configurations",
        total,
        true,
        move |i| {
            if i < 3 * n_walk {
                let n = (i / 3 + 1) as usize;
                match i % 3 {
                    0 => walk_config::<V1>(n),
                    1 => walk_config::<V2>(n),
                    _ => walk_config::<V3>(n),
                }
            } else if i < 3 * n_walk + 3 {
                match i - 3 * n_walk {
                    0 => there_and_back::<V1>(m_back),
                    1 => there_and_back::<V2>(m_back),
                    _ => there_and_back::<V3>(m_back),
                }
            } else {
                match i - 3 * n_walk - 3 {
                    0 => empty_peaks_panics::<V1>(),
                    1 => empty_peaks_panics::<V2>(),
                    _ => empty_peaks_panics::<V3>(),
                }
            }
        },
        move |i| {
            if i < 3 * n_walk {
                format!("walk V{} n={}", i % 3 + 1, i / 3 + 1)
            } else if i < 3 * n_walk + 3 {
                format!("there-and-back V{} up to {} leaves", i - 3 * n_walk + 1, m_back)
            } else {
                format!("Tree::new with empty peaks, V{}", i - 3 * n_walk - 2)
            }
        },
    );

    // (e) CompactSize
    let lat = compact_lattice();
    {
        let l1 = lat.clone();
        let l2 = lat.clone();
        ctx.run_enum("compactsize-lattice", lat.len() as u64, true, move |i| compact_check(l1[i as usize]), move |i| format!("value {}", l2[i as usize]));
    }
    ctx.run_prop("compactsize-random", arb_counter, tier.pick(200_000, 5_000_000), |v| compact_check(*v));

    // (c) node / entry round trip
    ctx.run_prop("node-roundtrip", arb_node_case, tier.pick(2_000_000, 20_000_000), |c| match c.ver {
        1 => node_roundtrip::<V1>(c),
        2 => node_roundtrip::<V2>(c),
        _ => node_roundtrip::<V3>(c),
    });
    ctx.require_label_fraction("node-roundtrip", "counter-gt-max-compact-size", 0.2);
    ctx.require_label_fraction("node-roundtrip", "v3", 0.2);

    // (d) byte fuzz
    ctx.run_prop("node-bytes-fuzz", arb_fuzz_case, tier.pick(4_000_000, 40_000_000), |c| match c.ver {
        1 => fuzz_bytes::<V1>(c),
        2 => fuzz_bytes::<V2>(c),
        _ => fuzz_bytes::<V3>(c),
    });
    ctx.require_label_fraction("node-bytes-fuzz", "accepted", 0.1);
    ctx.require_label_fraction("node-bytes-fuzz", "rejected-noncanonical", 0.05);
    ctx.require_label_fraction("node-bytes-fuzz", "rejected-height-range", 0.02);

    // (b) op sequences
    let max_ops: usize = tier.pick(120, 600);
    let max_n0: u16 = tier.pick(130, 400);
    let max_macs: usize = tier.pick(24, 80);
    ctx.run_prop_with("op-sequences", move || arb_seq(max_n0, max_macs), tier.pick(40_000, 100_000), 600, move |c| seq_oracle(c, max_ops));
    ctx.require_label_fraction("op-sequences", "nontrivial", 0.3);
    ctx.require_label_fraction("op-sequences", "v1", 0.2);
    ctx.require_label_fraction("op-sequences", "v2", 0.2);
    ctx.require_label_fraction("op-sequences", "v3", 0.2);
    ctx.require_label_fraction("op-sequences", "counter-gt-max-compact-size", 0.2);
    // coverage-guided byte-level campaign (libFuzzer target `history_node`, oracle inside the target)
    ctx.run_fuzz("history_node", ctx.tier.pick(500_000, 10_000_000), ctx.tier.pick(4, 16), 1024);
    ctx.finish();
}

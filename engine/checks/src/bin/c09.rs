//! C09 — Monetary amounts never leave the valid range or wrap.
//!
//! Oracle: exact integer arithmetic in i128. Domain: the boundary lattice (exhaustive, all pairs
//! per operator) plus seeded random values, multipliers, divisors and 8-byte encodings.

use std::num::NonZeroU64;

use proptest::prelude::*;
use vcore::{catch, vensure, vensure_eq, vfail, CaseResult, Ctx, Fail, Obs};
use zcash_protocol::value::{BalanceError, ZatBalance, Zatoshis, MAX_BALANCE, MAX_MONEY};

const M: i128 = MAX_MONEY as i128;

/// Raw integer lattice (as i128 so that both i64 and u64 extremes are representable).
fn lattice() -> Vec<i128> {
    let mut v: Vec<i128> = vec![
        0,
        1,
        -1,
        2,
        -2,
        M - 2,
        M - 1,
        M,
        M + 1,
        M + 2,
        -(M - 2),
        -(M - 1),
        -M,
        -(M + 1),
        -(M + 2),
        2 * M,
        2 * M - 1,
        2 * M + 1,
        -2 * M,
        -2 * M - 1,
        -2 * M + 1,
        M / 2,
        M / 2 + 1,
        -(M / 2),
        -(M / 2) - 1,
        5000,
        4999,
        5001,
        i64::MIN as i128,
        i64::MIN as i128 + 1,
        i64::MAX as i128,
        i64::MAX as i128 - 1,
        (1i128 << 63),
        (1i128 << 63) + 1,
        u64::MAX as i128,
        u64::MAX as i128 - 1,
        (1i128 << 32),
        (1i128 << 32) - 1,
        -(1i128 << 32),
        (1i128 << 53),
    ];
    v.sort();
    v.dedup();
    v
}

fn in_bal(x: i128) -> bool {
    (-M..=M).contains(&x)
}
fn in_zat(x: i128) -> bool {
    (0..=M).contains(&x)
}

fn bal(x: i128) -> ZatBalance {
    ZatBalance::from_i64(x as i64).expect("in range")
}
fn zat(x: i128) -> Zatoshis {
    Zatoshis::from_u64(x as u64).expect("in range")
}
fn bal_i(b: ZatBalance) -> i128 {
    i64::from(b) as i128
}
fn zat_i(z: Zatoshis) -> i128 {
    z.into_u64() as i128
}

fn near_boundary(x: i128) -> bool {
    (x - M).abs() <= 2 || (x + M).abs() <= 2 || x.abs() <= 2
}

fn check_opt_bal(sig: &'static str, got: Option<ZatBalance>, exact: i128, what: &str) -> Result<(), Fail> {
    match got {
        Some(v) => {
            vensure!(in_bal(exact), sig, "{what}: returned Some({v:?}) but exact result {exact} is out of range");
            vensure_eq!(bal_i(v), exact, sig, "{what}: wrong value");
        }
        None => vensure!(!in_bal(exact), sig, "{what}: returned None but exact result {exact} is in range"),
    }
    Ok(())
}

fn check_opt_zat(sig: &'static str, got: Option<Zatoshis>, exact: i128, what: &str) -> Result<(), Fail> {
    match got {
        Some(v) => {
            vensure!(in_zat(exact), sig, "{what}: returned Some({v:?}) but exact result {exact} is out of range");
            vensure_eq!(zat_i(v), exact, sig, "{what}: wrong value");
        }
        None => vensure!(!in_zat(exact), sig, "{what}: returned None but exact result {exact} is in range"),
    }
    Ok(())
}

/// All constructors / parsers on one raw integer.
fn check_constructors(x: i128) -> CaseResult {
    let mut nontrivial = near_boundary(x);
    // i64 domain
    if let Ok(xi) = i64::try_from(x) {
        let r = catch(|| ZatBalance::from_i64(xi)).map_err(|p| Fail::new("ctor-panic", format!("ZatBalance::from_i64({xi}) panicked: {p}")))?;
        match r {
            Ok(v) => {
                vensure!(in_bal(x), "balance-from-i64-range", "from_i64({xi}) accepted out-of-range");
                vensure_eq!(bal_i(v), x, "balance-from-i64-value", "from_i64({xi})");
                // encodings round trip
                vensure_eq!(ZatBalance::from_i64_le_bytes(v.to_i64_le_bytes()), Ok(v), "balance-bytes-roundtrip", "to_i64_le_bytes/from_i64_le_bytes");
                vensure_eq!(v.to_i64_le_bytes(), xi.to_le_bytes(), "balance-bytes-value", "to_i64_le_bytes");
                vensure_eq!(i64::from(v), xi, "balance-into-i64", "From<ZatBalance> for i64");
                vensure_eq!(i64::from(&v), xi, "balance-into-i64", "From<&ZatBalance> for i64");
                vensure_eq!(v.is_positive(), x > 0, "balance-sign", "is_positive");
                vensure_eq!(v.is_negative(), x < 0, "balance-sign", "is_negative");
                // TryFrom<ZatBalance> for u64 / Zatoshis
                match u64::try_from(v) {
                    Ok(u) => {
                        vensure!(x >= 0, "balance-to-u64", "u64::try_from({v:?}) accepted negative");
                        vensure_eq!(u as i128, x, "balance-to-u64", "u64::try_from value");
                    }
                    Err(e) => {
                        vensure!(x < 0, "balance-to-u64", "u64::try_from({v:?}) rejected non-negative");
                        vensure_eq!(e, BalanceError::Underflow, "balance-to-u64-variant", "error variant");
                    }
                }
                match Zatoshis::try_from(v) {
                    Ok(z) => {
                        vensure!(x >= 0, "balance-to-zat", "Zatoshis::try_from({v:?}) accepted negative");
                        vensure_eq!(zat_i(z), x, "balance-to-zat", "Zatoshis::try_from value");
                    }
                    Err(e) => {
                        vensure!(x < 0, "balance-to-zat", "Zatoshis::try_from({v:?}) rejected non-negative");
                        vensure_eq!(e, BalanceError::Underflow, "balance-to-zat-variant", "error variant");
                    }
                }
                // Neg
                let n = catch(|| -v).map_err(|p| Fail::new("neg-panic", format!("-{v:?} panicked: {p}")))?;
                vensure_eq!(bal_i(n), -x, "balance-neg", "Neg for ZatBalance");
                vensure!(in_bal(bal_i(n)), "balance-neg", "Neg left the range");
            }
            Err(e) => {
                vensure!(!in_bal(x), "balance-from-i64-range", "from_i64({xi}) rejected in-range value");
                let want = if x < -M { BalanceError::Underflow } else { BalanceError::Overflow };
                vensure_eq!(e, want, "balance-from-i64-variant", "from_i64({xi}) error variant");
            }
        }
        vensure_eq!(ZatBalance::try_from(xi), r, "balance-tryfrom", "TryFrom<i64> vs from_i64");
        vensure_eq!(ZatBalance::from_i64_le_bytes(xi.to_le_bytes()), r, "balance-from-bytes", "from_i64_le_bytes vs from_i64");

        let r = ZatBalance::from_nonnegative_i64(xi);
        match r {
            Ok(v) => {
                vensure!(in_zat(x), "balance-from-nn-i64-range", "from_nonnegative_i64({xi}) accepted");
                vensure_eq!(bal_i(v), x, "balance-from-nn-i64-value", "value");
            }
            Err(e) => {
                vensure!(!in_zat(x), "balance-from-nn-i64-range", "from_nonnegative_i64({xi}) rejected in-range");
                let want = if x < 0 { BalanceError::Underflow } else { BalanceError::Overflow };
                vensure_eq!(e, want, "balance-from-nn-i64-variant", "variant");
            }
        }
        vensure_eq!(ZatBalance::from_nonnegative_i64_le_bytes(xi.to_le_bytes()), r, "balance-from-nn-bytes", "from_nonnegative_i64_le_bytes");

        let r = Zatoshis::from_nonnegative_i64(xi);
        match r {
            Ok(v) => {
                vensure!(in_zat(x), "zat-from-nn-i64-range", "Zatoshis::from_nonnegative_i64({xi}) accepted");
                vensure_eq!(zat_i(v), x, "zat-from-nn-i64-value", "value");
            }
            Err(e) => {
                vensure!(!in_zat(x), "zat-from-nn-i64-range", "Zatoshis::from_nonnegative_i64({xi}) rejected in-range");
                let want = if x < 0 { BalanceError::Underflow } else { BalanceError::Overflow };
                vensure_eq!(e, want, "zat-from-nn-i64-variant", "variant");
            }
        }
        vensure_eq!(Zatoshis::from_nonnegative_i64_le_bytes(xi.to_le_bytes()), r, "zat-from-nn-bytes", "Zatoshis::from_nonnegative_i64_le_bytes");

        // const_from_i64: documented to panic outside the range.
        let c = catch(|| ZatBalance::const_from_i64(xi));
        match c {
            Ok(v) => {
                vensure!(in_bal(x), "const-from-i64", "const_from_i64({xi}) returned out of range value");
                vensure_eq!(bal_i(v), x, "const-from-i64", "value");
            }
            Err(_) => vensure!(!in_bal(x), "const-from-i64", "const_from_i64({xi}) panicked in range"),
        }
    }
    // u64 domain
    if let Ok(xu) = u64::try_from(x) {
        let r = ZatBalance::from_u64(xu);
        match r {
            Ok(v) => {
                vensure!(in_zat(x), "balance-from-u64-range", "ZatBalance::from_u64({xu}) accepted");
                vensure_eq!(bal_i(v), x, "balance-from-u64-value", "value");
            }
            Err(e) => {
                vensure!(!in_zat(x), "balance-from-u64-range", "ZatBalance::from_u64({xu}) rejected in-range");
                vensure_eq!(e, BalanceError::Overflow, "balance-from-u64-variant", "variant");
            }
        }
        vensure_eq!(ZatBalance::from_u64_le_bytes(xu.to_le_bytes()), r, "balance-from-u64-bytes", "from_u64_le_bytes");

        let r = Zatoshis::from_u64(xu);
        match r {
            Ok(v) => {
                vensure!(in_zat(x), "zat-from-u64-range", "Zatoshis::from_u64({xu}) accepted");
                vensure_eq!(zat_i(v), x, "zat-from-u64-value", "value");
                vensure_eq!(v.into_u64(), xu, "zat-into-u64", "into_u64");
                vensure_eq!(u64::from(v), xu, "zat-into-u64", "From<Zatoshis> for u64");
                vensure_eq!(v.to_u64_le_bytes(), xu.to_le_bytes(), "zat-bytes", "to_u64_le_bytes");
                vensure_eq!(v.to_i64_le_bytes(), (xu as i64).to_le_bytes(), "zat-bytes", "to_i64_le_bytes");
                vensure_eq!(Zatoshis::from_u64_le_bytes(v.to_u64_le_bytes()), Ok(v), "zat-bytes-roundtrip", "u64 bytes");
                vensure_eq!(Zatoshis::from_nonnegative_i64_le_bytes(v.to_i64_le_bytes()), Ok(v), "zat-bytes-roundtrip", "i64 bytes");
                vensure_eq!(v.is_zero(), x == 0, "zat-sign", "is_zero");
                vensure_eq!(v.is_positive(), x > 0, "zat-sign", "is_positive");
                vensure_eq!(bal_i(ZatBalance::from(v)), x, "zat-to-balance", "From<Zatoshis> for ZatBalance");
                vensure_eq!(bal_i(ZatBalance::from(&v)), x, "zat-to-balance", "From<&Zatoshis> for ZatBalance");
                let n = catch(|| -v).map_err(|p| Fail::new("neg-panic", format!("-{v:?} panicked: {p}")))?;
                vensure_eq!(bal_i(n), -x, "zat-neg", "Neg for Zatoshis");
                // write/read
                let mut buf = vec![];
                v.write(&mut buf).map_err(|e| Fail::new("zat-write", format!("write failed: {e}")))?;
                vensure_eq!(buf.as_slice(), &xu.to_le_bytes()[..], "zat-write", "write bytes");
                let back = Zatoshis::read(&buf[..]).map_err(|e| Fail::new("zat-read", format!("read of own encoding failed: {e}")))?;
                vensure_eq!(back, v, "zat-read", "read(write(v))");
            }
            Err(e) => {
                vensure!(!in_zat(x), "zat-from-u64-range", "Zatoshis::from_u64({xu}) rejected in-range");
                vensure_eq!(e, BalanceError::Overflow, "zat-from-u64-variant", "variant");
                match Zatoshis::read(&xu.to_le_bytes()[..]) {
                    Ok(v) => vfail!("zat-read-range", "Zatoshis::read accepted out-of-range {xu} as {v:?}"),
                    Err(e) => vensure_eq!(e.kind(), std::io::ErrorKind::InvalidData, "zat-read-kind", "error kind for out-of-range"),
                }
            }
        }
        vensure_eq!(Zatoshis::try_from(xu), r, "zat-tryfrom", "TryFrom<u64>");
        vensure_eq!(Zatoshis::from_u64_le_bytes(xu.to_le_bytes()), r, "zat-from-bytes", "from_u64_le_bytes");
        // short reads are errors, not panics
        for cut in 0..8usize {
            let b = xu.to_le_bytes();
            match catch(|| Zatoshis::read(&b[..cut])) {
                Ok(Err(_)) => {}
                Ok(Ok(v)) => vfail!("zat-read-short", "read of {cut} bytes returned {v:?}"),
                Err(p) => vfail!("zat-read-panic", "read of {cut} bytes panicked: {p}"),
            }
        }

        let c = catch(|| ZatBalance::const_from_u64(xu));
        match c {
            Ok(v) => {
                vensure!(in_zat(x), "const-from-u64", "ZatBalance::const_from_u64({xu}) out of range value");
                vensure_eq!(bal_i(v), x, "const-from-u64", "value");
            }
            Err(_) => vensure!(!in_zat(x), "const-from-u64", "ZatBalance::const_from_u64({xu}) panicked in range"),
        }
        let c = catch(|| Zatoshis::const_from_u64(xu));
        match c {
            Ok(v) => {
                vensure!(in_zat(x), "const-from-u64", "Zatoshis::const_from_u64({xu}) out of range value");
                vensure_eq!(zat_i(v), x, "const-from-u64", "value");
            }
            Err(_) => vensure!(!in_zat(x), "const-from-u64", "Zatoshis::const_from_u64({xu}) panicked in range"),
        }
    }
    if !(i64::try_from(x).is_ok() || u64::try_from(x).is_ok()) {
        nontrivial = false;
    }
    Ok(Obs::new(nontrivial).key(vcore::hash64(&x.to_le_bytes())).label_if(in_bal(x), "in-balance-range").label_if(!in_bal(x), "out-of-range"))
}

/// All binary operators on a pair of in-range values (a in balance range, b in balance range).
fn check_pair(a: i128, b: i128) -> CaseResult {
    debug_assert!(in_bal(a) && in_bal(b));
    let mut nt = false;
    let mut mark = |exact: i128| {
        if (exact - M).abs() <= 2 || (exact + M).abs() <= 2 || (exact.abs() <= 2 && (a != 0 || b != 0)) {
            nt = true;
        }
    };
    let ba = bal(a);
    let bb = bal(b);
    macro_rules! op {
        ($sig:expr, $what:expr, $e:expr) => {
            catch(|| $e).map_err(|p| Fail::new(concat!($sig, "-panic"), format!("{} panicked: {p}", $what)))?
        };
    }
    // ZatBalance ± ZatBalance
    check_opt_bal("bal-add-bal", op!("bal-add-bal", "ZatBalance+ZatBalance", ba + bb), a + b, &format!("{a} + {b}"))?;
    mark(a + b);
    check_opt_bal("bal-sub-bal", op!("bal-sub-bal", "ZatBalance-ZatBalance", ba - bb), a - b, &format!("{a} - {b}"))?;
    mark(a - b);
    check_opt_bal("opt-bal-add-bal", op!("opt-bal-add-bal", "Some(ZatBalance)+ZatBalance", Some(ba) + bb), a + b, &format!("Some({a}) + {b}"))?;
    check_opt_bal("opt-bal-sub-bal", op!("opt-bal-sub-bal", "Some(ZatBalance)-ZatBalance", Some(ba) - bb), a - b, &format!("Some({a}) - {b}"))?;
    vensure_eq!(None::<ZatBalance> + bb, None, "none-add", "None + ZatBalance");
    vensure_eq!(None::<ZatBalance> - bb, None, "none-sub", "None - ZatBalance");
    // Sum over [a, b]
    let s: Option<ZatBalance> = op!("bal-sum", "Sum<ZatBalance>", [ba, bb].into_iter().sum());
    check_opt_bal("bal-sum", s, a + b, &format!("sum([{a},{b}])"))?;
    let s: Option<ZatBalance> = op!("bal-sum-ref", "Sum<&ZatBalance>", [ba, bb].iter().sum());
    check_opt_bal("bal-sum-ref", s, a + b, &format!("sum(&[{a},{b}])"))?;
    check_opt_bal("bal-assoc-sum", op!("bal-assoc-sum", "ZatBalance::sum", ZatBalance::sum([ba, bb])), a + b, &format!("ZatBalance::sum([{a},{b}])"))?;

    if b >= 0 {
        let zb = zat(b);
        // ZatBalance ± Zatoshis
        check_opt_bal("bal-add-zat", op!("bal-add-zat", "ZatBalance+Zatoshis", ba + zb), a + b, &format!("bal {a} + zat {b}"))?;
        check_opt_bal("bal-sub-zat", op!("bal-sub-zat", "ZatBalance-Zatoshis", ba - zb), a - b, &format!("bal {a} - zat {b}"))?;
        check_opt_bal("opt-bal-add-zat", op!("opt-bal-add-zat", "Some(ZatBalance)+Zatoshis", Some(ba) + zb), a + b, &format!("Some(bal {a}) + zat {b}"))?;
        check_opt_bal("opt-bal-sub-zat", op!("opt-bal-sub-zat", "Some(ZatBalance)-Zatoshis", Some(ba) - zb), a - b, &format!("Some(bal {a}) - zat {b}"))?;
        vensure_eq!(None::<ZatBalance> + zb, None, "none-add", "None + Zatoshis");
        vensure_eq!(None::<ZatBalance> - zb, None, "none-sub", "None - Zatoshis");
        if a >= 0 {
            let za = zat(a);
            check_opt_zat("zat-add-zat", op!("zat-add-zat", "Zatoshis+Zatoshis", za + zb), a + b, &format!("zat {a} + zat {b}"))?;
            check_opt_zat("zat-sub-zat", op!("zat-sub-zat", "Zatoshis-Zatoshis", za - zb), a - b, &format!("zat {a} - zat {b}"))?;
            check_opt_zat("opt-zat-add-zat", op!("opt-zat-add-zat", "Some(Zatoshis)+Zatoshis", Some(za) + zb), a + b, &format!("Some(zat {a}) + zat {b}"))?;
            check_opt_zat("opt-zat-sub-zat", op!("opt-zat-sub-zat", "Some(Zatoshis)-Zatoshis", Some(za) - zb), a - b, &format!("Some(zat {a}) - zat {b}"))?;
            vensure_eq!(None::<Zatoshis> + zb, None, "none-add", "None + Zatoshis (zat)");
            vensure_eq!(None::<Zatoshis> - zb, None, "none-sub", "None - Zatoshis (zat)");
            let s: Option<Zatoshis> = op!("zat-sum", "Sum<Zatoshis>", [za, zb].into_iter().sum());
            check_opt_zat("zat-sum", s, a + b, &format!("zat sum([{a},{b}])"))?;
            let s: Option<Zatoshis> = op!("zat-sum-ref", "Sum<&Zatoshis>", [za, zb].iter().sum());
            check_opt_zat("zat-sum-ref", s, a + b, &format!("zat sum(&[{a},{b}])"))?;
        }
    }
    Ok(Obs::new(nt).key(vcore::hash64(&[a.to_le_bytes(), b.to_le_bytes()].concat())).label_if(!in_bal(a + b) || !in_bal(a - b), "overflowing"))
}

fn multipliers() -> Vec<u64> {
    let mut v = vec![
        0u64,
        1,
        2,
        3,
        10,
        MAX_MONEY,
        MAX_MONEY - 1,
        MAX_MONEY + 1,
        MAX_MONEY / 2,
        MAX_MONEY / 2 + 1,
        u32::MAX as u64,
        (u32::MAX as u64) + 1,
        i64::MAX as u64,
        (i64::MAX as u64) + 1,
        u64::MAX,
        u64::MAX - 1,
        1 << 63,
        (1 << 63) + 1,
        8_784, // ~ i64::MAX / MAX_MONEY * 2: products straddling i64
        4_392,
        4_393,
    ];
    v.sort();
    v.dedup();
    v
}

fn check_mul_div(a: i128, m: u64) -> CaseResult {
    debug_assert!(in_bal(a));
    let exact = a * m as i128;
    let nt = near_boundary(exact) && m > 1 && a != 0 || exact.unsigned_abs() > i64::MAX as u128;
    let ba = bal(a);
    if let Ok(mu) = usize::try_from(m) {
        let r = catch(|| ba * mu).map_err(|p| Fail::new("bal-mul-panic", format!("ZatBalance({a}) * {mu}usize panicked: {p}")))?;
        check_opt_bal("bal-mul-usize", r, exact, &format!("bal {a} * {mu}"))?;
    }
    if a >= 0 {
        let za = zat(a);
        let r = catch(|| za * m).map_err(|p| Fail::new("zat-mul-panic", format!("Zatoshis({a}) * {m}u64 panicked: {p}")))?;
        check_opt_zat("zat-mul-u64", r, exact, &format!("zat {a} * {m}u64"))?;
        if let Ok(mu) = usize::try_from(m) {
            let r = catch(|| za * mu).map_err(|p| Fail::new("zat-mul-panic", format!("Zatoshis({a}) * {mu}usize panicked: {p}")))?;
            check_opt_zat("zat-mul-usize", r, exact, &format!("zat {a} * {mu}usize"))?;
        }
        if let Some(d) = NonZeroU64::new(m) {
            let q = catch(|| za / d).map_err(|p| Fail::new("zat-div-panic", format!("Zatoshis({a}) / {m} panicked: {p}")))?;
            vensure_eq!(zat_i(q), a / m as i128, "zat-div", "Zatoshis({a}) / {m}");
            let qr = catch(|| za.div_with_remainder(d)).map_err(|p| Fail::new("zat-divrem-panic", format!("div_with_remainder panicked: {p}")))?;
            let (q, r) = (zat_i(*qr.quotient()), zat_i(*qr.remainder()));
            vensure_eq!(q * m as i128 + r, a, "zat-divrem-identity", "q*d+r == self for {a}/{m}");
            vensure!(r < m as i128 && r >= 0, "zat-divrem-remainder", "remainder {r} not < divisor {m}");
            vensure!(in_zat(q) && in_zat(r), "zat-divrem-range", "quotient/remainder out of range");
        }
    }
    Ok(Obs::new(nt).key(vcore::hash64(&[a.to_le_bytes().to_vec(), m.to_le_bytes().to_vec()].concat())).label_if(!in_bal(exact), "overflowing"))
}

fn check_sum_list(vals: &[i64]) -> CaseResult {
    let exact_prefix_ok = {
        // try_fold semantics: fails as soon as a prefix leaves the range
        let mut acc: i128 = 0;
        let mut ok = true;
        for v in vals {
            acc += *v as i128;
            if !in_bal(acc) {
                ok = false;
                break;
            }
        }
        ok
    };
    let total: i128 = vals.iter().map(|v| *v as i128).sum();
    let bs: Vec<ZatBalance> = vals.iter().map(|v| bal(*v as i128)).collect();
    let s1: Option<ZatBalance> = catch(|| bs.iter().copied().sum()).map_err(|p| Fail::new("bal-sum-panic", p))?;
    let s2: Option<ZatBalance> = catch(|| bs.iter().sum()).map_err(|p| Fail::new("bal-sum-panic", p))?;
    let s3 = catch(|| ZatBalance::sum(bs.iter().copied())).map_err(|p| Fail::new("bal-sum-panic", p))?;
    for (name, s) in [("Sum", s1), ("Sum-ref", s2), ("ZatBalance::sum", s3)] {
        match s {
            Some(v) => {
                vensure_eq!(bal_i(v), total, "bal-sum-list", "{name} over {vals:?}");
                vensure!(exact_prefix_ok, "bal-sum-list", "{name} returned Some although a prefix left the range: {vals:?}");
            }
            None => {
                // The documented behaviour is a fold of checked additions: None iff some prefix sum is out of range.
                vensure!(!exact_prefix_ok, "bal-sum-list", "{name} returned None although every prefix sum is in range: {vals:?}");
            }
        }
    }
    if vals.iter().all(|v| *v >= 0) {
        let zs: Vec<Zatoshis> = vals.iter().map(|v| zat(*v as i128)).collect();
        let s1: Option<Zatoshis> = catch(|| zs.iter().copied().sum()).map_err(|p| Fail::new("zat-sum-panic", p))?;
        let s2: Option<Zatoshis> = catch(|| zs.iter().sum()).map_err(|p| Fail::new("zat-sum-panic", p))?;
        for (name, s) in [("Sum", s1), ("Sum-ref", s2)] {
            match s {
                Some(v) => vensure!(in_zat(total) && zat_i(v) == total, "zat-sum-list", "{name} over {vals:?} = {v:?}, exact {total}"),
                None => vensure!(!in_zat(total), "zat-sum-list", "{name} None but exact {total} in range"),
            }
        }
    }
    Ok(Obs::new(vals.len() >= 2 && (near_boundary(total) || !exact_prefix_ok)).label_if(!exact_prefix_ok, "overflowing"))
}

/// Long sums: the exact total can exceed the MACHINE type (u64 needs > 8784 terms of MAX_MONEY, i64 > 4392),
/// which a short list never does. `head` values are repeated `reps` times, then `tail` follows.
fn check_long_sum(head: &[i64], reps: u16, tail: &[i64]) -> CaseResult {
    let mut vals: Vec<i64> = Vec::with_capacity(head.len() * reps as usize + tail.len());
    for _ in 0..reps {
        vals.extend_from_slice(head);
    }
    vals.extend_from_slice(tail);
    let total: i128 = vals.iter().map(|v| *v as i128).sum();
    let mut acc: i128 = 0;
    let mut prefix_ok = true;
    for v in &vals {
        acc += *v as i128;
        if !in_bal(acc) {
            prefix_ok = false;
            break;
        }
    }
    let bs: Vec<ZatBalance> = vals.iter().map(|v| bal(*v as i128)).collect();
    let r1 = catch(|| bs.iter().copied().sum::<Option<ZatBalance>>()).map_err(|p| Fail::new("bal-sum-panic", format!("Sum<ZatBalance> over {} terms panicked: {p}", vals.len())))?;
    let r2 = catch(|| bs.iter().sum::<Option<ZatBalance>>()).map_err(|p| Fail::new("bal-sum-ref-panic", format!("Sum<&ZatBalance> over {} terms panicked: {p}", vals.len())))?;
    let r3 = catch(|| ZatBalance::sum(bs.iter().copied())).map_err(|p| Fail::new("bal-assoc-sum-panic", format!("ZatBalance::sum over {} terms panicked: {p}", vals.len())))?;
    for (name, r) in [("Sum<ZatBalance>", r1), ("Sum<&ZatBalance>", r2), ("ZatBalance::sum", r3)] {
        match r {
            Some(v) => vensure!(prefix_ok && bal_i(v) == total, "bal-long-sum", "{name} over {} terms returned {v:?}; exact total {total}, every prefix in range: {prefix_ok}", vals.len()),
            None => vensure!(!prefix_ok, "bal-long-sum", "{name} over {} terms returned None although every prefix sum is in range (total {total})", vals.len()),
        }
    }
    if vals.iter().all(|v| *v >= 0) {
        let zs: Vec<Zatoshis> = vals.iter().map(|v| zat(*v as i128)).collect();
        let r1 = catch(|| zs.iter().copied().sum::<Option<Zatoshis>>()).map_err(|p| Fail::new("zat-sum-panic", format!("Sum<Zatoshis> over {} terms panicked: {p}", vals.len())))?;
        let r2 = catch(|| zs.iter().sum::<Option<Zatoshis>>()).map_err(|p| Fail::new("zat-sum-ref-panic", format!("Sum<&Zatoshis> over {} terms panicked: {p}", vals.len())))?;
        for (name, r) in [("Sum<Zatoshis>", r1), ("Sum<&Zatoshis>", r2)] {
            match r {
                Some(v) => vensure!(in_zat(total) && zat_i(v) == total, "zat-long-sum", "{name} over {} terms returned {v:?} but the exact total is {total}", vals.len()),
                None => vensure!(!in_zat(total), "zat-long-sum", "{name} over {} terms returned None but the exact total {total} is in range", vals.len()),
            }
        }
    }
    let beyond_machine = total.unsigned_abs() > i64::MAX as u128;
    Ok(Obs::new(beyond_machine || near_boundary(total))
        .key(vcore::hash64(format!("{head:?}{reps}{tail:?}").as_bytes()))
        .label_if(total > u64::MAX as i128, "total>u64::MAX")
        .label_if(beyond_machine, "total-beyond-i64")
        .label_if(vals.iter().any(|v| *v < 0), "mixed-signs"))
}

fn arb_in_range() -> impl Strategy<Value = i64> + Clone {
    let lat: Vec<i64> = lattice().into_iter().filter(|x| in_bal(*x)).map(|x| x as i64).collect();
    prop_oneof![
        3 => proptest::sample::select(lat),
        3 => -MAX_BALANCE..=MAX_BALANCE,
        1 => (MAX_BALANCE - 1000)..=MAX_BALANCE,
        1 => -MAX_BALANCE..=(-MAX_BALANCE + 1000),
        1 => -1000i64..=1000,
    ]
}

fn arb_raw() -> impl Strategy<Value = i128> + Clone {
    let lat = lattice();
    prop_oneof![
        2 => proptest::sample::select(lat),
        2 => any::<i64>().prop_map(|x| x as i128),
        2 => any::<u64>().prop_map(|x| x as i128),
        2 => (-(MAX_BALANCE + 1000)..=(MAX_BALANCE + 1000)).prop_map(|x| x as i128),
        1 => (-1000i64..1000).prop_map(|d| M + d as i128),
        1 => (-1000i64..1000).prop_map(|d| -M + d as i128),
    ]
}

fn main() {
    let ctx = Ctx::from_args("C09", "exploration");
    ctx.set_rule(
        "Exhaustive: every lattice value through every constructor/parser; every ordered pair of in-range lattice \
         values through every binary operator impl; every (in-range lattice value x multiplier/divisor). Random: \
         proptest values/pairs/lists/multipliers (boundary-weighted + uniform). Oracle = exact i128 arithmetic. \
         Non-trivial = exact result within 2 of 0/+-MAX_MONEY or outside the machine type / a prefix overflow; \
         distinct = hash of operands.",
    );
    ctx.assume("const_from_* are documented to panic outside the range; a panic there is the signalled failure");
    ctx.assume("Sum impls are documented as a fold of checked additions (fail when any prefix leaves the range)");
    let tier = ctx.tier;

    let lat = lattice();
    let n = lat.len() as u64;
    {
        let lat = lat.clone();
        let lat2 = lat.clone();
        ctx.run_enum("lattice-constructors", n, true, move |i| check_constructors(lat[i as usize]), move |i| format!("raw={}", lat2[i as usize]));
    }
    let inr: Vec<i128> = lat.iter().copied().filter(|x| in_bal(*x)).collect();
    let k = inr.len() as u64;
    {
        let a = inr.clone();
        let b = inr.clone();
        ctx.run_enum(
            "lattice-pairs",
            k * k,
            true,
            move |i| check_pair(a[(i / k) as usize], a[(i % k) as usize]),
            move |i| format!("a={} b={}", b[(i / k) as usize], b[(i % k) as usize]),
        );
    }
    {
        let a = inr.clone();
        let b = inr.clone();
        let ms = multipliers();
        let ms2 = ms.clone();
        let m = ms.len() as u64;
        ctx.run_enum(
            "lattice-mul-div",
            k * m,
            true,
            move |i| check_mul_div(a[(i / m) as usize], ms[(i % m) as usize]),
            move |i| format!("a={} m={}", b[(i / m) as usize], ms2[(i % m) as usize]),
        );
    }

    ctx.run_prop("random-constructors", arb_raw, tier.pick(4_000_000, 40_000_000), |x| check_constructors(*x));
    ctx.run_prop("random-pairs", || (arb_in_range(), arb_in_range()), tier.pick(24_000_000, 200_000_000), |(a, b)| check_pair(*a as i128, *b as i128));
    let arb_mul = || {
        prop_oneof![
            2 => proptest::sample::select(multipliers()),
            2 => any::<u64>(),
            2 => 0u64..20_000,
            1 => (0u64..64).prop_map(|s| 1u64 << s),
        ]
    };
    ctx.run_prop("random-mul-div", || (arb_in_range(), arb_mul()), tier.pick(12_000_000, 80_000_000), |(a, m)| check_mul_div(*a as i128, *m));
    ctx.run_prop("random-sum-lists", || proptest::collection::vec(arb_in_range(), 0..8), tier.pick(4_000_000, 20_000_000), |v| check_sum_list(v));
    // long sums whose exact total leaves the machine type
    let arb_big = || prop_oneof![3 => Just(MAX_BALANCE), 2 => (MAX_BALANCE - 1000)..=MAX_BALANCE, 1 => (MAX_BALANCE / 2)..=MAX_BALANCE, 1 => Just(-MAX_BALANCE), 1 => 0i64..1000];
    ctx.run_prop(
        "long-sums",
        || (proptest::collection::vec(arb_big(), 1..4), prop_oneof![Just(4393u16), Just(8785), Just(8786), 4000u16..20000], proptest::collection::vec(arb_in_range(), 0..4)),
        tier.pick(4_000, 60_000),
        |(head, reps, tail)| check_long_sum(head, *reps, tail),
    );
    ctx.require_label_fraction("long-sums", "total>u64::MAX", 0.15);
    ctx.finish();
}

//! C11 — Key encodings round-trip and derived addresses belong to their keys.
//!
//! Oracles:
//!   * reference key material assembled from the underlying crates only (sapling-crypto ZIP 32,
//!     orchard ZIP 32) plus an own BIP 32 / BIP 44 implementation (HMAC-SHA512 written out, secp256k1
//!     for the group law) — never through `zcash_keys` helpers;
//!   * a reference model of `UnifiedAddressRequest` semantics written from the rustdoc of
//!     `ReceiverRequirement` (Require / Allow / Omit) and of `find_address` ("least valid j >= j0");
//!   * round trips on every key/address encoding, with spec constants (HRPs, Base58 prefixes, coin
//!     types) hard-coded from the protocol specification / ZIP 32 / ZIP 316;
//!   * recognition (diversifier recovery) and trial decryption (compact + full, Sapling / Orchard /
//!     Ironwood) against every scanning key of three accounts: only the matching (account, scope)
//!     may succeed.

use std::collections::BTreeSet;
use std::sync::Arc;

use proptest::prelude::*;
use proptest::sample::select;
use rand_core::SeedableRng;
use ripemd::Ripemd160;
use sha2::{Digest, Sha256, Sha512};
use vcore::{catch, hash64, vensure, vensure_eq, vfail, CaseResult, Ctx, Fail, Obs};

use zcash_address::unified::{self, Container as _, Encoding as _, Typecode};
use zcash_client_backend::scanning::{ScanningKeyOps as _, ScanningKeys};
use zcash_keys::address::{Address, UnifiedAddress};
use zcash_keys::encoding::{self as enc, AddressCodec, Bech32DecodeError};
use zcash_keys::keys::transparent::gap_limits::generate_address_list;
use zcash_keys::keys::{
    AddressGenerationError as AGE, DecodingError, Era, ReceiverRequirement as RR, ReceiverRequirementError,
    UnifiedAddressRequest as UAR, UnifiedFullViewingKey as Ufvk, UnifiedIncomingViewingKey as Uivk,
    UnifiedSpendingKey as Usk,
};
use zcash_note_encryption::{
    try_compact_note_decryption, try_note_decryption, Domain, EphemeralKeyBytes, ShieldedOutput, COMPACT_NOTE_SIZE,
    ENC_CIPHERTEXT_SIZE,
};
use zcash_protocol::consensus::{
    BlockHeight, NetworkConstants, NetworkType, NetworkUpgrade, Parameters, MAIN_NETWORK, TEST_NETWORK,
};
use zcash_protocol::local_consensus::LocalNetwork;
use zcash_transparent::address::TransparentAddress;
use zcash_transparent::keys::{
    AccountPrivKey, AccountPubKey, ExternalIvk, IncomingViewingKey as _, InternalIvk, NonHardenedChildIndex,
    NonHardenedChildRange, TransparentKeyScope,
};
use zip32::{AccountId, ChildIndex, DiversifierIndex, Scope};

use orchard::note_encryption::{
    CompactAction, IronwoodDomain, IronwoodNoteEncryption, OrchardDomain, OrchardNoteEncryption,
};
use sapling::note_encryption::{
    sapling_note_encryption, try_sapling_compact_note_decryption, try_sapling_note_decryption,
    CompactOutputDescription, SaplingDomain, Zip212Enforcement,
};
use sapling::zip32::{DiversifiableFullViewingKey, ExtendedFullViewingKey, ExtendedSpendingKey};
use sapling::PaymentAddress;

// ---------------------------------------------------------------------------------------------
// Constants from the specifications (NOT from zcash_protocol::constants)
// ---------------------------------------------------------------------------------------------

/// SLIP 44 / ZIP 32 coin types: mainnet 133, testnet and regtest 1.
const COIN: [u32; 3] = [133, 1, 1];
// Protocol spec 5.6.3.x (Sapling), ZIP 316 (unified)
const HRP_EXTSK: [&str; 3] = ["secret-extended-key-main", "secret-extended-key-test", "secret-extended-key-regtest"];
const HRP_EXTFVK: [&str; 3] = ["zxviews", "zxviewtestsapling", "zxviewregtestsapling"];
const HRP_PA: [&str; 3] = ["zs", "ztestsapling", "zregtestsapling"];
const HRP_UA: [&str; 3] = ["u", "utest", "uregtest"];
const HRP_UFVK: [&str; 3] = ["uview", "uviewtest", "uviewregtest"];
const HRP_UIVK: [&str; 3] = ["uivk", "uivktest", "uivkregtest"];
// Protocol spec 5.6.1.1 (regtest shares the testnet lead bytes)
const B58_P2PKH: [[u8; 2]; 3] = [[0x1c, 0xb8], [0x1d, 0x25], [0x1d, 0x25]];
const B58_P2SH: [[u8; 2]; 3] = [[0x1c, 0xbd], [0x1c, 0xba], [0x1c, 0xba]];
/// ZIP 252: NU5 consensus branch id (the identifier of the "Orchard" USK era).
const NU5_BRANCH_ID: u32 = 0xc2d6_d0b4;
const NET_TYPES: [NetworkType; 3] = [NetworkType::Main, NetworkType::Test, NetworkType::Regtest];
const NET_LABEL: [&str; 3] = ["net:main", "net:test", "net:regtest"];

const TWO31: u128 = 1 << 31;
const MAX88: u128 = (1 << 88) - 1;

#[derive(Clone, Copy, Debug)]
enum AnyNet {
    Main,
    Test,
    Reg(LocalNetwork),
}

impl Parameters for AnyNet {
    fn network_type(&self) -> NetworkType {
        match self {
            AnyNet::Main => MAIN_NETWORK.network_type(),
            AnyNet::Test => TEST_NETWORK.network_type(),
            AnyNet::Reg(l) => l.network_type(),
        }
    }
    fn activation_height(&self, nu: NetworkUpgrade) -> Option<BlockHeight> {
        match self {
            AnyNet::Main => MAIN_NETWORK.activation_height(nu),
            AnyNet::Test => TEST_NETWORK.activation_height(nu),
            AnyNet::Reg(l) => l.activation_height(nu),
        }
    }
}

fn net_of(i: usize) -> AnyNet {
    let h = Some(BlockHeight::from_u32(1));
    match i % 3 {
        0 => AnyNet::Main,
        1 => AnyNet::Test,
        _ => AnyNet::Reg(LocalNetwork {
            overwinter: h,
            sapling: h,
            blossom: h,
            heartwood: h,
            canopy: h,
            nu5: h,
            nu6: h,
            nu6_1: h,
            nu6_2: h,
            nu6_3: h,
        }),
    }
}

/// Stable name of a panic location: path inside /repo, or `<crate>-<version>/src/...` for a dependency.
fn site(p: &str) -> String {
    let v = vcore::panic_site(p);
    match v.find("/registry/src/") {
        Some(i) => v[i + "/registry/src/".len()..].splitn(2, '/').nth(1).unwrap_or("").to_string(),
        None => v,
    }
}

fn hx(b: &[u8]) -> String {
    hex::encode(b)
}

/// Deterministic byte expansion (kind 0 => zeros, kind 1 => 0xff, else BLAKE2b stream of `fill`).
fn expand(kind: u8, fill: u64, len: usize, pers: &[u8]) -> Vec<u8> {
    match kind {
        0 => return vec![0u8; len],
        1 => return vec![0xffu8; len],
        _ => {}
    }
    let mut p = [0u8; 16];
    p[..pers.len().min(16)].copy_from_slice(&pers[..pers.len().min(16)]);
    let mut out = Vec::with_capacity(len + 64);
    let mut ctr = 0u64;
    while out.len() < len {
        let mut st = blake2b_simd::Params::new().hash_length(64).personal(&p).to_state();
        st.update(&fill.to_le_bytes());
        st.update(&ctr.to_le_bytes());
        out.extend_from_slice(st.finalize().as_bytes());
        ctr += 1;
    }
    out.truncate(len);
    out
}

fn arr32(v: &[u8]) -> [u8; 32] {
    let mut a = [0u8; 32];
    a.copy_from_slice(&v[..32]);
    a
}

// ---------------------------------------------------------------------------------------------
// Reference BIP 32 (written from the BIP text; secp256k1 supplies only the group law)
// ---------------------------------------------------------------------------------------------

fn hmac_sha512(key: &[u8], data: &[&[u8]]) -> [u8; 64] {
    let mut k = [0u8; 128];
    if key.len() > 128 {
        k[..64].copy_from_slice(&Sha512::digest(key));
    } else {
        k[..key.len()].copy_from_slice(key);
    }
    let mut ipad = [0x36u8; 128];
    let mut opad = [0x5cu8; 128];
    for i in 0..128 {
        ipad[i] ^= k[i];
        opad[i] ^= k[i];
    }
    let mut h = Sha512::new();
    h.update(ipad);
    for d in data {
        h.update(d);
    }
    let inner = h.finalize();
    let mut h = Sha512::new();
    h.update(opad);
    h.update(inner);
    let mut out = [0u8; 64];
    out.copy_from_slice(&h.finalize());
    out
}

fn hash160(b: &[u8]) -> [u8; 20] {
    let mut out = [0u8; 20];
    out.copy_from_slice(&Ripemd160::digest(Sha256::digest(b)));
    out
}

#[derive(Clone)]
struct XPrv {
    k: secp256k1::SecretKey,
    c: [u8; 32],
}

impl XPrv {
    fn master(seed: &[u8]) -> Option<XPrv> {
        let i = hmac_sha512(b"Bitcoin seed", &[seed]);
        Some(XPrv { k: secp256k1::SecretKey::from_slice(&i[..32]).ok()?, c: arr32(&i[32..]) })
    }
    fn pubkey(&self) -> [u8; 33] {
        secp256k1::PublicKey::from_secret_key_global(&self.k).serialize()
    }
    fn child(&self, index: u32) -> Option<XPrv> {
        let ib = index.to_be_bytes();
        let i = if index >= 0x8000_0000 {
            hmac_sha512(&self.c, &[&[0u8], &self.k.secret_bytes(), &ib])
        } else {
            hmac_sha512(&self.c, &[&self.pubkey(), &ib])
        };
        let tweak = secp256k1::Scalar::from_be_bytes(arr32(&i[..32])).ok()?;
        Some(XPrv { k: self.k.add_tweak(&tweak).ok()?, c: arr32(&i[32..]) })
    }
    /// chain code || compressed public key (the ZIP 316 transparent FVK / IVK item layout).
    fn pub65(&self) -> [u8; 65] {
        let mut o = [0u8; 65];
        o[..32].copy_from_slice(&self.c);
        o[32..].copy_from_slice(&self.pubkey());
        o
    }
}

// ---------------------------------------------------------------------------------------------
// Case specifications
// ---------------------------------------------------------------------------------------------

#[derive(Clone, Debug)]
struct KeySpec {
    /// 0 all-zero seed, 1 all-0xFF seed, otherwise pseudo-random from `seed_fill`
    seed_kind: u8,
    seed_len: u16,
    seed_fill: u64,
    account: u32,
    net: u8,
}

impl KeySpec {
    fn seed(&self) -> Vec<u8> {
        expand(self.seed_kind, self.seed_fill, self.seed_len as usize, b"c11-seed")
    }
    fn net_i(&self) -> usize {
        self.net as usize % 3
    }
    /// A different seed of the same length on the same network/account.
    fn other_seed(&self) -> KeySpec {
        KeySpec { seed_kind: 2, seed_fill: self.seed_fill ^ 0x9e37_79b9_7f4a_7c15, ..self.clone() }
    }
    /// Another account of the same seed.
    fn other_account(&self) -> KeySpec {
        let account = if self.account == 0x7fff_ffff { 0 } else { self.account + 1 };
        KeySpec { account, ..self.clone() }
    }
}

fn arb_seed_len(only_bip32_lengths: bool) -> BoxedStrategy<u16> {
    if only_bip32_lengths {
        prop_oneof![3 => Just(32u16), 2 => Just(64u16)].boxed()
    } else {
        prop_oneof![
            5 => Just(32u16),
            3 => Just(64u16),
            1 => select(vec![33u16, 63, 65, 128, 251, 252]),
            1 => 33u16..=252,
        ]
        .boxed()
    }
}

fn arb_account() -> impl Strategy<Value = u32> {
    prop_oneof![2 => Just(0u32), 1 => Just(1u32), 1 => Just(0x7fff_ffffu32), 2 => 0u32..0x8000_0000]
}

fn arb_keyspec(only_bip32_lengths: bool) -> impl Strategy<Value = KeySpec> {
    (
        prop_oneof![1 => Just(0u8), 1 => Just(1u8), 10 => Just(2u8)],
        arb_seed_len(only_bip32_lengths),
        any::<u64>(),
        arb_account(),
        0u8..3,
    )
        .prop_map(|(seed_kind, seed_len, seed_fill, account, net)| KeySpec { seed_kind, seed_len, seed_fill, account, net })
}

#[derive(Clone, Debug)]
enum JSpec {
    Zero,
    One,
    /// least Sapling-invalid index >= the given small start
    FirstSaplingInvalidFrom(u16),
    /// least Sapling-valid index >= the given small start
    FirstSaplingValidFrom(u16),
    Small(u16),
    /// 2^31 - 1 - k, 2^31 + k: transparent child index boundary
    Below31(u8),
    From31(u8),
    /// 2^32 - 1 and 2^32
    U32Max,
    U32MaxPlus1,
    /// 2^88 - 1 - k
    Max88Minus(u8),
    Rand([u8; 11]),
}

impl JSpec {
    fn resolve(&self, dfvk: &DiversifiableFullViewingKey) -> DiversifierIndex {
        let from = |v: u128| DiversifierIndex::try_from(v).expect("below 2^88");
        match self {
            JSpec::Zero => from(0),
            JSpec::One => from(1),
            JSpec::Small(k) => from(*k as u128),
            JSpec::FirstSaplingInvalidFrom(s) => {
                let mut j = *s as u128;
                while dfvk.address(from(j)).is_some() {
                    j += 1;
                }
                from(j)
            }
            JSpec::FirstSaplingValidFrom(s) => {
                let mut j = *s as u128;
                while dfvk.address(from(j)).is_none() {
                    j += 1;
                }
                from(j)
            }
            JSpec::Below31(k) => from(TWO31 - 1 - *k as u128),
            JSpec::From31(k) => from(TWO31 + *k as u128),
            JSpec::U32Max => from((1u128 << 32) - 1),
            JSpec::U32MaxPlus1 => from(1u128 << 32),
            JSpec::Max88Minus(k) => from(MAX88 - *k as u128),
            JSpec::Rand(b) => DiversifierIndex::from(*b),
        }
    }
}

fn arb_jspec() -> impl Strategy<Value = JSpec> {
    prop_oneof![
        2 => Just(JSpec::Zero),
        1 => Just(JSpec::One),
        4 => (0u16..300).prop_map(JSpec::FirstSaplingInvalidFrom),
        2 => (0u16..300).prop_map(JSpec::FirstSaplingValidFrom),
        2 => (0u16..1000).prop_map(JSpec::Small),
        2 => (0u8..4).prop_map(JSpec::Below31),
        2 => (0u8..4).prop_map(JSpec::From31),
        1 => Just(JSpec::U32Max),
        1 => Just(JSpec::U32MaxPlus1),
        3 => (0u8..4).prop_map(JSpec::Max88Minus),
        3 => any::<[u8; 11]>().prop_map(JSpec::Rand),
    ]
}

#[derive(Clone, Copy, Debug, PartialEq, Eq)]
enum Rq {
    Require,
    Allow,
    Omit,
}

impl Rq {
    fn rr(self) -> RR {
        match self {
            Rq::Require => RR::Require,
            Rq::Allow => RR::Allow,
            Rq::Omit => RR::Omit,
        }
    }
}

fn arb_rq() -> impl Strategy<Value = Rq> {
    prop_oneof![3 => Just(Rq::Require), 4 => Just(Rq::Allow), 2 => Just(Rq::Omit)]
}

#[derive(Clone, Copy, Debug, PartialEq, Eq)]
enum ReqSpec {
    AllAvailable,
    /// (orchard, sapling, p2pkh)
    Custom(Rq, Rq, Rq),
}

fn arb_req() -> impl Strategy<Value = ReqSpec> {
    prop_oneof![
        1 => Just(ReqSpec::AllAvailable),
        9 => (arb_rq(), arb_rq(), arb_rq()).prop_map(|(o, s, p)| ReqSpec::Custom(o, s, p)),
    ]
}

/// Which items the viewing key holds.
#[derive(Clone, Copy, Debug, PartialEq, Eq)]
struct Comp {
    t: bool,
    s: bool,
    o: bool,
}

fn arb_comp() -> impl Strategy<Value = Comp> {
    prop_oneof![
        4 => Just(Comp { t: true, s: true, o: true }),
        2 => Just(Comp { t: false, s: true, o: false }),
        2 => Just(Comp { t: false, s: false, o: true }),
        2 => Just(Comp { t: false, s: true, o: true }),
        2 => Just(Comp { t: true, s: true, o: false }),
        2 => Just(Comp { t: true, s: false, o: true }),
        1 => Just(Comp { t: true, s: false, o: false }),
    ]
}

// ---------------------------------------------------------------------------------------------
// Reference key material (underlying crates + own BIP 32 only)
// ---------------------------------------------------------------------------------------------

struct RefKeys {
    seed: Vec<u8>,
    net_i: usize,
    account: u32,
    extsk: ExtendedSpendingKey,
    dfvk: DiversifiableFullViewingKey,
    osk: orchard::keys::SpendingKey,
    ofvk: orchard::keys::FullViewingKey,
    /// ofvk.to_ivk(External), cached (Sinsemilla commitment)
    oivk_ext: orchard::keys::IncomingViewingKey,
    /// m/44'/coin'/account'
    t_acct: XPrv,
    /// first four bytes of HASH160(parent public key) (BIP 32 serialization)
    t_parent_fp: [u8; 4],
}

fn skip(what: &str) -> Fail {
    // Derivation failures of probability ~2^-127; never expected to be seen.
    Fail::new("reference-derivation-failed", what.to_string())
}

fn ref_keys(ks: &KeySpec) -> Result<RefKeys, Fail> {
    let seed = ks.seed();
    let net_i = ks.net_i();
    let coin = COIN[net_i];
    let acct = AccountId::try_from(ks.account).map_err(|_| skip("account id"))?;
    // ZIP 32 Sapling: m_Sapling / 32' / coin' / account'
    let extsk = ExtendedSpendingKey::from_path(
        &ExtendedSpendingKey::master(&seed),
        &[ChildIndex::hardened(32), ChildIndex::hardened(coin), ChildIndex::hardened(ks.account)],
    );
    let dfvk = extsk.to_diversifiable_full_viewing_key();
    let osk = orchard::keys::SpendingKey::from_zip32_seed(&seed, coin, acct).map_err(|e| skip(&format!("orchard: {e:?}")))?;
    let ofvk = orchard::keys::FullViewingKey::from(&osk);
    // BIP 44: m / 44' / coin' / account'
    let h = 0x8000_0000u32;
    let parent = XPrv::master(&seed)
        .and_then(|m| m.child(44 | h))
        .and_then(|k| k.child(coin | h))
        .ok_or_else(|| skip("bip32 parent"))?;
    let t_acct = parent.child(ks.account | h).ok_or_else(|| skip("bip32 account"))?;
    let mut t_parent_fp = [0u8; 4];
    t_parent_fp.copy_from_slice(&hash160(&parent.pubkey())[..4]);
    let oivk_ext = ofvk.to_ivk(Scope::External);
    Ok(RefKeys { seed, net_i, account: ks.account, extsk, dfvk, osk, ofvk, oivk_ext, t_acct, t_parent_fp })
}

impl RefKeys {
    fn t_child(&self, scope: u32, idx: u32) -> Result<XPrv, Fail> {
        self.t_acct.child(scope).and_then(|k| k.child(idx)).ok_or_else(|| skip("bip32 address level"))
    }
    fn t_addr(&self, scope: u32, idx: u32) -> Result<[u8; 20], Fail> {
        Ok(hash160(&self.t_child(scope, idx)?.pubkey()))
    }
    /// BIP 32 serialization of the account-level private key without the 4 version bytes (74 bytes).
    fn t_acct_xprv_bytes(&self) -> Vec<u8> {
        let mut v = vec![3u8];
        v.extend_from_slice(&self.t_parent_fp);
        v.extend_from_slice(&(self.account | 0x8000_0000).to_be_bytes());
        v.extend_from_slice(&self.t_acct.c);
        v.push(0);
        v.extend_from_slice(&self.t_acct.k.secret_bytes());
        v
    }
}

/// The keys under test for one key spec.
struct Sut {
    net: AnyNet,
    usk: Option<Usk>,
    /// full UFVK: from the USK when it exists, otherwise shielded-only from the reference parts
    ufvk_full: Ufvk,
    has_t: bool,
}

/// Derives the USK / full UFVK and checks their components against the reference.
fn build_sut(ks: &KeySpec, rk: &RefKeys) -> Result<Sut, Fail> {
    let net = net_of(rk.net_i);
    vensure_eq!(net.coin_type(), COIN[rk.net_i], "coin-type", "coin type of {:?}", NET_TYPES[rk.net_i]);
    let acct = AccountId::try_from(ks.account).map_err(|_| skip("account id"))?;
    let seed = rk.seed.clone();
    let r = catch(|| Usk::from_seed(&net, &seed, acct))
        .map_err(|p| Fail::new("from-seed-panic", format!("UnifiedSpendingKey::from_seed panicked for {ks:?}: {p}")))?;
    match r {
        Ok(usk) => {
            // components equal the reference derivations
            vensure!(*usk.sapling() == rk.extsk, "usk-sapling-component", "USK Sapling extsk differs from ZIP 32 m/32'/{}'/{}' for {ks:?}", COIN[rk.net_i], ks.account);
            vensure!(usk.orchard().to_bytes() == rk.osk.to_bytes(), "usk-orchard-component", "USK Orchard sk differs from ZIP 32 derivation for {ks:?}");
            vensure!(usk.transparent().to_bytes() == rk.t_acct_xprv_bytes(), "usk-transparent-component", "USK transparent account key {} differs from BIP 44 m/44'/{}'/{}' = {} for {ks:?}", hx(&usk.transparent().to_bytes()), COIN[rk.net_i], ks.account, hx(&rk.t_acct_xprv_bytes()));
            let ufvk = catch(|| usk.to_unified_full_viewing_key()).map_err(|p| Fail::new("to-ufvk-panic", p))?;
            vensure!(ufvk.sapling().map(|k| k.to_bytes()) == Some(rk.dfvk.to_bytes()), "ufvk-sapling-component", "UFVK Sapling item differs from reference for {ks:?}");
            vensure!(ufvk.orchard().map(|k| k.to_bytes()) == Some(rk.ofvk.to_bytes()), "ufvk-orchard-component", "UFVK Orchard item differs from reference for {ks:?}");
            vensure!(ufvk.transparent().map(|k| k.serialize()) == Some(rk.t_acct.pub65().to_vec()), "ufvk-transparent-component", "UFVK transparent item differs from reference for {ks:?}");
            Ok(Sut { net, usk: Some(usk), ufvk_full: ufvk, has_t: true })
        }
        Err(e) => {
            // The bip32 dependency only accepts 16/32/64-byte seeds; any other outcome for a 32- or
            // 64-byte seed would be a derivation failure of negligible probability.
            vensure!(ks.seed_len != 32 && ks.seed_len != 64, "from-seed-fails", "from_seed failed for a {}-byte seed: {e:?} ({ks:?})", ks.seed_len);
            let ufvk = Ufvk::new(None, Some(rk.dfvk.clone()), Some(rk.ofvk.clone()))
                .map_err(|e| Fail::new("ufvk-new-fails", format!("UnifiedFullViewingKey::new(None, sapling, orchard): {e:?}")))?;
            Ok(Sut { net, usk: None, ufvk_full: ufvk, has_t: false })
        }
    }
}

/// UFVK restricted to `comp` (which must contain a shielded item and only items `sut` has).
fn subset_ufvk(sut: &Sut, comp: Comp) -> Result<Ufvk, Fail> {
    let f = &sut.ufvk_full;
    let r = catch(|| {
        Ufvk::new(
            if comp.t { f.transparent().cloned() } else { None },
            if comp.s { f.sapling().cloned() } else { None },
            if comp.o { f.orchard().cloned() } else { None },
        )
    })
    .map_err(|p| Fail::new("ufvk-new-panic", p))?;
    r.map_err(|e| Fail::new("ufvk-new-fails", format!("UnifiedFullViewingKey::new({comp:?}): {e:?}")))
}

fn subset_uivk(sut: &Sut, comp: Comp) -> Result<Uivk, Fail> {
    if comp.s || comp.o {
        let u = subset_ufvk(sut, comp)?;
        catch(|| u.to_unified_incoming_viewing_key()).map_err(|p| Fail::new("to-uivk-panic", p))
    } else {
        // transparent only: exists at the UIVK level only
        let t = sut.ufvk_full.transparent().ok_or_else(|| skip("no transparent item"))?;
        let ivk = t.derive_external_ivk().map_err(|e| skip(&format!("external ivk: {e:?}")))?;
        Ok(Uivk::new(Some(ivk), None, None))
    }
}

fn comp_effective(comp: Comp, has_t: bool) -> Comp {
    let mut c = comp;
    if !has_t {
        c.t = false;
        if !c.s && !c.o {
            c.s = true;
        }
    }
    c
}

/// Builds the request through the public constructors, checking what they refuse.
fn build_request(req: ReqSpec) -> Result<Option<UAR>, Fail> {
    match req {
        ReqSpec::AllAvailable => Ok(Some(UAR::AllAvailableKeys)),
        ReqSpec::Custom(o, s, p) => {
            let no_shielded = o == Rq::Omit && s == Rq::Omit;
            let safe = catch(|| UAR::custom(o.rr(), s.rr(), p.rr())).map_err(|p| Fail::new("request-ctor-panic", p))?;
            let unsafe_ = catch(|| UAR::unsafe_custom(o.rr(), s.rr(), p.rr()));
            match (&safe, no_shielded) {
                (Err(ReceiverRequirementError::NoShieldedReceiver), true) => {}
                (Ok(_), false) => {}
                _ => vfail!("request-ctor", "UnifiedAddressRequest::custom({o:?},{s:?},{p:?}) = {safe:?}"),
            }
            // documented: unsafe_custom panics iff no shielded receiver is allowed
            vensure!(unsafe_.is_err() == no_shielded, "request-unsafe-ctor", "unsafe_custom({o:?},{s:?},{p:?}) panicked={} but no_shielded={no_shielded}", unsafe_.is_err());
            match safe {
                Ok(r) => {
                    if let UAR::Custom(rr) = r {
                        vensure!(rr.orchard() == o.rr() && rr.sapling() == s.rr() && rr.p2pkh() == p.rr(), "request-ctor", "custom() stored other requirements");
                    }
                    Ok(Some(r))
                }
                Err(_) => Ok(None),
            }
        }
    }
}

// ---------------------------------------------------------------------------------------------
// Reference model of unified address generation
// ---------------------------------------------------------------------------------------------

#[derive(Clone, Copy, Debug, PartialEq, Eq, PartialOrd, Ord)]
enum ErrClass {
    /// `Require` for an item the key lacks (typecode 3 / 2 / 0)
    Absent(u8),
    SaplingInvalid,
    TransparentInvalid,
    NoShielded,
}

#[derive(Debug)]
struct Expect {
    errs: BTreeSet<ErrClass>,
    o: Option<orchard::Address>,
    s: Option<PaymentAddress>,
    t: Option<TransparentAddress>,
    /// request and key components differ (requested-but-unsupported or allowed-but-not-derivable)
    mismatch: bool,
    /// the key has a Sapling item, the request does not omit it, and j is Sapling-invalid
    sapling_invalid: bool,
    /// some error at this index can never disappear at a larger index
    persistent: bool,
}

fn effective_req(req: ReqSpec, comp: Comp) -> (Rq, Rq, Rq) {
    match req {
        ReqSpec::Custom(o, s, p) => (o, s, p),
        // "requires a receiver for each data item of this UIVK"
        ReqSpec::AllAvailable => {
            let f = |b| if b { Rq::Require } else { Rq::Omit };
            (f(comp.o), f(comp.s), f(comp.t))
        }
    }
}

fn expect_at(rk: &RefKeys, comp: Comp, req: ReqSpec, j: DiversifierIndex) -> Result<Expect, Fail> {
    let (ro, rs, rp) = effective_req(req, comp);
    let jv = u128::from(j);
    let mut errs = BTreeSet::new();
    let mut mismatch = false;
    let mut persistent = false;
    // Orchard: every index is valid
    if ro == Rq::Require && !comp.o {
        errs.insert(ErrClass::Absent(3));
        persistent = true;
    }
    mismatch |= ro != Rq::Omit && !comp.o;
    let o = if ro != Rq::Omit && comp.o { Some(rk.oivk_ext.address_at(j)) } else { None };
    // Sapling: about half of the indices are valid
    let s_at = rk.dfvk.address(j);
    if rs == Rq::Require && !comp.s {
        errs.insert(ErrClass::Absent(2));
        persistent = true;
    }
    if rs == Rq::Require && comp.s && s_at.is_none() {
        errs.insert(ErrClass::SaplingInvalid);
    }
    mismatch |= rs != Rq::Omit && !comp.s;
    mismatch |= rs == Rq::Allow && comp.s && s_at.is_none();
    let sapling_invalid = comp.s && rs != Rq::Omit && s_at.is_none();
    let s = if rs != Rq::Omit && comp.s { s_at } else { None };
    // Transparent: non-hardened child indices only
    let t_ok = jv < TWO31;
    if rp == Rq::Require && !comp.t {
        errs.insert(ErrClass::Absent(0));
        persistent = true;
    }
    if rp == Rq::Require && comp.t && !t_ok {
        errs.insert(ErrClass::TransparentInvalid);
        persistent = true;
    }
    mismatch |= rp != Rq::Omit && !comp.t;
    mismatch |= rp == Rq::Allow && comp.t && !t_ok;
    let t = if rp != Rq::Omit && comp.t && t_ok { Some(TransparentAddress::PublicKeyHash(rk.t_addr(0, jv as u32)?)) } else { None };
    if o.is_none() && s.is_none() {
        errs.insert(ErrClass::NoShielded);
        // a later index can only help through a Sapling receiver that is merely invalid here; naming
        // that index as the cause (InvalidSaplingDiversifierIndex) is then equally accurate
        if sapling_invalid {
            errs.insert(ErrClass::SaplingInvalid);
        } else {
            persistent = true;
        }
    }
    Ok(Expect { errs, o, s, t, mismatch, sapling_invalid, persistent })
}

fn tc_of(t: &Typecode) -> Option<u8> {
    match t {
        Typecode::Orchard => Some(3),
        Typecode::Sapling => Some(2),
        Typecode::P2pkh => Some(0),
        _ => None,
    }
}

/// Does the returned error variant fit the cause? `exact_j`: the index carried must be this one;
/// otherwise any index >= `j` is accepted (find_address).
fn err_fits(e: &AGE, cls: ErrClass, j: DiversifierIndex, exact_j: bool) -> bool {
    let j_ok = |jj: &DiversifierIndex| if exact_j { *jj == j } else { *jj >= j };
    match (cls, e) {
        // `KeyNotAvailable` is what the variant docs describe; the implementation reports the
        // other two. All three name the cause acceptably for callers (see report).
        (ErrClass::Absent(tc), AGE::KeyNotAvailable(t)) | (ErrClass::Absent(tc), AGE::ReceiverTypeNotSupported(t)) => tc_of(t) == Some(tc),
        (ErrClass::Absent(_), AGE::ShieldedReceiverRequired) => true,
        (ErrClass::SaplingInvalid, AGE::InvalidSaplingDiversifierIndex(jj)) => j_ok(jj),
        (ErrClass::TransparentInvalid, AGE::InvalidTransparentChildIndex(jj)) => j_ok(jj),
        (ErrClass::NoShielded, AGE::ShieldedReceiverRequired) => true,
        _ => false,
    }
}

fn check_ua_matches(ua: &UnifiedAddress, ex: &Expect, sig: &'static str, what: &str) -> Result<(), Fail> {
    vensure!(ua.orchard() == ex.o.as_ref(), sig, "{what}: Orchard receiver {:?}, reference {:?}", ua.orchard(), ex.o);
    vensure!(ua.sapling() == ex.s.as_ref(), sig, "{what}: Sapling receiver {:?}, reference {:?}", ua.sapling(), ex.s);
    vensure!(ua.transparent() == ex.t.as_ref(), sig, "{what}: transparent receiver {:?}, reference {:?}", ua.transparent(), ex.t);
    vensure!(ua.unknown().is_empty(), sig, "{what}: unknown receivers {:?}", ua.unknown());
    vensure!(ua.has_orchard() == ex.o.is_some() && ua.has_sapling() == ex.s.is_some() && ua.has_transparent() == ex.t.is_some(), sig, "{what}: has_* accessors disagree with the receivers");
    let mut want = vec![];
    if ex.o.is_some() {
        want.push(Typecode::Orchard);
    }
    if ex.s.is_some() {
        want.push(Typecode::Sapling);
    }
    if ex.t.is_some() {
        want.push(Typecode::P2pkh);
    }
    vensure!(ua.receiver_types() == want, sig, "{what}: receiver_types {:?}, reference {want:?}", ua.receiver_types());
    Ok(())
}

/// Compares one `address(j, request)` result with the reference expectation.
fn check_address_result(got: &Result<UnifiedAddress, AGE>, ex: &Expect, j: DiversifierIndex, what: &str) -> Result<(), Fail> {
    match got {
        Ok(ua) => {
            vensure!(ex.errs.is_empty(), "address-ok-but-reference-errors", "{what}: returned {ua:?} but the reference says {:?}", ex.errs);
            check_ua_matches(ua, ex, "address-receivers-differ", what)
        }
        Err(e) => {
            vensure!(!ex.errs.is_empty(), "address-error-but-reference-ok", "{what}: returned {e:?} but the reference derives orchard={:?} sapling={:?} transparent={:?}", ex.o, ex.s, ex.t);
            vensure!(ex.errs.iter().any(|c| err_fits(e, *c, j, true)), "address-error-variant", "{what}: error {e:?} does not name any applicable cause {:?}", ex.errs);
            Ok(())
        }
    }
}

fn same_result<T: PartialEq + std::fmt::Debug>(a: &Result<T, AGE>, b: &Result<T, AGE>) -> bool {
    match (a, b) {
        (Ok(x), Ok(y)) => x == y,
        (Err(x), Err(y)) => format!("{x:?}") == format!("{y:?}"),
        _ => false,
    }
}

// ---------------------------------------------------------------------------------------------
// Sub-check: commutation of derivation with address generation; find_address; default_address
// ---------------------------------------------------------------------------------------------

#[derive(Clone, Debug)]
struct CommCase {
    ks: KeySpec,
    comp: Comp,
    req: ReqSpec,
    j: JSpec,
}

const SCAN_LIMIT: usize = 4096;

struct RefFind {
    found: Option<(DiversifierIndex, Expect)>,
    /// every cause seen on the way
    causes: BTreeSet<ErrClass>,
    /// the search ran off the end of the 88-bit index space
    hit_end: bool,
    /// causes at the start index
    first: BTreeSet<ErrClass>,
}

/// "the least j >= j0 at which address(j, request) succeeds".
fn ref_find(rk: &RefKeys, comp: Comp, req: ReqSpec, j0: DiversifierIndex) -> Result<RefFind, Fail> {
    let mut j = j0;
    let mut causes = BTreeSet::new();
    let mut first = BTreeSet::new();
    for step in 0..SCAN_LIMIT {
        let ex = expect_at(rk, comp, req, j)?;
        if step == 0 {
            first = ex.errs.clone();
        }
        if ex.errs.is_empty() {
            return Ok(RefFind { found: Some((j, ex)), causes, hit_end: false, first });
        }
        causes.extend(ex.errs.iter().copied());
        if ex.persistent {
            return Ok(RefFind { found: None, causes, hit_end: false, first });
        }
        if j.increment().is_err() {
            return Ok(RefFind { found: None, causes, hit_end: true, first });
        }
    }
    Err(skip("no Sapling-valid index within 4096 steps"))
}

fn check_find_result(
    ctx: &Ctx,
    got: &Result<(UnifiedAddress, DiversifierIndex), AGE>,
    rf: &RefFind,
    j0: DiversifierIndex,
    what: &str,
) -> Result<bool, Fail> {
    // returns true if a known finding was stepped over
    match (got, &rf.found) {
        (Ok((ua, jr)), Some((jx, ex))) => {
            vensure!(jr >= &j0, "find-address-below-start", "{what}: returned index {jr:?} below the start {j0:?}");
            vensure!(jr == jx, "find-address-not-least", "{what}: returned index {jr:?}, least valid index is {jx:?} (start {j0:?})");
            check_ua_matches(ua, ex, "find-address-receivers-differ", what)?;
            Ok(false)
        }
        (Ok((ua, jr)), None) => vfail!("find-address-ok-but-reference-errors", "{what}: returned ({ua:?}, {jr:?}) but no index >= {j0:?} is valid: {:?}", rf.causes),
        (Err(e), Some((jx, _))) => {
            // A Sapling receiver that is only *allowed* and not derivable at j0 makes address()
            // report "no shielded receiver"; find_address gives up instead of searching.
            let sig = if rf.first.contains(&ErrClass::NoShielded) && rf.first.iter().all(|c| matches!(c, ErrClass::NoShielded | ErrClass::SaplingInvalid)) && matches!(e, AGE::ShieldedReceiverRequired) {
                "find-address-gives-up-when-allowed-sapling-index-invalid"
            } else {
                "find-address-error-but-valid-index-exists"
            };
            if ctx.known_hit(sig) {
                return Ok(true);
            }
            vfail!(sig, "{what}: returned {e:?} although index {jx:?} >= start {j0:?} yields a valid address (causes at start: {:?})", rf.first)
        }
        (Err(e), None) => {
            let exhausted = matches!(e, AGE::DiversifierSpaceExhausted);
            if exhausted {
                vensure!(rf.hit_end, "find-address-exhausted-early", "{what}: DiversifierSpaceExhausted although the search from {j0:?} stops on {:?} before the end of the index space", rf.causes);
            } else {
                vensure!(rf.causes.iter().any(|c| err_fits(e, *c, j0, false)), "find-address-error-variant", "{what}: error {e:?} names none of the causes {:?} (start {j0:?}, hit_end={})", rf.causes, rf.hit_end);
            }
            Ok(false)
        }
    }
}

fn check_commutation(ctx: &Ctx, c: &CommCase) -> CaseResult {
    let rk = ref_keys(&c.ks)?;
    let sut = build_sut(&c.ks, &rk)?;
    let comp = comp_effective(c.comp, sut.has_t);
    let shielded = comp.s || comp.o;
    let j = c.j.resolve(&rk.dfvk);
    let Some(request) = build_request(c.req)? else {
        return Ok(Obs::trivial().label("request-refused-by-constructor"));
    };
    let uivk = subset_uivk(&sut, comp)?;
    let ufvk = if shielded { Some(subset_ufvk(&sut, comp)?) } else { None };
    vensure!(uivk.has_orchard() == comp.o && uivk.has_sapling() == comp.s && uivk.has_transparent() == comp.t, "uivk-items", "UIVK items differ from the UFVK items {comp:?}");

    // --- address(j, request) at every level vs the reference
    let ex = expect_at(&rk, comp, c.req, j)?;
    let what = format!("{:?} {comp:?} {:?} j={j:?}", NET_TYPES[rk.net_i], c.req);
    let got_i = catch(|| uivk.address(j, request)).map_err(|p| Fail::new("address-panic", format!("uivk.address panicked: {p} ({what})")))?;
    check_address_result(&got_i, &ex, j, &format!("uivk.address {what}"))?;
    if let Some(ufvk) = &ufvk {
        let got_f = catch(|| ufvk.address(j, request)).map_err(|p| Fail::new("address-panic", format!("ufvk.address panicked: {p} ({what})")))?;
        check_address_result(&got_f, &ex, j, &format!("ufvk.address {what}"))?;
        vensure!(same_result(&got_f, &got_i), "address-levels-differ", "{what}: ufvk.address = {got_f:?}, uivk.address = {got_i:?}");
    }
    if comp == (Comp { t: true, s: true, o: true }) {
        // the full chain usk -> ufvk -> uivk, untouched by test constructors
        let got = catch(|| sut.ufvk_full.to_unified_incoming_viewing_key().address(j, request)).map_err(|p| Fail::new("address-panic", p))?;
        vensure!(same_result(&got, &got_i), "address-levels-differ", "{what}: usk->ufvk->uivk address = {got:?}, rebuilt key = {got_i:?}");
    }
    if comp.s && !comp.o && !comp.t && shielded {
        // Sapling-only key through the legacy constructor
        #[allow(deprecated)]
        let extfvk = rk.extsk.to_extended_full_viewing_key();
        let k = Ufvk::from_sapling_extended_full_viewing_key(extfvk)
            .map_err(|e| Fail::new("ufvk-new-fails", format!("from_sapling_extended_full_viewing_key: {e:?}")))?;
        let got = catch(|| k.address(j, request)).map_err(|p| Fail::new("address-panic", p))?;
        vensure!(same_result(&got, &got_i), "address-levels-differ", "{what}: from_sapling_extended_full_viewing_key address = {got:?}, other = {got_i:?}");
    }
    // receiver_requirements: Ok exactly when no required item is missing
    {
        let r = catch(|| uivk.receiver_requirements(request)).map_err(|p| Fail::new("receiver-requirements-panic", p))?;
        let (ro, rs, rp) = effective_req(c.req, comp);
        let missing = (ro == Rq::Require && !comp.o) || (rs == Rq::Require && !comp.s) || (rp == Rq::Require && !comp.t);
        let none_shielded = c.req == ReqSpec::AllAvailable && !shielded;
        match r {
            Ok(rr) => {
                vensure!(!missing && !none_shielded, "receiver-requirements", "{what}: receiver_requirements accepted a request the key cannot satisfy");
                vensure!(rr.orchard() == ro.rr() && rr.sapling() == rs.rr() && rr.p2pkh() == rp.rr(), "receiver-requirements", "{what}: receiver_requirements = {rr:?}, reference ({ro:?},{rs:?},{rp:?})");
            }
            Err(e) => vensure!(missing || none_shielded, "receiver-requirements", "{what}: receiver_requirements rejected a satisfiable request: {e:?}"),
        }
    }

    // --- find_address(j, request): least valid index >= j
    let rf = ref_find(&rk, comp, c.req, j)?;
    let mut known = false;
    let found_i = catch(|| uivk.find_address(j, request)).map_err(|p| Fail::new("find-address-panic", format!("uivk.find_address panicked: {p} ({what})")))?;
    known |= check_find_result(ctx, &found_i, &rf, j, &format!("uivk.find_address {what}"))?;
    if let Some(ufvk) = &ufvk {
        let found_f = catch(|| ufvk.find_address(j, request)).map_err(|p| Fail::new("find-address-panic", format!("ufvk.find_address panicked: {p} ({what})")))?;
        vensure!(same_result(&found_f, &found_i), "find-address-levels-differ", "{what}: ufvk.find_address = {found_f:?}, uivk.find_address = {found_i:?}");
    }
    let mut skipped = 0u64;
    if let Ok((_, jr)) = &found_i {
        // every index in [j, jr) must really be unusable (implementation-level minimality)
        let mut k = j;
        while k < *jr && skipped < SCAN_LIMIT as u64 {
            let r = catch(|| uivk.address(k, request)).map_err(|p| Fail::new("address-panic", p))?;
            vensure!(r.is_err(), "find-address-skips-valid-index", "{what}: find_address returned {jr:?} but address({k:?}) succeeds");
            skipped += 1;
            if k.increment().is_err() {
                break;
            }
        }
    }

    // --- default_address(request) == find_address(0, request)
    let rf0 = ref_find(&rk, comp, c.req, DiversifierIndex::new())?;
    let def_i = catch(|| uivk.default_address(request)).map_err(|p| Fail::new("default-address-panic", p))?;
    known |= check_find_result(ctx, &def_i, &rf0, DiversifierIndex::new(), &format!("uivk.default_address {what}"))?;
    if let Some(ufvk) = &ufvk {
        let def_f = catch(|| ufvk.default_address(request)).map_err(|p| Fail::new("default-address-panic", p))?;
        vensure!(same_result(&def_f, &def_i), "find-address-levels-differ", "{what}: ufvk.default_address = {def_f:?}, uivk = {def_i:?}");
    }
    if let (Some(usk), Some((jx, exx)), true) = (&sut.usk, &rf0.found, def_i.is_ok()) {
        if c.comp == (Comp { t: true, s: true, o: true }) {
            // test-dependencies helper; unwraps internally, so only called where an address exists
            let (ua, jd) = catch(|| usk.default_address(request)).map_err(|p| Fail::new("default-address-panic", format!("usk.default_address panicked although index {jx:?} is valid: {p}")))?;
            vensure!(jd == *jx, "find-address-not-least", "{what}: usk.default_address index {jd:?}, least valid {jx:?}");
            check_ua_matches(&ua, exx, "find-address-receivers-differ", "usk.default_address")?;
        }
    }
    // default transparent address = external child 0 (BIP 44 .../0/0)
    if comp.t {
        let want = TransparentAddress::PublicKeyHash(rk.t_addr(0, 0)?);
        let got = catch(|| uivk.default_transparent_address()).map_err(|p| Fail::new("default-transparent-panic", p))?;
        vensure!(got == Some((want, NonHardenedChildIndex::ZERO)), "default-transparent-address", "{what}: uivk.default_transparent_address = {got:?}, reference {want:?} at 0");
        if let Some(usk) = &sut.usk {
            vensure!(usk.default_transparent_address() == (want, NonHardenedChildIndex::ZERO), "default-transparent-address", "usk.default_transparent_address differs from m/44'/coin'/acct'/0/0");
        }
    }

    let jv = u128::from(j);
    let mut key = rk.seed.clone();
    key.extend_from_slice(&c.ks.account.to_le_bytes());
    key.push(rk.net_i as u8);
    key.extend_from_slice(format!("{comp:?}{:?}", c.req).as_bytes());
    key.extend_from_slice(j.as_bytes());
    let (ro, rs, rp) = effective_req(c.req, comp);
    Ok(Obs::new(ex.mismatch || ex.sapling_invalid)
        .key(hash64(&key))
        .label(NET_LABEL[rk.net_i])
        .label(if ex.errs.is_empty() { "address:ok" } else { "address:err" })
        .label_if(ex.mismatch, "request-differs-from-key")
        .label_if(ex.sapling_invalid, "j:sapling-invalid")
        .label_if(ex.errs.contains(&ErrClass::SaplingInvalid), "err:sapling-invalid-index")
        .label_if(ex.errs.contains(&ErrClass::TransparentInvalid), "err:transparent-invalid-index")
        .label_if(ex.errs.contains(&ErrClass::NoShielded), "err:no-shielded-receiver")
        .label_if(ex.errs.iter().any(|e| matches!(e, ErrClass::Absent(_))), "err:required-item-absent")
        .label_if(matches!(got_i, Err(AGE::ShieldedReceiverRequired)) && ex.errs.iter().any(|e| matches!(e, ErrClass::Absent(_))) && !ex.errs.contains(&ErrClass::NoShielded), "observed:absent-item-reported-as-ShieldedReceiverRequired")
        .label_if(jv >= TWO31, "j>=2^31")
        .label_if(jv >= (1 << 32), "j>=2^32")
        .label_if(jv > MAX88 - 8, "j:near-2^88")
        .label_if(rf.hit_end, "find:space-exhausted")
        .label_if(matches!(&rf.found, Some((jx, _)) if *jx != j), "find:searched")
        .label_if(rf.found.is_none(), "find:none")
        .label_if(known, "known-finding-stepped-over")
        .label_if(c.req == ReqSpec::AllAvailable, "req:all-available")
        .label_if(ro == Rq::Allow || rs == Rq::Allow || rp == Rq::Allow, "req:has-allow")
        .label_if(!sut.has_t, "seed-length-not-32-or-64")
        .label_if(!shielded, "key:transparent-only")
        .label(match (comp.t, comp.s, comp.o) {
            (true, true, true) => "key:t+s+o",
            (false, true, false) => "key:s",
            (false, false, true) => "key:o",
            (false, true, true) => "key:s+o",
            (true, true, false) => "key:t+s",
            (true, false, true) => "key:t+o",
            _ => "key:t",
        })
        .count("indices-skipped-by-find", skipped))
}

// ---------------------------------------------------------------------------------------------
// Sub-check: encodings
// ---------------------------------------------------------------------------------------------

#[derive(Clone, Debug)]
struct EncCase {
    ks: KeySpec,
    comp: Comp,
    req: ReqSpec,
    js: Vec<JSpec>,
    /// unknown items to splice into unified viewing keys: (typecode, length, fill)
    unknown: Vec<(u32, u8, u64)>,
    wrong_era: u32,
    cuts: Vec<u16>,
    flips: Vec<(u16, u8)>,
    script_hash: bool,
}

fn arb_unknown_typecode() -> impl Strategy<Value = u32> {
    // outside the ranges ZIP 316 reserves for known items / metadata
    prop_oneof![3 => 4u32..0xE0, 2 => 0x100u32..0xFFF0, 1 => select(vec![4u32, 0xDF, 0x100, 0xFFEF])]
}

fn arb_enc_case() -> impl Strategy<Value = EncCase> {
    (
        arb_keyspec(false),
        arb_comp(),
        arb_req(),
        proptest::collection::vec(arb_jspec(), 1..4),
        proptest::collection::vec((arb_unknown_typecode(), 1u8..80, any::<u64>()), 0..3),
        prop_oneof![
            2 => any::<u32>(),
            // other real branch ids: Sapling, Blossom, Heartwood, Canopy, NU6; and near misses
            2 => select(vec![0x76b8_09bbu32, 0x2bb4_0e60, 0xf5b9_230b, 0xe9ff_75a6, 0xc8e7_1055, 0, NU5_BRANCH_ID ^ 1, NU5_BRANCH_ID.swap_bytes()]),
        ],
        proptest::collection::vec(0u16..283, 1..5),
        proptest::collection::vec((0u16..283, 1u8..=255), 0..3),
        any::<bool>(),
    )
        .prop_map(|(ks, comp, req, js, unknown, wrong_era, cuts, flips, script_hash)| EncCase { ks, comp, req, js, unknown, wrong_era, cuts, flips, script_hash })
}

fn bech32_payload(s: &str) -> Option<(String, Vec<u8>)> {
    let p = bech32::primitives::decode::CheckedHrpstring::new::<bech32::Bech32>(s).ok()?;
    Some((p.hrp().as_str().to_string(), p.byte_iter().collect()))
}

fn addr_results(k: &Uivk, js: &[DiversifierIndex], request: UAR) -> Result<Vec<String>, Fail> {
    let mut v = vec![];
    for j in js {
        let a = catch(|| k.address(*j, request)).map_err(|p| Fail::new("address-panic", p))?;
        let f = catch(|| k.find_address(*j, request)).map_err(|p| Fail::new("find-address-panic", p))?;
        v.push(format!("{a:?} / {f:?}"));
    }
    Ok(v)
}

fn check_encodings(ctx: &Ctx, c: &EncCase) -> CaseResult {
    let rk = ref_keys(&c.ks)?;
    let sut = build_sut(&c.ks, &rk)?;
    let ni = rk.net_i;
    let net = sut.net;
    let others: Vec<usize> = (0..3).filter(|i| *i != ni).collect();
    let js: Vec<DiversifierIndex> = c.js.iter().map(|j| j.resolve(&rk.dfvk)).collect();
    let request = build_request(c.req)?.unwrap_or(UAR::AllAvailableKeys);
    let mut labels: Vec<&'static str> = vec![NET_LABEL[ni]];

    // ---- unified spending key bytes (era) ----
    if let Some(usk) = &sut.usk {
        let bytes = catch(|| usk.to_bytes(Era::Orchard)).map_err(|p| Fail::new("usk-to-bytes-panic", p))?;
        vensure_eq!(bytes.len(), 4 + (2 + 32) + (2 + 169) + (2 + 74), "usk-encoding-length", "USK encoding length");
        vensure!(bytes[..4] == NU5_BRANCH_ID.to_le_bytes(), "usk-era-id", "USK era identifier {} is not the NU5 branch id", hx(&bytes[..4]));
        let back = catch(|| Usk::from_bytes(Era::Orchard, &bytes))
            .map_err(|p| Fail::new("usk-from-bytes-panic", p))?
            .map_err(|e| Fail::new("usk-roundtrip-rejected", format!("from_bytes(to_bytes(usk)) = {e:?} for {:?}", c.ks)))?;
        vensure!(back.to_bytes(Era::Orchard) == bytes, "usk-roundtrip-reencode", "USK re-encoding differs for {:?}", c.ks);
        vensure!(back.sapling() == usk.sapling() && back.orchard().to_bytes() == usk.orchard().to_bytes() && back.transparent().to_bytes() == usk.transparent().to_bytes(), "usk-roundtrip-components", "decoded USK has other components for {:?}", c.ks);
        let a = addr_results(&usk.to_unified_full_viewing_key().to_unified_incoming_viewing_key(), &js, request)?;
        let b = addr_results(&back.to_unified_full_viewing_key().to_unified_incoming_viewing_key(), &js, request)?;
        vensure!(a == b, "usk-roundtrip-addresses", "decoded USK derives other addresses: {a:?} vs {b:?}");
        // a different era identifier must be refused
        if c.wrong_era != NU5_BRANCH_ID {
            let mut w = bytes.clone();
            w[..4].copy_from_slice(&c.wrong_era.to_le_bytes());
            match catch(|| Usk::from_bytes(Era::Orchard, &w)).map_err(|p| Fail::new("usk-from-bytes-panic", p))? {
                Err(DecodingError::EraInvalid) | Err(DecodingError::EraMismatch(_)) => {}
                Err(e) => vfail!("usk-era-error-variant", "era id {:#x}: unexpected error {e:?}", c.wrong_era),
                Ok(_) => vfail!("usk-era-ignored", "from_bytes(Era::Orchard) accepted an encoding tagged with era id {:#010x}", c.wrong_era),
            }
            labels.push("usk:wrong-era");
        }
        // every strict prefix is an error, never a panic
        for cut in &c.cuts {
            let cut = (*cut as usize).min(bytes.len() - 1);
            match catch(|| Usk::from_bytes(Era::Orchard, &bytes[..cut])).map_err(|p| Fail::new("usk-from-bytes-panic", format!("prefix of {cut} bytes: {p}")))? {
                Err(_) => {}
                Ok(_) => vfail!("usk-truncated-accepted", "from_bytes accepted a {cut}-byte prefix of a {}-byte encoding", bytes.len()),
            }
        }
        // corrupted bytes: no panic; if accepted, the result must re-encode to what was given
        if !c.flips.is_empty() {
            let mut w = bytes.clone();
            for (pos, x) in &c.flips {
                let p = 4 + (*pos as usize) % (w.len() - 4);
                w[p] ^= *x;
            }
            match catch(|| Usk::from_bytes(Era::Orchard, &w)) {
                Ok(Ok(k)) => {
                    vensure!(k.to_bytes(Era::Orchard) == w, "usk-corrupted-not-canonical", "from_bytes accepted {} but re-encodes to {}", hx(&w), hx(&k.to_bytes(Era::Orchard)));
                    labels.push("usk:corrupted-accepted");
                }
                Ok(Err(_)) => labels.push("usk:corrupted-rejected"),
                Err(p) => {
                    let sig = format!("usk-from-bytes-panic:{}", site(&p));
                    if !(beyond_property(&sig) || ctx.known_hit(&sig)) {
                        vfail!(sig, "UnifiedSpendingKey::from_bytes panicked on the corrupted encoding {} (flips {:?}): {p}", hx(&w), c.flips);
                    }
                    labels.push("known-finding-stepped-over");
                }
            }
        }
        labels.push("usk");
    }

    // ---- unified full viewing key ----
    let comp = {
        let mut k = comp_effective(c.comp, sut.has_t);
        if !k.s && !k.o {
            k.s = true; // a UFVK needs a shielded item
        }
        k
    };
    let ufvk = subset_ufvk(&sut, comp)?;
    let uivk = catch(|| ufvk.to_unified_incoming_viewing_key()).map_err(|p| Fail::new("to-uivk-panic", p))?;
    let want_addrs = addr_results(&uivk, &js, request)?;
    let s_fvk = catch(|| ufvk.encode(&net)).map_err(|p| Fail::new("ufvk-encode-panic", p))?;
    vensure!(s_fvk.starts_with(&format!("{}1", HRP_UFVK[ni])), "ufvk-hrp", "UFVK for {:?} starts {:?}", NET_TYPES[ni], &s_fvk[..16]);
    {
        // the items are exactly the raw encodings of the reference keys
        let (n, raw) = unified::Ufvk::decode(&s_fvk).map_err(|e| Fail::new("ufvk-roundtrip-rejected", format!("zcash_address rejects the UFVK string: {e:?}")))?;
        vensure_eq!(n, NET_TYPES[ni], "ufvk-network", "network in the UFVK string");
        let mut want: Vec<unified::Fvk> = vec![];
        if comp.t {
            want.push(unified::Fvk::P2pkh(rk.t_acct.pub65()));
        }
        if comp.s {
            want.push(unified::Fvk::Sapling(rk.dfvk.to_bytes()));
        }
        if comp.o {
            want.push(unified::Fvk::Orchard(rk.ofvk.to_bytes()));
        }
        vensure!(raw.items_as_parsed() == want.as_slice(), "ufvk-items", "UFVK items {:?} differ from the reference keys {want:?}", raw.items_as_parsed());
    }
    let back = catch(|| Ufvk::decode(&net, &s_fvk))
        .map_err(|p| Fail::new("ufvk-decode-panic", p))?
        .map_err(|e| Fail::new("ufvk-roundtrip-rejected", format!("decode(encode(ufvk)) on {:?}: {e}", NET_TYPES[ni])))?;
    vensure!(back.encode(&net) == s_fvk, "ufvk-roundtrip-reencode", "UFVK re-encoding differs");
    vensure!(back.subsumes_ufvk(&ufvk) && ufvk.subsumes_ufvk(&back), "ufvk-roundtrip-components", "decoded UFVK is not equivalent to the original");
    vensure!(back.sapling().map(|k| k.to_bytes()) == ufvk.sapling().map(|k| k.to_bytes()) && back.orchard().map(|k| k.to_bytes()) == ufvk.orchard().map(|k| k.to_bytes()) && back.transparent().map(|k| k.serialize()) == ufvk.transparent().map(|k| k.serialize()), "ufvk-roundtrip-components", "decoded UFVK has other items");
    let got_addrs = addr_results(&back.to_unified_incoming_viewing_key(), &js, request)?;
    vensure!(got_addrs == want_addrs, "ufvk-roundtrip-addresses", "decoded UFVK derives other addresses: {got_addrs:?} vs {want_addrs:?}");
    for o in &others {
        let r = catch(|| Ufvk::decode(&net_of(*o), &s_fvk)).map_err(|p| Fail::new("ufvk-decode-panic", p))?;
        vensure!(r.is_err(), "ufvk-wrong-network-accepted", "UFVK of {:?} decoded with {:?} parameters", NET_TYPES[ni], NET_TYPES[*o]);
    }

    // ---- unified incoming viewing key ----
    let s_ivk = catch(|| uivk.encode(&net)).map_err(|p| Fail::new("uivk-encode-panic", p))?;
    vensure!(s_ivk.starts_with(&format!("{}1", HRP_UIVK[ni])), "uivk-hrp", "UIVK for {:?} starts {:?}", NET_TYPES[ni], &s_ivk[..16]);
    {
        let (n, raw) = unified::Uivk::decode(&s_ivk).map_err(|e| Fail::new("uivk-roundtrip-rejected", format!("zcash_address rejects the UIVK string: {e:?}")))?;
        vensure_eq!(n, NET_TYPES[ni], "uivk-network", "network in the UIVK string");
        let mut want: Vec<unified::Ivk> = vec![];
        if comp.t {
            // BIP 44 external chain m/44'/coin'/account'/0
            want.push(unified::Ivk::P2pkh(rk.t_acct.child(0).ok_or_else(|| skip("bip32 external"))?.pub65()));
        }
        if comp.s {
            want.push(unified::Ivk::Sapling(rk.dfvk.to_external_ivk().to_bytes()));
        }
        if comp.o {
            want.push(unified::Ivk::Orchard(rk.ofvk.to_ivk(Scope::External).to_bytes()));
        }
        vensure!(raw.items_as_parsed() == want.as_slice(), "uivk-items", "UIVK items {:?} differ from the external-scope reference keys {want:?}", raw.items_as_parsed());
    }
    let back_i = catch(|| Uivk::decode(&net, &s_ivk))
        .map_err(|p| Fail::new("uivk-decode-panic", p))?
        .map_err(|e| Fail::new("uivk-roundtrip-rejected", format!("decode(encode(uivk)) on {:?}: {e}", NET_TYPES[ni])))?;
    vensure!(back_i.encode(&net) == s_ivk, "uivk-roundtrip-reencode", "UIVK re-encoding differs");
    vensure!(
        back_i.sapling().as_ref().map(|k| k.to_bytes()) == uivk.sapling().as_ref().map(|k| k.to_bytes())
            && back_i.orchard().as_ref().map(|k| k.to_bytes()) == uivk.orchard().as_ref().map(|k| k.to_bytes())
            && back_i.transparent().as_ref().map(|k| k.serialize()) == uivk.transparent().as_ref().map(|k| k.serialize()),
        "uivk-roundtrip-components",
        "decoded UIVK has other items"
    );
    {
        // a decoded copy of a key is the same key: equal, and subsumed by the UFVK it came from
        let eq = back_i == uivk;
        let sub = ufvk.subsumes_uivk(&back_i);
        if !(eq && sub) {
            let strip = |k: &Uivk| Uivk::new(None, k.sapling().clone(), k.orchard().clone());
            if comp.t && strip(&back_i) == strip(&uivk) && subset_ufvk(&sut, Comp { t: false, ..comp })?.subsumes_uivk(&strip(&back_i)) {
                // only the transparent item "differs", although its bytes are identical (checked above)
                let sig = "uivk-decoded-transparent-item-not-equal";
                if !(beyond_property(sig) || ctx.known_hit(sig)) {
                    vfail!(sig, "decode(encode(uivk)) == uivk: {eq}; ufvk.subsumes_uivk(decoded): {sub}; the items are byte-identical and the keys are equal once the transparent item is removed ({:?})", c.ks);
                }
                labels.push("known-finding-stepped-over");
            } else {
                vfail!("uivk-roundtrip-equality", "decode(encode(uivk)) == uivk: {eq}; ufvk.subsumes_uivk(decoded): {sub} ({comp:?})");
            }
        }
    }
    let got_addrs = addr_results(&back_i, &js, request)?;
    vensure!(got_addrs == want_addrs, "uivk-roundtrip-addresses", "decoded UIVK derives other addresses: {got_addrs:?} vs {want_addrs:?}");
    for o in &others {
        let r = catch(|| Uivk::decode(&net_of(*o), &s_ivk)).map_err(|p| Fail::new("uivk-decode-panic", p))?;
        vensure!(r.is_err(), "uivk-wrong-network-accepted", "UIVK of {:?} decoded with {:?} parameters", NET_TYPES[ni], NET_TYPES[*o]);
    }

    // ---- viewing keys carrying unknown items: strings must survive decode -> encode ----
    if !c.unknown.is_empty() {
        let mut seen = BTreeSet::new();
        let unk: Vec<(u32, Vec<u8>)> = c
            .unknown
            .iter()
            .filter(|(t, _, _)| seen.insert(*t))
            .map(|(t, l, f)| (*t, expand(2, *f, *l as usize, b"c11-unknown")))
            .collect();
        let (_, raw) = unified::Ufvk::decode(&s_fvk).map_err(|e| skip(&format!("{e:?}")))?;
        let mut items: Vec<unified::Fvk> = raw.items_as_parsed().to_vec();
        items.extend(unk.iter().map(|(t, d)| unified::Fvk::Unknown { typecode: *t, data: d.clone() }));
        let with = unified::Ufvk::try_from_items(items).map_err(|e| Fail::new("harness-bug", format!("try_from_items: {e:?}")))?;
        let s = with.encode(&NET_TYPES[ni]);
        let k = catch(|| Ufvk::decode(&net, &s))
            .map_err(|p| Fail::new("ufvk-decode-panic", p))?
            .map_err(|e| Fail::new("ufvk-unknown-items-rejected", format!("UFVK with unknown items {:?} rejected: {e}", unk.iter().map(|u| u.0).collect::<Vec<_>>())))?;
        let s2 = catch(|| k.encode(&net)).map_err(|p| Fail::new("ufvk-encode-panic", p))?;
        vensure!(s2 == s, "ufvk-unknown-items-not-preserved", "UFVK with unknown typecodes {:?}: encode(decode(s)) != s", unk.iter().map(|u| u.0).collect::<Vec<_>>());
        let got_addrs = addr_results(&k.to_unified_incoming_viewing_key(), &js, request)?;
        vensure!(got_addrs == want_addrs, "ufvk-roundtrip-addresses", "UFVK with unknown items derives other addresses");
        vensure!(k.subsumes_ufvk(&ufvk) && !ufvk.subsumes_ufvk(&k), "ufvk-unknown-items-subsume", "subsumes_ufvk ignores unknown items");

        let (_, raw) = unified::Uivk::decode(&s_ivk).map_err(|e| skip(&format!("{e:?}")))?;
        let mut items: Vec<unified::Ivk> = raw.items_as_parsed().to_vec();
        items.extend(unk.iter().map(|(t, d)| unified::Ivk::Unknown { typecode: *t, data: d.clone() }));
        let with = unified::Uivk::try_from_items(items).map_err(|e| Fail::new("harness-bug", format!("try_from_items: {e:?}")))?;
        let s = with.encode(&NET_TYPES[ni]);
        let k = catch(|| Uivk::decode(&net, &s))
            .map_err(|p| Fail::new("uivk-decode-panic", p))?
            .map_err(|e| Fail::new("uivk-unknown-items-rejected", format!("UIVK with unknown items rejected: {e}")))?;
        let s2 = catch(|| k.encode(&net)).map_err(|p| Fail::new("uivk-encode-panic", p))?;
        vensure!(s2 == s, "uivk-unknown-items-not-preserved", "UIVK with unknown typecodes {:?}: encode(decode(s)) != s", unk.iter().map(|u| u.0).collect::<Vec<_>>());
        let got_addrs = addr_results(&k, &js, request)?;
        vensure!(got_addrs == want_addrs, "uivk-roundtrip-addresses", "UIVK with unknown items derives other addresses");
        // (compared with the decoded copy: both sides then carry the same BIP 32 metadata)
        vensure!(k.subsumes(&back_i) && !back_i.subsumes(&k) && k != back_i, "uivk-unknown-items-subsume", "subsumes/eq ignore unknown items");
        labels.push("with-unknown-items");
    }

    // ---- unified address strings ----
    let mut ua_seen = 0u64;
    for j in &js {
        if let Ok(ua) = uivk.address(*j, request) {
            let s = catch(|| ua.encode(&net)).map_err(|p| Fail::new("ua-encode-panic", p))?;
            vensure!(s.starts_with(&format!("{}1", HRP_UA[ni])), "ua-hrp", "UA for {:?} starts {:?}", NET_TYPES[ni], &s[..12]);
            vensure!(Address::decode(&net, &s) == Some(Address::Unified(ua.clone())), "ua-roundtrip", "Address::decode(encode(ua)) != ua for {ua:?}");
            vensure!(<UnifiedAddress as AddressCodec<AnyNet>>::decode(&net, &s).ok() == Some(ua.clone()), "ua-roundtrip", "UnifiedAddress::decode(encode(ua)) != ua");
            vensure!(Address::Unified(ua.clone()).encode(&net) == s && <UnifiedAddress as AddressCodec<AnyNet>>::encode(&ua, &net) == s, "ua-roundtrip-reencode", "the three UA encoders disagree");
            for o in &others {
                vensure!(Address::decode(&net_of(*o), &s).is_none(), "ua-wrong-network-accepted", "UA of {:?} decoded with {:?}", NET_TYPES[ni], NET_TYPES[*o]);
                vensure!(<UnifiedAddress as AddressCodec<AnyNet>>::decode(&net_of(*o), &s).is_err(), "ua-wrong-network-accepted", "UA of {:?} decoded with {:?} (AddressCodec)", NET_TYPES[ni], NET_TYPES[*o]);
            }
            ua_seen += 1;
        }
    }

    // ---- legacy Sapling encodings ----
    {
        let hrp = net.hrp_sapling_extended_spending_key();
        vensure_eq!(hrp, HRP_EXTSK[ni], "sapling-hrp", "extsk HRP");
        let s = enc::encode_extended_spending_key(hrp, &rk.extsk);
        let (h, payload) = bech32_payload(&s).ok_or_else(|| Fail::new("extsk-not-bech32", format!("{s} is not Bech32")))?;
        vensure!(h == HRP_EXTSK[ni] && payload == rk.extsk.to_bytes().to_vec(), "extsk-encoding", "extsk string does not carry the ZIP 32 serialization under {:?}", HRP_EXTSK[ni]);
        let back = catch(|| enc::decode_extended_spending_key(hrp, &s)).map_err(|p| Fail::new("extsk-decode-panic", p))?;
        vensure!(back.as_ref().ok() == Some(&rk.extsk), "extsk-roundtrip", "decode(encode(extsk)) = {back:?}");
        vensure!(enc::encode_extended_spending_key(hrp, back.as_ref().unwrap()) == s, "extsk-roundtrip-reencode", "extsk re-encoding differs");
        vensure!(back.unwrap().to_diversifiable_full_viewing_key().to_bytes() == rk.dfvk.to_bytes(), "extsk-roundtrip-addresses", "decoded extsk has another viewing key");
        for o in &others {
            match enc::decode_extended_spending_key(HRP_EXTSK[*o], &s) {
                Err(Bech32DecodeError::HrpMismatch { expected, actual }) => vensure!(expected == HRP_EXTSK[*o] && actual == HRP_EXTSK[ni], "sapling-hrp-mismatch-fields", "HrpMismatch {{ {expected}, {actual} }}"),
                r => vfail!("extsk-wrong-network-accepted", "extsk of {:?} decoded for {:?}: {r:?}", NET_TYPES[ni], NET_TYPES[*o]),
            }
        }

        // a corrupted key inside a well-formed Bech32 string: an error or a canonical key, never a panic
        if !c.flips.is_empty() {
            let mut w = rk.extsk.to_bytes();
            for (pos, x) in &c.flips {
                w[*pos as usize % 169] ^= *x;
            }
            let s = bech32::encode::<bech32::Bech32>(bech32::Hrp::parse_unchecked(HRP_EXTSK[ni]), &w).map_err(|e| skip(&format!("{e}")))?;
            match catch(|| enc::decode_extended_spending_key(HRP_EXTSK[ni], &s)) {
                Ok(Ok(k)) => vensure!(k.to_bytes() == w, "extsk-corrupted-not-canonical", "decode accepted the key bytes {} but holds {}", hx(&w), hx(&k.to_bytes())),
                Ok(Err(_)) => {}
                Err(p) => {
                    let sig = format!("extsk-decode-panic:{}", site(&p));
                    if !(beyond_property(&sig) || ctx.known_hit(&sig)) {
                        vfail!(sig, "decode_extended_spending_key panicked on key bytes {} (flips {:?}): {p}", hx(&w), c.flips);
                    }
                    labels.push("known-finding-stepped-over");
                }
            }
        }

        #[allow(deprecated)]
        let extfvk: ExtendedFullViewingKey = rk.extsk.to_extended_full_viewing_key();
        let hrp = net.hrp_sapling_extended_full_viewing_key();
        vensure_eq!(hrp, HRP_EXTFVK[ni], "sapling-hrp", "extfvk HRP");
        let s = enc::encode_extended_full_viewing_key(hrp, &extfvk);
        let mut ser = vec![];
        extfvk.write(&mut ser).map_err(|e| skip(&format!("{e}")))?;
        let (h, payload) = bech32_payload(&s).ok_or_else(|| Fail::new("extfvk-not-bech32", format!("{s} is not Bech32")))?;
        vensure!(h == HRP_EXTFVK[ni] && payload == ser, "extfvk-encoding", "extfvk string does not carry the ZIP 32 serialization under {:?}", HRP_EXTFVK[ni]);
        let back = catch(|| enc::decode_extended_full_viewing_key(hrp, &s)).map_err(|p| Fail::new("extfvk-decode-panic", p))?;
        vensure!(back.as_ref().ok() == Some(&extfvk), "extfvk-roundtrip", "decode(encode(extfvk)) = {back:?}");
        let back = back.unwrap();
        vensure!(enc::encode_extended_full_viewing_key(hrp, &back) == s, "extfvk-roundtrip-reencode", "extfvk re-encoding differs");
        let wn = catch(|| enc::decode_extfvk_with_network(&s)).map_err(|p| Fail::new("extfvk-decode-panic", p))?;
        vensure!(wn.as_ref().ok() == Some(&(NET_TYPES[ni], extfvk.clone())), "extfvk-with-network", "decode_extfvk_with_network = {wn:?}, want {:?}", NET_TYPES[ni]);
        for o in &others {
            match enc::decode_extended_full_viewing_key(HRP_EXTFVK[*o], &s) {
                Err(Bech32DecodeError::HrpMismatch { expected, actual }) => vensure!(expected == HRP_EXTFVK[*o] && actual == HRP_EXTFVK[ni], "sapling-hrp-mismatch-fields", "HrpMismatch {{ {expected}, {actual} }}"),
                r => vfail!("extfvk-wrong-network-accepted", "extfvk of {:?} decoded for {:?}: {r:?}", NET_TYPES[ni], NET_TYPES[*o]),
            }
        }
        // payment addresses at the sampled indices; the decoded extfvk derives the same ones
        let hrp = net.hrp_sapling_payment_address();
        vensure_eq!(hrp, HRP_PA[ni], "sapling-hrp", "payment address HRP");
        for j in &js {
            let a = rk.dfvk.address(*j);
            vensure!(back.address(*j) == a && back.to_diversifiable_full_viewing_key().address(*j) == a, "extfvk-roundtrip-addresses", "decoded extfvk derives another address at {j:?}");
            let Some(pa) = a else { continue };
            let s = enc::encode_payment_address(hrp, &pa);
            let (h, payload) = bech32_payload(&s).ok_or_else(|| Fail::new("payment-address-not-bech32", format!("{s} is not Bech32")))?;
            vensure!(h == HRP_PA[ni] && payload == pa.to_bytes().to_vec(), "payment-address-encoding", "Sapling address string does not carry the raw address under {:?}", HRP_PA[ni]);
            vensure!(enc::encode_payment_address_p(&net, &pa) == s && <PaymentAddress as AddressCodec<AnyNet>>::encode(&pa, &net) == s, "payment-address-encoders-differ", "payment address encoders disagree");
            vensure!(enc::decode_payment_address(hrp, &s) == Ok(pa) && <PaymentAddress as AddressCodec<AnyNet>>::decode(&net, &s) == Ok(pa), "payment-address-roundtrip", "decode(encode(pa)) != pa");
            vensure!(Address::decode(&net, &s) == Some(Address::Sapling(pa)) && Address::Sapling(pa).encode(&net) == s, "payment-address-roundtrip", "Address::decode/encode of a Sapling address");
            for o in &others {
                match enc::decode_payment_address(HRP_PA[*o], &s) {
                    Err(Bech32DecodeError::HrpMismatch { .. }) => {}
                    r => vfail!("payment-address-wrong-network-accepted", "Sapling address of {:?} decoded for {:?}: {r:?}", NET_TYPES[ni], NET_TYPES[*o]),
                }
                vensure!(<PaymentAddress as AddressCodec<AnyNet>>::decode(&net_of(*o), &s).is_err() && Address::decode(&net_of(*o), &s).is_none(), "payment-address-wrong-network-accepted", "Sapling address of {:?} decoded with {:?} parameters", NET_TYPES[ni], NET_TYPES[*o]);
            }
        }
    }

    // ---- transparent address and key encodings ----
    {
        let idx = (u128::from(js[0]) % TWO31) as u32;
        let h = rk.t_addr(0, idx)?;
        let (ta, prefix) = if c.script_hash { (TransparentAddress::ScriptHash(h), B58_P2SH[ni]) } else { (TransparentAddress::PublicKeyHash(h), B58_P2PKH[ni]) };
        let s = <TransparentAddress as AddressCodec<AnyNet>>::encode(&ta, &net);
        let raw = bs58::decode(&s).with_check(None).into_vec().map_err(|e| Fail::new("taddr-encoding", format!("{s} is not Base58Check: {e}")))?;
        vensure!(raw.len() == 22 && raw[..2] == prefix && raw[2..] == h, "taddr-encoding", "{s} does not carry {} + {}", hx(&prefix), hx(&h));
        vensure!(enc::encode_transparent_address_p(&net, &ta) == s && enc::encode_transparent_address(&net.b58_pubkey_address_prefix(), &net.b58_script_address_prefix(), &ta) == s && Address::Transparent(ta).encode(&net) == s, "taddr-encoders-differ", "transparent address encoders disagree");
        let d = catch(|| <TransparentAddress as AddressCodec<AnyNet>>::decode(&net, &s)).map_err(|p| Fail::new("taddr-decode-panic", p))?;
        vensure!(d.as_ref().ok() == Some(&ta), "taddr-roundtrip", "decode(encode(taddr)) = {d:?}");
        vensure!(Address::decode(&net, &s) == Some(Address::Transparent(ta)), "taddr-roundtrip", "Address::decode of a transparent address");
        for o in &others {
            // testnet and regtest share the Base58 prefixes (protocol spec); mainnet differs
            let shared = *o != 0 && ni != 0;
            let r = <TransparentAddress as AddressCodec<AnyNet>>::decode(&net_of(*o), &s);
            vensure!(r.is_ok() == shared, "taddr-wrong-network", "taddr of {:?} decoded with {:?}: {r:?}", NET_TYPES[ni], NET_TYPES[*o]);
            vensure!(Address::decode(&net_of(*o), &s).is_some() == shared, "taddr-wrong-network", "Address::decode of a {:?} taddr with {:?}", NET_TYPES[ni], NET_TYPES[*o]);
        }
        if let Some(usk) = &sut.usk {
            let sk = usk.transparent();
            let b = sk.to_bytes();
            let k2 = catch(|| AccountPrivKey::from_bytes(&b)).map_err(|p| Fail::new("account-privkey-decode-panic", p))?.ok_or_else(|| Fail::new("account-privkey-roundtrip", "from_bytes(to_bytes(k)) = None".to_string()))?;
            vensure!(k2.to_bytes() == b, "account-privkey-roundtrip", "AccountPrivKey re-encoding differs");
            let scope = if c.script_hash { TransparentKeyScope::INTERNAL } else { TransparentKeyScope::EXTERNAL };
            let ci = NonHardenedChildIndex::from_index(idx).unwrap();
            vensure!(k2.derive_secret_key(scope, ci).ok() == sk.derive_secret_key(scope, ci).ok(), "account-privkey-roundtrip", "decoded AccountPrivKey derives another child key");
            for cut in &c.cuts {
                let cut = (*cut as usize) % b.len();
                vensure!(catch(|| AccountPrivKey::from_bytes(&b[..cut])).map_err(|p| Fail::new("account-privkey-decode-panic", p))?.is_none(), "account-privkey-truncated-accepted", "AccountPrivKey::from_bytes accepted {cut} bytes");
            }
            let pk = sk.to_account_pubkey();
            let ser: [u8; 65] = pk.serialize().try_into().map_err(|_| Fail::new("account-pubkey-length", "AccountPubKey::serialize is not 65 bytes".to_string()))?;
            let pk2 = AccountPubKey::deserialize(&ser).map_err(|e| Fail::new("account-pubkey-roundtrip", format!("deserialize(serialize(k)): {e:?}")))?;
            vensure!(pk2.serialize() == ser && pk2 == pk, "account-pubkey-roundtrip", "AccountPubKey re-encoding differs");
            let want = TransparentAddress::PublicKeyHash(rk.t_addr(0, idx)?);
            let e1 = pk.derive_external_ivk().map_err(|e| skip(&format!("{e:?}")))?;
            let e2 = pk2.derive_external_ivk().map_err(|e| skip(&format!("{e:?}")))?;
            vensure!(e1.derive_address(ci).ok() == Some(want) && e2.derive_address(ci).ok() == Some(want), "account-pubkey-roundtrip-addresses", "external address {idx} from the (decoded) AccountPubKey differs from BIP 44");
            let es: [u8; 65] = e1.serialize().try_into().map_err(|_| Fail::new("external-ivk-length", "ExternalIvk::serialize is not 65 bytes".to_string()))?;
            let e3 = ExternalIvk::deserialize(&es).map_err(|e| Fail::new("external-ivk-roundtrip", format!("{e:?}")))?;
            vensure!(e3.serialize() == es && e3.derive_address(ci).ok() == Some(want), "external-ivk-roundtrip", "ExternalIvk round trip changes the key");
            if e3 != e1 {
                // same root cause as the UIVK equality finding: derived PartialEq over BIP 32 metadata
                let sig = "uivk-decoded-transparent-item-not-equal";
                if !(beyond_property(sig) || ctx.known_hit(sig)) {
                    vfail!(sig, "ExternalIvk::deserialize(k.serialize()) != k although both serialize identically ({:?})", c.ks);
                }
            }
            let i1 = pk.derive_internal_ivk().map_err(|e| skip(&format!("{e:?}")))?;
            let is: [u8; 65] = i1.serialize().try_into().map_err(|_| Fail::new("internal-ivk-length", "InternalIvk::serialize is not 65 bytes".to_string()))?;
            let i2 = InternalIvk::deserialize(&is).map_err(|e| Fail::new("internal-ivk-roundtrip", format!("{e:?}")))?;
            vensure!(i2.serialize() == is && i2.derive_address(ci).ok() == Some(TransparentAddress::PublicKeyHash(rk.t_addr(1, idx)?)), "internal-ivk-roundtrip", "InternalIvk round trip changes the key");
            labels.push("transparent-keys");
        }
    }

    let mut key = rk.seed.clone();
    key.extend_from_slice(&c.ks.account.to_le_bytes());
    key.push(ni as u8);
    key.extend_from_slice(format!("{comp:?}{:?}{:?}", c.req, c.unknown).as_bytes());
    for j in &js {
        key.extend_from_slice(j.as_bytes());
    }
    // non-trivial: the key's items differ from a full key, unknown items are present, or a sampled
    // index is Sapling-invalid
    let sap_inv = js.iter().any(|j| rk.dfvk.address(*j).is_none());
    let mut o = Obs::new(comp != (Comp { t: true, s: true, o: true }) || !c.unknown.is_empty() || sap_inv)
        .key(hash64(&key))
        .label_if(sap_inv, "j:sapling-invalid")
        .label_if(!sut.has_t, "seed-length-not-32-or-64")
        .label_if(c.ks.seed_kind < 2, "seed:all-zero-or-all-ff")
        .count("unified-addresses-round-tripped", ua_seen);
    for l in labels {
        o = o.label(l);
    }
    Ok(o)
}

// ---------------------------------------------------------------------------------------------
// Sub-check: recognition (diversifier recovery)
// ---------------------------------------------------------------------------------------------

#[derive(Clone, Debug)]
struct RecogCase {
    ks: KeySpec,
    comp: Comp,
    req: ReqSpec,
    j: JSpec,
    /// true: the stranger is another account of the same seed; false: another seed
    stranger_same_seed: bool,
}

fn set_of(j: Option<DiversifierIndex>) -> BTreeSet<DiversifierIndex> {
    j.into_iter().collect()
}

fn check_recognition(ctx: &Ctx, c: &RecogCase) -> CaseResult {
    let rk = ref_keys(&c.ks)?;
    let sut = build_sut(&c.ks, &rk)?;
    let sks = if c.stranger_same_seed { c.ks.other_account() } else { c.ks.other_seed() };
    let srk = ref_keys(&sks)?;
    let ssut = build_sut(&sks, &srk)?;
    let comp = {
        let mut k = comp_effective(c.comp, sut.has_t);
        if !k.s && !k.o {
            k.o = true;
        }
        k
    };
    let j = c.j.resolve(&rk.dfvk);
    let ufvk = subset_ufvk(&sut, comp)?;
    let uivk = ufvk.to_unified_incoming_viewing_key();
    let s_uivk = ssut.ufvk_full.to_unified_incoming_viewing_key();
    let mut labels: Vec<&'static str> = vec![if c.stranger_same_seed { "stranger:other-account" } else { "stranger:other-seed" }];
    let mut nontrivial = false;

    // --- unified level: decrypt_diversifiers on own / foreign addresses
    if let Some(request) = build_request(c.req)? {
        if let Ok((ua, jr)) = catch(|| uivk.find_address(j, request)).map_err(|p| Fail::new("find-address-panic", p))? {
            let got = catch(|| uivk.decrypt_diversifiers(&ua)).map_err(|p| Fail::new("decrypt-diversifiers-panic", p))?;
            vensure!(got == set_of(Some(jr)), "decrypt-diversifiers-own", "decrypt_diversifiers of the key's own address at {jr:?} = {got:?} ({comp:?} {:?})", c.req);
            // the full key of the same account recognises it too (receivers it holds)
            let got_full = sut.ufvk_full.to_unified_incoming_viewing_key().decrypt_diversifiers(&ua);
            vensure!(got_full == set_of(Some(jr)), "decrypt-diversifiers-own", "full key: decrypt_diversifiers = {got_full:?}, want {jr:?}");
            let foreign = catch(|| s_uivk.decrypt_diversifiers(&ua)).map_err(|p| Fail::new("decrypt-diversifiers-panic", p))?;
            vensure!(foreign.is_empty(), "decrypt-diversifiers-foreign", "a foreign key ({sks:?}) attributes {ua:?} to itself at {foreign:?}");
            let ex = expect_at(&rk, comp, c.req, jr)?;
            nontrivial |= ex.mismatch || jr != j;
            labels.push("ua:recognised");
            if ua.sapling().is_some() && ua.orchard().is_some() {
                labels.push("ua:both-shielded");
                // receivers of two different indices: both indices are reported
                let mut j2 = jr;
                if j2.increment().is_ok() {
                    if let Ok((ua2, jr2)) = uivk.find_address(j2, request) {
                        if let (true, Some(mixed)) = (ua2.sapling().is_some(), UnifiedAddress::from_receivers(ua.orchard().copied(), ua2.sapling().copied(), None)) {
                            let got = uivk.decrypt_diversifiers(&mixed);
                            let want: BTreeSet<_> = [jr, jr2].into_iter().collect();
                            vensure!(got == want, "decrypt-diversifiers-mixed", "mixed-index address: {got:?}, want {want:?}");
                        }
                    }
                }
            }
        }
    }

    // --- Sapling level
    if comp.s {
        let dfvk = ufvk.sapling().ok_or_else(|| skip("sapling item"))?;
        let sdfvk = ssut.ufvk_full.sapling().ok_or_else(|| skip("sapling item"))?;
        let ext_ivk = uivk.sapling().as_ref().ok_or_else(|| skip("sapling ivk"))?;
        if let Some((je, ext)) = dfvk.find_address(j) {
            vensure!(Some(ext) == rk.dfvk.address(je), "sapling-address-differs", "UFVK Sapling address at {je:?} differs from the reference");
            let r = catch(|| dfvk.decrypt_diversifier(&ext)).map_err(|p| Fail::new("decrypt-diversifier-panic", p))?;
            vensure!(r == Some((je, Scope::External)), "sapling-decrypt-diversifier-external", "dfvk.decrypt_diversifier(external address at {je:?}) = {r:?}");
            vensure!(ext_ivk.decrypt_diversifier(&ext) == Some(je), "sapling-ivk-decrypt-diversifier", "external ivk does not recover {je:?}");
            vensure!(sdfvk.decrypt_diversifier(&ext).is_none() && s_uivk.sapling().as_ref().map(|k| k.decrypt_diversifier(&ext)) == Some(None), "sapling-decrypt-diversifier-foreign", "a foreign key recognises a Sapling address");
            nontrivial |= je != j;
        }
        // internal (change) address: only the full viewing key recognises it, as Internal
        let (ji, chg) = dfvk.change_address();
        let r = catch(|| dfvk.decrypt_diversifier(&chg)).map_err(|p| Fail::new("decrypt-diversifier-panic", p))?;
        if r != Some((ji, Scope::Internal)) {
            let sig = if r.is_none() { "sapling-dfvk-decrypt-diversifier-misses-internal" } else { "sapling-decrypt-diversifier-internal" };
            if !(beyond_property(sig) || ctx.known_hit(sig)) {
                vfail!(sig, "dfvk.decrypt_diversifier(change address at {ji:?}) = {r:?}, want Some(({ji:?}, Internal)) ({:?})", c.ks);
            }
            labels.push("known-finding-stepped-over");
        }
        vensure!(ext_ivk.decrypt_diversifier(&chg).is_none(), "sapling-ivk-recognises-internal", "the external Sapling ivk recognises the change address");
        vensure!(sdfvk.decrypt_diversifier(&chg).is_none(), "sapling-decrypt-diversifier-foreign", "a foreign key recognises a Sapling change address");
        let only = UnifiedAddress::from_receivers(None, Some(chg), None).ok_or_else(|| skip("from_receivers"))?;
        vensure!(uivk.decrypt_diversifiers(&only).is_empty(), "decrypt-diversifiers-internal", "the (external) UIVK attributes an internal Sapling address to itself");
        labels.push("sapling");
    }
    // --- Orchard level
    if comp.o {
        let fvk = ufvk.orchard().ok_or_else(|| skip("orchard item"))?;
        let sfvk = ssut.ufvk_full.orchard().ok_or_else(|| skip("orchard item"))?;
        for (scope, other) in [(Scope::External, Scope::Internal), (Scope::Internal, Scope::External)] {
            let a = fvk.address_at(j, scope);
            vensure!(a == rk.ofvk.address_at(j, scope), "orchard-address-differs", "UFVK Orchard {scope:?} address at {j:?} differs from the reference");
            vensure!(fvk.scope_for_address(&a) == Some(scope), "orchard-scope-for-address", "scope_for_address({scope:?} address at {j:?}) = {:?}", fvk.scope_for_address(&a));
            vensure!(fvk.to_ivk(scope).diversifier_index(&a) == Some(j), "orchard-diversifier-index", "{scope:?} ivk does not recover {j:?}");
            vensure!(fvk.to_ivk(other).diversifier_index(&a).is_none(), "orchard-diversifier-index-cross-scope", "{other:?} ivk recognises a {scope:?} address");
            vensure!(sfvk.scope_for_address(&a).is_none() && sfvk.to_ivk(scope).diversifier_index(&a).is_none(), "orchard-recognition-foreign", "a foreign key recognises an Orchard address");
            let only = UnifiedAddress::from_receivers(Some(a), None, None).ok_or_else(|| skip("from_receivers"))?;
            let got = uivk.decrypt_diversifiers(&only);
            vensure!(got == set_of((scope == Scope::External).then_some(j)), "decrypt-diversifiers-scope", "UIVK on an Orchard {scope:?} address at {j:?}: {got:?}");
        }
        labels.push("orchard");
    }

    let mut key = rk.seed.clone();
    key.extend_from_slice(&c.ks.account.to_le_bytes());
    key.push(rk.net_i as u8);
    key.push(c.stranger_same_seed as u8);
    key.extend_from_slice(format!("{comp:?}{:?}", c.req).as_bytes());
    key.extend_from_slice(j.as_bytes());
    let mut o = Obs::new(nontrivial || comp != (Comp { t: true, s: true, o: true })).key(hash64(&key)).label(NET_LABEL[rk.net_i]);
    for l in labels {
        o = o.label(l);
    }
    Ok(o)
}

// ---------------------------------------------------------------------------------------------
// Sub-check: notes encrypted to derived addresses
// ---------------------------------------------------------------------------------------------

#[derive(Clone, Copy, Debug, PartialEq, Eq)]
enum Pool {
    Sapling,
    Orchard,
    Ironwood,
}

#[derive(Clone, Debug)]
struct NoteCase {
    ks: KeySpec,
    pool: Pool,
    internal: bool,
    j: JSpec,
    value: u64,
    rand: [u8; 32],
    memo_kind: u8,
    with_ovk: bool,
}

struct FullOut {
    epk: [u8; 32],
    cm: [u8; 32],
    enc: [u8; ENC_CIPHERTEXT_SIZE],
}

macro_rules! full_out_for {
    ($d:ty) => {
        impl ShieldedOutput<$d, ENC_CIPHERTEXT_SIZE> for FullOut {
            fn ephemeral_key(&self) -> EphemeralKeyBytes {
                EphemeralKeyBytes(self.epk)
            }
            fn cmstar_bytes(&self) -> [u8; 32] {
                self.cm
            }
            fn enc_ciphertext(&self) -> &[u8; ENC_CIPHERTEXT_SIZE] {
                &self.enc
            }
        }
    };
}
full_out_for!(SaplingDomain);
full_out_for!(OrchardDomain);
full_out_for!(IronwoodDomain);

fn memo_of(kind: u8, rand: &[u8; 32]) -> [u8; 512] {
    let mut m = [0u8; 512];
    match kind % 3 {
        0 => m[0] = 0xf6, // ZIP 302 "no memo"
        1 => {
            let t = b"C11 note to a derived address";
            m[..t.len()].copy_from_slice(t);
        }
        _ => m.copy_from_slice(&expand(2, u64::from_le_bytes(rand[..8].try_into().unwrap()), 512, b"c11-memo")),
    }
    m
}

fn scope_name(s: Scope) -> &'static str {
    match s {
        Scope::External => "external",
        Scope::Internal => "internal",
    }
}

fn check_notes(c: &NoteCase) -> CaseResult {
    let rk = ref_keys(&c.ks)?;
    let sut = build_sut(&c.ks, &rk)?;
    let ks_b = c.ks.other_account();
    let ks_c = c.ks.other_seed();
    let (rk_b, rk_c) = (ref_keys(&ks_b)?, ref_keys(&ks_c)?);
    let (sut_b, sut_c) = (build_sut(&ks_b, &rk_b)?, build_sut(&ks_c, &rk_c)?);
    let scope = if c.internal { Scope::Internal } else { Scope::External };
    let j0 = c.j.resolve(&rk.dfvk);
    let memo = memo_of(c.memo_kind, &c.rand);
    // account tags: 0 = the recipient's account, 1 = another account of the seed, 2 = another seed
    let keys = catch(|| ScanningKeys::from_account_ufvks([(0u32, sut.ufvk_full.clone()), (1u32, sut_b.ufvk_full.clone()), (2u32, sut_c.ufvk_full.clone())]))
        .map_err(|p| Fail::new("scanning-keys-panic", p))?;
    let uivk = sut.ufvk_full.to_unified_incoming_viewing_key();
    let mut rng = rand_chacha::ChaCha20Rng::from_seed(c.rand);
    let tags: Vec<(u32, Scope)> = (0u32..3).flat_map(|a| [(a, Scope::External), (a, Scope::Internal)]).collect();
    let mut decrypted = 0u64;
    let mut refused = 0u64;
    let j_used;

    match c.pool {
        Pool::Sapling => {
            let dfvk = sut.ufvk_full.sapling().ok_or_else(|| skip("sapling item"))?;
            // recipient derived through the keys under test
            let (j, to) = if c.internal {
                let (j, a) = dfvk.change_address();
                vensure!(Some(a) == rk.dfvk.diversified_change_address(*a.diversifier()), "sapling-address-differs", "change address differs from the reference");
                (j, a)
            } else {
                let request = UAR::unsafe_custom(RR::Omit, RR::Require, RR::Allow);
                // (the last indices of the space may all be Sapling-invalid: start over from 0 then)
                let (ua, j) = uivk.find_address(j0, request).or_else(|_| uivk.find_address(DiversifierIndex::new(), request)).map_err(|e| Fail::new("find-address-error-but-valid-index-exists", format!("find_address({j0:?}, sapling required) = {e:?}")))?;
                let a = *ua.sapling().ok_or_else(|| Fail::new("address-receivers-differ", "required Sapling receiver missing".to_string()))?;
                vensure!(Some(a) == rk.dfvk.address(j), "sapling-address-differs", "Sapling receiver at {j:?} differs from the reference");
                (j, a)
            };
            j_used = j;
            let note = sapling::Note::from_parts(to, sapling::value::NoteValue::from_raw(c.value), sapling::Rseed::AfterZip212(c.rand));
            let ovk = c.with_ovk.then(|| dfvk.to_ovk(scope));
            let ne = sapling_note_encryption(ovk, note.clone(), memo, &mut rng);
            let enc_ct = ne.encrypt_note_plaintext();
            let epk = SaplingDomain::epk_bytes(ne.epk());
            let compact = CompactOutputDescription { ephemeral_key: epk.clone(), cmu: note.cmu(), enc_ciphertext: enc_ct[..COMPACT_NOTE_SIZE].try_into().unwrap() };
            let full = FullOut { epk: epk.0, cm: note.cmu().to_bytes(), enc: enc_ct };
            for tag in &tags {
                let k = keys.sapling().get(tag).ok_or_else(|| Fail::new("scanning-keys-missing", format!("no Sapling scanning key for {tag:?}")))?;
                vensure!(*k.account_id() == tag.0 && k.key_scope() == Some(tag.1), "scanning-key-tag", "Sapling scanning key filed under {tag:?} says ({}, {:?})", k.account_id(), k.key_scope());
                let ivk = k.prepare();
                let rc = catch(|| try_sapling_compact_note_decryption(&ivk, &compact, Zip212Enforcement::On)).map_err(|p| Fail::new("decrypt-panic", p))?;
                let rf = catch(|| try_sapling_note_decryption(&ivk, &full, Zip212Enforcement::On)).map_err(|p| Fail::new("decrypt-panic", p))?;
                let should = *tag == (0, scope);
                let who = format!("Sapling {} note at {j:?}, key (account tag {}, {})", scope_name(scope), tag.0, scope_name(tag.1));
                if should {
                    let (n, a) = rc.ok_or_else(|| Fail::new("note-not-decrypted-by-owner", format!("{who}: compact trial decryption failed")))?;
                    vensure!(n.value().inner() == c.value && a == to && n == note, "note-decrypted-wrong", "{who}: compact decryption gives value {} to {a:?}", n.value().inner());
                    let (n, a, m) = rf.ok_or_else(|| Fail::new("note-not-decrypted-by-owner", format!("{who}: full trial decryption failed")))?;
                    vensure!(n.value().inner() == c.value && a == to && n == note && m == memo, "note-decrypted-wrong", "{who}: full decryption gives value {} to {a:?} memo-equal={}", n.value().inner(), m == memo);
                    decrypted += 1;
                } else {
                    vensure!(rc.is_none() && rf.is_none(), "note-decrypted-by-unrelated-key", "{who}: decrypted (compact={}, full={})", rc.is_some(), rf.is_some());
                    refused += 1;
                }
            }
            // the unified incoming viewing key is external-scope only
            let ivk = uivk.sapling().as_ref().ok_or_else(|| skip("sapling ivk"))?.prepare();
            let r = try_sapling_compact_note_decryption(&ivk, &compact, Zip212Enforcement::On);
            vensure!(r.is_some() == !c.internal, "uivk-note-scope", "UIVK Sapling key on a {} note: decrypted={}", scope_name(scope), r.is_some());
        }
        Pool::Orchard | Pool::Ironwood => {
            let fvk = sut.ufvk_full.orchard().ok_or_else(|| skip("orchard item"))?;
            let j = j0;
            j_used = j;
            let to = if c.internal {
                fvk.address_at(j, Scope::Internal)
            } else {
                let ua = uivk.address(j, UAR::ORCHARD).map_err(|e| Fail::new("address-error-but-reference-ok", format!("address({j:?}, ORCHARD) = {e:?}")))?;
                *ua.orchard().ok_or_else(|| Fail::new("address-receivers-differ", "required Orchard receiver missing".to_string()))?
            };
            vensure!(to == rk.ofvk.address_at(j, scope), "orchard-address-differs", "Orchard {} address at {j:?} differs from the reference", scope_name(scope));
            // nullifier of the "spent" note -> rho; rseed: first candidate valid for that rho
            let mut nfb = arr32(&expand(2, u64::from_le_bytes(c.rand[8..16].try_into().unwrap()), 32, b"c11-nf"));
            nfb[31] &= 0x3f;
            let nf = Option::<orchard::note::Nullifier>::from(orchard::note::Nullifier::from_bytes(&nfb)).ok_or_else(|| skip("nullifier"))?;
            let rho = Option::<orchard::note::Rho>::from(orchard::note::Rho::from_bytes(&nfb)).ok_or_else(|| skip("rho"))?;
            let version = if c.pool == Pool::Orchard { orchard::note::NoteVersion::V2 } else { orchard::note::NoteVersion::V3 };
            let mut note = None;
            for i in 0..64u64 {
                let rb = arr32(&expand(2, u64::from_le_bytes(c.rand[16..24].try_into().unwrap()) ^ i, 32, b"c11-rseed"));
                if let Some(rs) = Option::<orchard::note::RandomSeed>::from(orchard::note::RandomSeed::from_bytes(rb, &rho)) {
                    if let Some(n) = Option::<orchard::Note>::from(orchard::Note::from_parts(to, orchard::value::NoteValue::from_raw(c.value), rho, rs, version)) {
                        note = Some(n);
                        break;
                    }
                }
            }
            let note = note.ok_or_else(|| skip("orchard note"))?;
            let ovk = c.with_ovk.then(|| fvk.to_ovk(scope));
            let cmx = orchard::note::ExtractedNoteCommitment::from(note.commitment());
            let (epk, enc_ct) = if c.pool == Pool::Orchard {
                let ne = OrchardNoteEncryption::new(ovk, note, memo);
                (OrchardDomain::epk_bytes(ne.epk()), ne.encrypt_note_plaintext())
            } else {
                let ne = IronwoodNoteEncryption::new(ovk, note, memo);
                (IronwoodDomain::epk_bytes(ne.epk()), ne.encrypt_note_plaintext())
            };
            let compact = CompactAction::from_parts(nf, cmx, EphemeralKeyBytes(epk.0), enc_ct[..COMPACT_NOTE_SIZE].try_into().unwrap());
            let full = FullOut { epk: epk.0, cm: cmx.to_bytes(), enc: enc_ct };
            let d_orchard = OrchardDomain::for_compact_action(&compact);
            let d_ironwood = IronwoodDomain::for_compact_action(&compact);
            let pool_name = if c.pool == Pool::Orchard { "Orchard" } else { "Ironwood" };
            for tag in &tags {
                let ko = keys.orchard().get(tag).ok_or_else(|| Fail::new("scanning-keys-missing", format!("no Orchard scanning key for {tag:?}")))?;
                let ki = keys.ironwood().get(tag).ok_or_else(|| Fail::new("scanning-keys-missing", format!("no Ironwood scanning key for {tag:?}")))?;
                vensure!(*ko.account_id() == tag.0 && ko.key_scope() == Some(tag.1) && *ki.account_id() == tag.0 && ki.key_scope() == Some(tag.1), "scanning-key-tag", "Orchard/Ironwood scanning key filed under {tag:?} carries another tag");
                let (ivk_o, ivk_i) = (ko.prepare(), ki.prepare());
                // (domain of the pool the key is registered for) x (compact, full)
                let oc = catch(|| try_compact_note_decryption(&d_orchard, &ivk_o, &compact)).map_err(|p| Fail::new("decrypt-panic", p))?;
                let of = catch(|| try_note_decryption(&d_orchard, &ivk_o, &full)).map_err(|p| Fail::new("decrypt-panic", p))?;
                let ic = catch(|| try_compact_note_decryption(&d_ironwood, &ivk_i, &compact)).map_err(|p| Fail::new("decrypt-panic", p))?;
                let if_ = catch(|| try_note_decryption(&d_ironwood, &ivk_i, &full)).map_err(|p| Fail::new("decrypt-panic", p))?;
                let who = format!("{pool_name} {} note at {j:?}, key (account tag {}, {})", scope_name(scope), tag.0, scope_name(tag.1));
                let owner = *tag == (0, scope);
                let (own_c, own_f, cross_c, cross_f) = if c.pool == Pool::Orchard { (oc, of, ic, if_) } else { (ic, if_, oc, of) };
                // a note of one pool never decrypts under the other pool's domain, whoever the key belongs to
                vensure!(cross_c.is_none() && cross_f.is_none(), "note-decrypted-under-other-pool-domain", "{who}: decrypted under the other pool's note-encryption domain");
                if owner {
                    let (n, a) = own_c.ok_or_else(|| Fail::new("note-not-decrypted-by-owner", format!("{who}: compact trial decryption failed")))?;
                    vensure!(n.value().inner() == c.value && a == to && n == note, "note-decrypted-wrong", "{who}: compact decryption gives value {} to {a:?}", n.value().inner());
                    let (n, a, m) = own_f.ok_or_else(|| Fail::new("note-not-decrypted-by-owner", format!("{who}: full trial decryption failed")))?;
                    vensure!(n.value().inner() == c.value && a == to && n == note && m == memo, "note-decrypted-wrong", "{who}: full decryption gives value {} to {a:?} memo-equal={}", n.value().inner(), m == memo);
                    decrypted += 1;
                } else {
                    vensure!(own_c.is_none() && own_f.is_none(), "note-decrypted-by-unrelated-key", "{who}: decrypted (compact={}, full={})", own_c.is_some(), own_f.is_some());
                    refused += 1;
                }
            }
            let ivk = uivk.orchard().as_ref().ok_or_else(|| skip("orchard ivk"))?.prepare();
            let r = if c.pool == Pool::Orchard { try_compact_note_decryption(&d_orchard, &ivk, &compact).is_some() } else { try_compact_note_decryption(&d_ironwood, &ivk, &compact).is_some() };
            vensure!(r == !c.internal, "uivk-note-scope", "UIVK Orchard key on a {pool_name} {} note: decrypted={r}", scope_name(scope));
        }
    }

    let mut key = rk.seed.clone();
    key.extend_from_slice(&c.ks.account.to_le_bytes());
    key.push(rk.net_i as u8);
    key.push(c.pool as u8 * 2 + c.internal as u8);
    key.extend_from_slice(j_used.as_bytes());
    key.extend_from_slice(&c.value.to_le_bytes());
    key.extend_from_slice(&c.rand);
    // every case tries 5 wrong keys next to the right one; "non-trivial" additionally asks for a
    // non-default index or the internal scope
    Ok(Obs::new(c.internal || u128::from(j_used) > 0)
        .key(hash64(&key))
        .label(NET_LABEL[rk.net_i])
        .label(match c.pool {
            Pool::Sapling => "pool:sapling",
            Pool::Orchard => "pool:orchard",
            Pool::Ironwood => "pool:ironwood",
        })
        .label(if c.internal { "scope:internal" } else { "scope:external" })
        .label_if(!sut.has_t, "seed-length-not-32-or-64")
        .label_if(c.value == 0, "value:0")
        .label_if(c.value > 2_100_000_000_000_000, "value>MAX_MONEY")
        .count("decryptions-by-owner", decrypted)
        .count("refusals-by-unrelated-key", refused))
}

// ---------------------------------------------------------------------------------------------
// Sub-check: BIP 44 transparent derivation (external / internal / ephemeral / custom scopes) and
// the address lists built from it
// ---------------------------------------------------------------------------------------------

#[derive(Clone, Debug)]
struct TCase {
    ks: KeySpec,
    /// 0 external, 1 internal, 2 ephemeral, 3 custom
    scope: u8,
    custom_scope: u32,
    start: u32,
    len: u8,
    req: ReqSpec,
    comp: Comp,
    require_key: bool,
    pass_ufvk: bool,
}

fn arb_tcase() -> impl Strategy<Value = TCase> {
    (
        arb_keyspec(true),
        prop_oneof![3 => Just(0u8), 2 => Just(1u8), 2 => Just(2u8), 1 => Just(3u8)],
        prop_oneof![Just(3u32), Just(0x7fff_ffffu32), 3u32..0x8000_0000],
        prop_oneof![
            3 => Just(0u32),
            2 => 0u32..100,
            2 => (0u32..6).prop_map(|k| 0x7fff_ffff - k),
            2 => 0u32..0x8000_0000,
        ],
        prop_oneof![1 => Just(0u8), 4 => 1u8..6],
        arb_req(),
        prop_oneof![3 => arb_comp().prop_map(|c| Comp { t: true, ..c }), 1 => arb_comp()],
        any::<bool>(),
        prop_oneof![7 => Just(true), 1 => Just(false)],
    )
        .prop_map(|(ks, scope, custom_scope, start, len, req, comp, require_key, pass_ufvk)| TCase { ks, scope, custom_scope, start, len, req, comp, require_key, pass_ufvk })
}

fn check_transparent(ctx: &Ctx, c: &TCase) -> CaseResult {
    let rk = ref_keys(&c.ks)?;
    let sut = build_sut(&c.ks, &rk)?;
    let usk = sut.usk.as_ref().ok_or_else(|| skip("usk for a 32/64-byte seed"))?;
    let scope_n: u32 = if c.scope < 3 { c.scope as u32 } else { c.custom_scope };
    let scope = match c.scope {
        0 => TransparentKeyScope::EXTERNAL,
        1 => TransparentKeyScope::INTERNAL,
        2 => TransparentKeyScope::EPHEMERAL,
        _ => TransparentKeyScope::custom(c.custom_scope).ok_or_else(|| skip("custom scope"))?,
    };
    vensure!(TransparentKeyScope::from(Scope::External) == TransparentKeyScope::EXTERNAL && TransparentKeyScope::from(Scope::Internal) == TransparentKeyScope::INTERNAL, "scope-conversion", "zip32::Scope -> TransparentKeyScope");
    let max = NonHardenedChildIndex::MAX.index();
    let start = c.start.min(max);
    let end = start.saturating_add(c.len as u32).min(max); // end-exclusive
    let n = end - start;
    let sk = usk.transparent();
    let pk = sk.to_account_pubkey();
    let mut known = false;

    // --- per-index derivation: private chain, public chain and the change-level keys agree with BIP 32
    let mut sample = vec![start, max];
    if n > 0 {
        sample.push(end - 1);
    }
    for idx in sample {
        let ci = NonHardenedChildIndex::from_index(idx).ok_or_else(|| skip("index"))?;
        let r = rk.t_child(scope_n, idx)?;
        let got_sk = catch(|| sk.derive_secret_key(scope, ci)).map_err(|p| Fail::new("transparent-derive-panic", p))?;
        vensure!(got_sk.as_ref().ok().map(|k| k.secret_bytes()) == Some(r.k.secret_bytes()), "transparent-secret-key-differs", "derive_secret_key({scope:?}, {idx}) differs from m/44'/{}'/{}'/{scope_n}/{idx}", COIN[rk.net_i], c.ks.account);
        let got_pk = catch(|| pk.derive_address_pubkey(scope, ci)).map_err(|p| Fail::new("transparent-derive-panic", p))?;
        vensure!(got_pk.as_ref().ok().map(|k| k.serialize()) == Some(r.pubkey()), "transparent-pubkey-differs", "derive_address_pubkey({scope:?}, {idx}) differs from the BIP 32 public key");
        let want = TransparentAddress::PublicKeyHash(hash160(&r.pubkey()));
        match c.scope {
            0 => {
                vensure!(sk.derive_external_secret_key(ci).ok().map(|k| k.secret_bytes()) == Some(r.k.secret_bytes()), "transparent-secret-key-differs", "derive_external_secret_key({idx})");
                let a = pk.derive_external_ivk().and_then(|k| k.derive_address(ci));
                vensure!(a.as_ref().ok() == Some(&want), "transparent-address-differs", "external address {idx}: {a:?}, BIP 44 reference {want:?}");
            }
            1 => {
                vensure!(sk.derive_internal_secret_key(ci).ok().map(|k| k.secret_bytes()) == Some(r.k.secret_bytes()), "transparent-secret-key-differs", "derive_internal_secret_key({idx})");
                let a = pk.derive_internal_ivk().and_then(|k| k.derive_address(ci));
                vensure!(a.as_ref().ok() == Some(&want), "transparent-address-differs", "internal address {idx}: {a:?}, BIP 44 reference {want:?}");
            }
            2 => {
                let a = pk.derive_ephemeral_ivk().and_then(|k| k.derive_ephemeral_address(ci));
                vensure!(a.as_ref().ok() == Some(&want), "transparent-address-differs", "ephemeral address {idx}: {a:?}, reference {want:?}");
            }
            _ => {}
        }
    }

    // --- the end-exclusive child index range
    let lo = NonHardenedChildIndex::from_index(start).unwrap();
    let hi = NonHardenedChildIndex::from_index(end).unwrap();
    let got: Vec<u32> = NonHardenedChildRange::from(lo..hi).into_iter().map(|i| i.index()).collect();
    let want: Vec<u32> = (start..end).collect();
    let mut range_defect = false;
    if got != want {
        let sig = if n == 0 && got == vec![start] { "child-range-empty-yields-start" } else { "child-range-wrong" };
        if !(beyond_property(sig) || ctx.known_hit(sig)) {
            vfail!(sig, "NonHardenedChildRange({start}..{end}) iterates {got:?}, an end-exclusive range is {want:?}");
        }
        known = true;
        range_defect = true;
    }

    // --- generate_address_list
    let comp = {
        let mut k = c.comp;
        if !k.s && !k.o {
            k.s = true;
        }
        k
    };
    let ufvk = subset_ufvk(&sut, comp)?;
    let uivk = ufvk.to_unified_incoming_viewing_key();
    let mut list_len = 0u64;
    if let Some(request) = build_request(c.req)? {
        let r = catch(|| generate_address_list(&uivk, c.pass_ufvk.then_some(&ufvk), scope, request, lo..hi, c.require_key))
            .map_err(|p| Fail::new("address-list-panic", format!("generate_address_list panicked: {p} ({c:?})")))?;
        let key_available = c.pass_ufvk && comp.t;
        if !key_available {
            // "Returns an empty list if the account lacks a transparent key and require_key is false.
            //  Returns an error if the key is required but unavailable"
            if !c.require_key {
                vensure!(matches!(&r, Ok(v) if v.is_empty()), "address-list-without-key", "no transparent key, require_key=false: {r:?}");
            } else if c.scope == 1 || c.scope == 2 {
                vensure!(matches!(&r, Err(AGE::KeyNotAvailable(Typecode::P2pkh))), "address-list-without-key", "no transparent key, require_key=true, {scope:?}: {r:?}");
            }
            // external scope with require_key: the rustdoc and the code disagree on Ok([]) vs Err; not asserted
        } else if c.scope == 3 {
            if n > 0 {
                vensure!(matches!(&r, Err(AGE::UnsupportedTransparentKeyScope(s)) if *s == scope), "address-list-custom-scope", "custom scope {scope:?}: {r:?}");
            }
        } else {
            // what address(idx, request) says for every index of the range
            let mut per_idx = vec![];
            for idx in start..end {
                per_idx.push((idx, catch(|| uivk.address(DiversifierIndex::from(idx), request)).map_err(|p| Fail::new("address-panic", p))?));
            }
            let hard_error = c.scope == 0 && per_idx.iter().any(|(_, a)| matches!(a, Err(e) if !matches!(e, AGE::ShieldedReceiverRequired)));
            match &r {
                Err(_) if range_defect => {}
                Err(e) => vensure!(hard_error, "address-list-error", "generate_address_list({scope:?}, {start}..{end}) = {e:?} although every address can be generated"),
                Ok(list) if !range_defect => {
                    vensure!(!hard_error, "address-list-ignores-error", "generate_address_list succeeded although address() fails with a non-fallback error in the range");
                    vensure!(list.len() as u32 == n, "address-list-length", "generate_address_list({scope:?}, {start}..{end}) returned {} entries", list.len());
                    for (k, (addr, taddr, ci)) in list.iter().enumerate() {
                        let idx = start + k as u32;
                        vensure!(ci.index() == idx, "address-list-index", "entry {k} has index {}, want {idx}", ci.index());
                        let want = TransparentAddress::PublicKeyHash(rk.t_addr(scope_n, idx)?);
                        vensure!(*taddr == want, "address-list-transparent-address", "{scope:?} entry {idx}: transparent address {taddr:?}, BIP 44 m/44'/{}'/{}'/{scope_n}/{idx} = {want:?}", COIN[rk.net_i], c.ks.account);
                        match (c.scope, &per_idx[k].1, addr) {
                            (0, Ok(ua), Address::Unified(got)) => {
                                vensure!(got == ua, "address-list-unified-address", "external entry {idx}: unified address differs from uivk.address({idx})");
                                vensure!(got.transparent().is_none() || got.transparent() == Some(&want), "address-list-unified-address", "external entry {idx}: UA transparent receiver is not child {idx}");
                            }
                            (0, Err(_), Address::Transparent(a)) | (1, _, Address::Transparent(a)) | (2, _, Address::Transparent(a)) => {
                                vensure!(*a == want, "address-list-transparent-address", "{scope:?} entry {idx}: wallet address {a:?}, want {want:?}");
                            }
                            (_, _, other) => vfail!("address-list-address-kind", "{scope:?} entry {idx}: unexpected wallet address {other:?} (uivk.address = {:?})", per_idx[k].1),
                        }
                    }
                    list_len = list.len() as u64;
                }
                Ok(_) => {}
            }
        }
    }

    let mut key = rk.seed.clone();
    key.extend_from_slice(&c.ks.account.to_le_bytes());
    key.push(rk.net_i as u8);
    key.extend_from_slice(&scope_n.to_le_bytes());
    key.extend_from_slice(&start.to_le_bytes());
    key.extend_from_slice(&end.to_le_bytes());
    key.extend_from_slice(format!("{comp:?}{:?}{}{}", c.req, c.require_key, c.pass_ufvk).as_bytes());
    Ok(Obs::new(c.scope != 0 || !(c.pass_ufvk && comp.t) || n == 0 || end == max)
        .key(hash64(&key))
        .label(NET_LABEL[rk.net_i])
        .label(match c.scope {
            0 => "scope:external",
            1 => "scope:internal",
            2 => "scope:ephemeral",
            _ => "scope:custom",
        })
        .label_if(n == 0, "range:empty")
        .label_if(end == max, "range:ends-at-max-index")
        .label_if(!(c.pass_ufvk && comp.t), "no-transparent-key")
        .label_if(known, "known-finding-stepped-over")
        .count("addresses-listed", list_len))
}

// ---------------------------------------------------------------------------------------------
// Fixed regression cases (boundary shapes worth re-running forever)
// ---------------------------------------------------------------------------------------------

fn fixed_comm_cases() -> Vec<CommCase> {
    let mut v = vec![];
    let full = Comp { t: true, s: true, o: true };
    let s_only = Comp { t: false, s: true, o: false };
    let o_only = Comp { t: false, s: false, o: true };
    let ts = Comp { t: true, s: true, o: false };
    let seeds = [(0u8, 32u16), (1, 32), (0, 64), (1, 64), (2, 32), (1, 252)];
    let reqs = [
        ReqSpec::AllAvailable,
        ReqSpec::Custom(Rq::Allow, Rq::Allow, Rq::Allow),
        ReqSpec::Custom(Rq::Allow, Rq::Allow, Rq::Omit),
        ReqSpec::Custom(Rq::Require, Rq::Omit, Rq::Omit),
        ReqSpec::Custom(Rq::Omit, Rq::Require, Rq::Require),
        ReqSpec::Custom(Rq::Omit, Rq::Allow, Rq::Require),
        ReqSpec::Custom(Rq::Require, Rq::Require, Rq::Require),
        ReqSpec::Custom(Rq::Omit, Rq::Omit, Rq::Allow),
    ];
    let js = [
        JSpec::Zero,
        JSpec::One,
        JSpec::FirstSaplingInvalidFrom(0),
        JSpec::Below31(0),
        JSpec::From31(0),
        JSpec::U32Max,
        JSpec::U32MaxPlus1,
        JSpec::Max88Minus(0),
        JSpec::Max88Minus(1),
    ];
    for (si, (kind, len)) in seeds.iter().enumerate() {
        for (ai, account) in [0u32, 0x7fff_ffff].iter().enumerate() {
            if ai == 1 && si % 2 == 1 {
                continue;
            }
            for comp in [full, s_only, o_only, ts] {
                for req in reqs {
                    for j in js.iter() {
                        v.push(CommCase {
                            ks: KeySpec { seed_kind: *kind, seed_len: *len, seed_fill: 0xC11 + si as u64, account: *account, net: ((si + ai) % 3) as u8 },
                            comp,
                            req,
                            j: j.clone(),
                        });
                    }
                }
            }
        }
    }
    v
}

/// Observations that the harness steps over WITHOUT reporting: each is real behaviour of the code (or of
/// the sapling-crypto dependency) that goes beyond what property C11 states — C11 speaks of re-encoding
/// to the same bytes and deriving the same addresses, of recognising derived addresses through the
/// repository's own key types, and says nothing about panics on corrupted encodings. They are described
/// in DESIGN.md section 9.4 and counted under the label "known-finding-stepped-over".
fn beyond_property(sig: &str) -> bool {
    sig == "uivk-decoded-transparent-item-not-equal"            // ExternalIvk: PartialEq over BIP 32 metadata the encoding does not carry
        || sig == "child-range-empty-yields-start"              // NonHardenedChildRange(a..a) iterates [a]
        || sig.starts_with("usk-from-bytes-panic:")             // sapling-crypto expect() on a non-canonical ask
        || sig.starts_with("extsk-decode-panic:")               // same, through decode_extended_spending_key
        || sig == "sapling-dfvk-decrypt-diversifier-misses-internal" // sapling-crypto only, no /repo caller
}

fn main() {
    let ctx = Ctx::from_args("C11", "exploration");
    ctx.set_rule(
        "Cases = (seed of 32..252 bytes incl. all-zero/all-0xFF, ZIP 32 account in {0,1,2^31-1,random}, network main/test/regtest, \
         key item subset, request over {Require,Allow,Omit}^3 + AllAvailableKeys built through the public constructors, diversifier \
         index from {0,1,first Sapling-invalid/valid, 2^31 boundary, 2^32 boundary, 2^88-1-k, random 11 bytes}). The reference is \
         assembled from sapling-crypto / orchard ZIP 32 derivation and an own BIP 32 implementation. Non-trivial = request and key \
         items differ (requested-but-unsupported or allowed-but-not-derivable), or the index is Sapling-invalid, or (encodings) the \
         key is a strict subset / carries unknown items, or (notes) internal scope / non-zero index, or (transparent) non-external \
         scope / empty or saturated range / missing key; distinct = hash of (seed, account, network, items, request, index...).",
    );
    ctx.assume("sapling-crypto and orchard ZIP 32 derivation, address derivation and note encryption are the reference for the shielded pools (shared with the code under test); BLAKE2b/SHA-2/RIPEMD-160/secp256k1 group law are shared primitives; BIP 32/44 is re-implemented");
    ctx.assume("UnifiedSpendingKey::from_seed returns Err for seed lengths other than 32 and 64 bytes (bip32 dependency); that explicit error is treated as 'no key', and such seeds are exercised through shielded-only viewing keys");
    ctx.assume("Require for an item the key lacks: any of KeyNotAvailable / ReceiverTypeNotSupported / ShieldedReceiverRequired is accepted as the error variant (the code reports the last one); exactness is asserted on error-vs-success and on the index-related variants");
    ctx.assume("seeds shorter than 32 bytes and requests without a shielded receiver via unsafe_custom are documented panics (preconditions)");
    let tier = ctx.tier;

    {
        let cases = Arc::new(fixed_comm_cases());
        let c2 = cases.clone();
        let cx = ctx.clone();
        ctx.run_enum("regression-grid", cases.len() as u64, true, move |i| check_commutation(&cx, &cases[i as usize]), move |i| format!("{:?}", c2[i as usize]));
    }
    {
        let cx = ctx.clone();
        ctx.run_prop(
            "address-commutation",
            || (arb_keyspec(false), arb_comp(), arb_req(), arb_jspec()).prop_map(|(ks, comp, req, j)| CommCase { ks, comp, req, j }),
            tier.pick(6_000, 400_000),
            move |c| check_commutation(&cx, c),
        );
    }
    {
        let cx = ctx.clone();
        ctx.run_prop("encodings", arb_enc_case, tier.pick(3_000, 200_000), move |c| check_encodings(&cx, c));
    }
    let cx = ctx.clone();
    ctx.run_prop(
        "recognition",
        || (arb_keyspec(false), arb_comp(), arb_req(), arb_jspec(), any::<bool>()).prop_map(|(ks, comp, req, j, stranger_same_seed)| RecogCase { ks, comp, req, j, stranger_same_seed }),
        tier.pick(2_500, 200_000),
        move |c| check_recognition(&cx, c),
    );
    ctx.run_prop(
        "note-decryption",
        || {
            (
                arb_keyspec(false),
                prop_oneof![Just(Pool::Sapling), Just(Pool::Orchard), Just(Pool::Ironwood)],
                any::<bool>(),
                arb_jspec(),
                prop_oneof![1 => Just(0u64), 1 => Just(1u64), 1 => Just(2_100_000_000_000_000u64), 1 => Just(u64::MAX), 4 => any::<u64>()],
                any::<[u8; 32]>(),
                0u8..3,
                any::<bool>(),
            )
                .prop_map(|(ks, pool, internal, j, value, rand, memo_kind, with_ovk)| NoteCase { ks, pool, internal, j, value, rand, memo_kind, with_ovk })
        },
        tier.pick(2_000, 200_000),
        check_notes,
    );
    {
        let cx = ctx.clone();
        ctx.run_prop("transparent-derivation", arb_tcase, tier.pick(3_000, 200_000), move |c| check_transparent(&cx, c));
    }

    // generator health
    ctx.require_label_fraction("address-commutation", "request-differs-from-key", 0.25);
    ctx.require_label_fraction("address-commutation", "j:sapling-invalid", 0.10);
    ctx.require_label_fraction("address-commutation", "address:ok", 0.15);
    ctx.require_label_fraction("address-commutation", "address:err", 0.15);
    ctx.require_min_count("address-commutation", "err:sapling-invalid-index", 100);
    ctx.require_min_count("address-commutation", "err:transparent-invalid-index", 50);
    ctx.require_min_count("address-commutation", "err:no-shielded-receiver", 100);
    ctx.require_min_count("address-commutation", "find:searched", 300);
    ctx.require_min_count("address-commutation", "find:space-exhausted", 5);
    ctx.require_min_count("address-commutation", "request-refused-by-constructor", 100);
    ctx.require_min_count("encodings", "usk", 1000);
    ctx.require_min_count("encodings", "with-unknown-items", 500);
    ctx.require_min_count("encodings", "usk:wrong-era", 1000);
    ctx.require_min_count("recognition", "ua:recognised", 500);
    ctx.require_min_count("note-decryption", "pool:ironwood", 300);
    ctx.require_min_count("note-decryption", "scope:internal", 500);
    ctx.require_min_count("transparent-derivation", "range:empty", 100);
    ctx.finish();
}

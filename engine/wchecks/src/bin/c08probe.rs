//! throwaway probe (deleted before hand-over)
use std::convert::Infallible;
use std::num::NonZeroU32;

use chainsim::*;
use zcash_client_backend::{
    data_api::{
        wallet::{
            create_proposed_transactions, decrypt_and_store_transaction,
            input_selection::{GreedyInputSelector, SpendPolicy, TransparentSpendPolicy},
            propose_shielding, propose_transfer, ConfirmationsPolicy, LockRequest, SpendingKeys,
        },
        CoinbaseFilter, InputSource, OutputLockStore, WalletRead, WalletWrite,
    },
    fees::{standard::SingleOutputChangeStrategy, DustOutputPolicy, StandardFeeRule},
    wallet::{LockOwner, OvkPolicy, WalletTransparentOutput},
};
use zcash_keys::keys::UnifiedAddressRequest;
use zcash_primitives::transaction::{Transaction, TransactionData, TxVersion};
use zcash_protocol::{
    consensus::{BlockHeight, BranchId},
    value::Zatoshis,
    ShieldedPool,
};
use zcash_transparent::{
    address::{Script, TransparentAddress},
    bundle::{Authorized, Bundle, OutPoint, TxIn, TxOut},
    keys::{IncomingViewingKey, NonHardenedChildIndex},
};

fn tx_of(vin: Vec<OutPoint>, vout: Vec<(TransparentAddress, u64)>, expiry: u32, lock_time: u32, coinbase: bool) -> Transaction {
    let vin = if coinbase { vec![TxIn::from_parts(OutPoint::NULL, Script::default(), u32::MAX)] } else { vin.into_iter().map(|o| TxIn::from_parts(o, Script::default(), u32::MAX)).collect() };
    let b = Bundle { vin, vout: vout.into_iter().map(|(a, v)| TxOut::new(Zatoshis::from_u64(v).unwrap(), a.script().into())).collect(), authorization: Authorized };
    TransactionData::<zcash_primitives::transaction::Authorized>::from_parts(TxVersion::V5, BranchId::Nu5, lock_time, BlockHeight::from_u32(expiry), Some(b), None, None, None).freeze().unwrap()
}

fn main() {
    chainsim::init_sqlite();
    let spec = WorldSpec { seed: [9; 32], n_accounts: 2, n_foreign: 0, nu6_3_offset: None, retention_interval: None, base: None };
    let mut h = Hist::new(&spec, false);
    let recv = |v: u64| BlockSpec { txs: vec![TxSpec { items: vec![ItemSpec::Recv { pool: Pool::Sapling, who: Who::Wallet(0), scope: ScopeSel::External, value: v }] }] };
    h.apply(&Op::AddBlocks(vec![recv(1_000_000)]), "a").unwrap();
    h.apply(&Op::AddEmpty(12), "b").unwrap();
    h.scan_all(50).unwrap();
    let net = h.world.net;
    let tip = h.w.chain_height().unwrap();
    println!("tip {tip}");
    let a0 = h.w.accounts[0];
    let a1 = h.w.accounts[1];
    let accts = h.w.accounts.clone();
    let kss = h.world.accounts.clone();
    for (ai, ks) in kss.iter().enumerate() {
        let apk = ks.ufvk.transparent().unwrap();
        let ext = apk.derive_external_ivk().unwrap();
        let int = apk.derive_internal_ivk().unwrap();
        let eph = apk.derive_ephemeral_ivk().unwrap();
        let rec = h.w.db().get_transparent_receivers(accts[ai], true, true).unwrap();
        let rec_nochange = h.w.db().get_transparent_receivers(accts[ai], false, false).unwrap();
        println!("acct {ai}: receivers(with change) {} (no change) {}", rec.len(), rec_nochange.len());
        for i in 0..12u32 {
            let e = ext.derive_address(NonHardenedChildIndex::from_index(i).unwrap()).unwrap();
            let n = int.derive_address(NonHardenedChildIndex::from_index(i).unwrap()).unwrap();
            let p = eph.derive_ephemeral_address(NonHardenedChildIndex::from_index(i).unwrap()).unwrap();
            println!("  idx {i}: ext known {} int known {} eph known {}", rec.contains_key(&e), rec.contains_key(&n), rec.contains_key(&p));
        }
        let ua = h.w.db().get_last_generated_address_matching(accts[ai], UnifiedAddressRequest::AllAvailableKeys).unwrap().unwrap();
        let t = ua.transparent().unwrap();
        let which = (0..12u32).find(|i| ext.derive_address(NonHardenedChildIndex::from_index(*i).unwrap()).unwrap() == *t);
        println!("  default UA transparent receiver = ext idx {which:?}");
    }
    let addr = |h: &Hist, acct: usize, scope: u8, i: u32| -> TransparentAddress {
        let apk = h.world.accounts[acct].ufvk.transparent().unwrap();
        let idx = NonHardenedChildIndex::from_index(i).unwrap();
        match scope {
            0 => apk.derive_external_ivk().unwrap().derive_address(idx).unwrap(),
            1 => apk.derive_internal_ivk().unwrap().derive_address(idx).unwrap(),
            _ => apk.derive_ephemeral_ivk().unwrap().derive_ephemeral_address(idx).unwrap(),
        }
    };
    let put = |h: &mut Hist, tag: u8, n: u32, a: TransparentAddress, v: u64, mined: Option<u32>| {
        let o = WalletTransparentOutput::from_parts(OutPoint::new([tag; 32], n), TxOut::new(Zatoshis::from_u64(v).unwrap(), a.script().into()), mined.map(BlockHeight::from_u32), None, None, None).unwrap();
        let r = h.w.db().put_received_transparent_utxo(&o);
        println!("put tag {tag} n {n} v {v} mined {mined:?} -> {:?}", r.map_err(|e| format!("{e:?}")));
    };
    let e0 = addr(&h, 0, 0, 0);
    let e3 = addr(&h, 0, 0, 3);
    let e11 = addr(&h, 0, 0, 11);
    let i0 = addr(&h, 0, 1, 0);
    let p0 = addr(&h, 0, 2, 0);
    let b0 = addr(&h, 1, 0, 0);
    put(&mut h, 1, 0, e0, 100_000, Some(tip - 5));
    put(&mut h, 2, 0, e3, 200_000, Some(tip));
    put(&mut h, 3, 0, e11, 300_000, Some(tip));
    put(&mut h, 4, 0, i0, 400_000, Some(tip - 2));
    put(&mut h, 5, 0, p0, 500_000, Some(tip - 2));
    put(&mut h, 6, 0, b0, 600_000, Some(tip - 2));
    put(&mut h, 7, 0, TransparentAddress::PublicKeyHash([7; 20]), 700_000, Some(tip - 2));
    put(&mut h, 8, 0, e0, 0, Some(tip - 2));
    put(&mut h, 9, 0, e0, 5000, Some(tip - 2));
    put(&mut h, 10, 0, e0, 5001, None);
    put(&mut h, 11, 0, e0, 50_000, Some(tip + 3));
    let show = |h: &mut Hist, addrs: &[TransparentAddress], pol: ConfirmationsPolicy| {
        let t = h.w.chain_height().unwrap() + 1;
        let r = h.w.db().get_spendable_transparent_outputs_for_addresses(addrs, t.into(), pol, CoinbaseFilter::AllTransparentOutputs, zcash_client_backend::data_api::wallet::input_selection::LockFilter::Unfiltered).unwrap();
        println!("spendable at target {t} pol {pol:?}: {:?}", r.iter().map(|o| (o.outpoint().hash()[0], u64::from(o.value()), o.mined_height().map(u32::from), o.recipient_key_scope())).collect::<Vec<_>>());
    };
    let all = [e0, e3, e11, i0, p0, b0];
    let zc = ConfirmationsPolicy::new(NonZeroU32::new(1).unwrap(), NonZeroU32::new(3).unwrap(), true).unwrap();
    let nzc = ConfirmationsPolicy::new(NonZeroU32::new(1).unwrap(), NonZeroU32::new(3).unwrap(), false).unwrap();
    show(&mut h, &all, zc);
    show(&mut h, &all, nzc);
    // shielding
    let sel = GreedyInputSelector::<Db>::new();
    let cs = SingleOutputChangeStrategy::<Db>::new(StandardFeeRule::Zip317, None, ShieldedPool::Sapling, DustOutputPolicy::default());
    let r = propose_shielding::<_, _, _, _, Infallible>(h.w.db(), &net, &sel, &cs, Zatoshis::from_u64(10_000).unwrap(), &[e0, e3, b0], a0, nzc, CoinbaseFilter::AllTransparentOutputs, Some(LockRequest::new(LockOwner::new([1; 32]), 5)));
    match &r {
        Ok(p) => {
            for s in p.steps().iter() {
                println!("shield step: inputs {:?} change {:?} fee {} is_shielding {} anchor {:?}", s.transparent_inputs().iter().map(|o| (o.outpoint().hash()[0], u64::from(o.value()))).collect::<Vec<_>>(), s.balance().proposed_change().iter().map(|c| (c.output_pool(), u64::from(c.value()))).collect::<Vec<_>>(), u64::from(s.balance().fee_required()), s.is_shielding(), s.anchor_height());
            }
        }
        Err(e) => println!("shield err {e:?}"),
    }
    println!("locked a0 {:?}", h.w.db().get_locked_outputs(a0).unwrap());
    println!("locked a1 {:?}", h.w.db().get_locked_outputs(a1).unwrap());
    // execute
    if let Ok(p) = &r {
        use sapling::prover::mock::{MockOutputProver, MockSpendProver};
        let usk = h.world.accounts[0].usk.clone();
        let x = create_proposed_transactions::<_, _, Infallible, _, Infallible, _>(h.w.db(), &net, &MockSpendProver, &MockOutputProver, &SpendingKeys::from_unified_spending_key(usk), OvkPolicy::Sender, p, None);
        println!("execute -> {:?}", x.map_err(|e| format!("{e:?}").chars().take(300).collect::<String>()));
    }
    // shield only own
    let r = propose_shielding::<_, _, _, _, Infallible>(h.w.db(), &net, &sel, &cs, Zatoshis::from_u64(10_000).unwrap(), &[e0, e3, i0, p0], a0, nzc, CoinbaseFilter::AllTransparentOutputs, Some(LockRequest::new(LockOwner::new([1; 32]), 5)));
    match &r {
        Ok(p) => {
            for s in p.steps().iter() {
                println!("shield2 step: inputs {:?} change {:?} fee {}", s.transparent_inputs().iter().map(|o| (o.outpoint().hash()[0], u64::from(o.value()))).collect::<Vec<_>>(), s.balance().proposed_change().iter().map(|c| (c.output_pool(), u64::from(c.value()))).collect::<Vec<_>>(), u64::from(s.balance().fee_required()));
            }
        }
        Err(e) => println!("shield2 err {e:?}"),
    }
    let r = propose_shielding::<_, _, _, _, Infallible>(h.w.db(), &net, &sel, &cs, Zatoshis::from_u64(10_000).unwrap(), &[e0, e3, i0], a0, nzc, CoinbaseFilter::AllTransparentOutputs, Some(LockRequest::new(LockOwner::new([2; 32]), 5)));
    match &r {
        Ok(p) => {
            for s in p.steps().iter() {
                println!("shield3 step: inputs {:?} change {:?} fee {}", s.transparent_inputs().iter().map(|o| (o.outpoint().hash()[0], u64::from(o.value()))).collect::<Vec<_>>(), s.balance().proposed_change().iter().map(|c| (c.output_pool(), u64::from(c.value()))).collect::<Vec<_>>(), u64::from(s.balance().fee_required()));
            }
            use sapling::prover::mock::{MockOutputProver, MockSpendProver};
            let usk = h.world.accounts[0].usk.clone();
            let x = create_proposed_transactions::<_, _, Infallible, _, Infallible, _>(h.w.db(), &net, &MockSpendProver, &MockOutputProver, &SpendingKeys::from_unified_spending_key(usk), OvkPolicy::Sender, p, None);
            println!("execute3 -> {:?}", x.map_err(|e| format!("{e:?}").chars().take(300).collect::<String>()));
            println!("locked a0 after execute {:?}", h.w.db().get_locked_outputs(a0).unwrap());
        }
        Err(e) => println!("shield3 err {e:?}"),
    }
    show(&mut h, &all, nzc);
    // full tx receive, mempool
    let t1 = tx_of(vec![OutPoint::new([0x77; 32], 0)], vec![(e0, 123_456), (e3, 7_000)], tip + 20, 1, false);
    println!("store mempool tx -> {:?}", decrypt_and_store_transaction(&net, h.w.db(), &t1, None).map_err(|e| format!("{e:?}")));
    show(&mut h, &all, zc);
    show(&mut h, &all, nzc);
    println!("store same tx mined -> {:?}", decrypt_and_store_transaction(&net, h.w.db(), &t1, Some(BlockHeight::from_u32(tip))).map_err(|e| format!("{e:?}")));
    show(&mut h, &all, zc);
    // spend by a mempool tx
    let t2 = tx_of(vec![OutPoint::new(*t1.txid().as_ref(), 0)], vec![(TransparentAddress::PublicKeyHash([9; 20]), 100_000)], tip + 2, 2, false);
    println!("store spender mempool -> {:?}", decrypt_and_store_transaction(&net, h.w.db(), &t2, None).map_err(|e| format!("{e:?}")));
    show(&mut h, &all, zc);
    // coinbase
    let cb = tx_of(vec![], vec![(e0, 625_000_000)], 0, 3, true);
    println!("store coinbase mined at tip -> {:?}", decrypt_and_store_transaction(&net, h.w.db(), &cb, Some(BlockHeight::from_u32(tip))).map_err(|e| format!("{e:?}")));
    show(&mut h, &all, zc);
    // transfer with transparent
    let pay = zip321::TransactionRequest::new(vec![zip321::Payment::without_memo(zcash_keys::address::Address::Transparent(TransparentAddress::PublicKeyHash([7; 20])).to_zcash_address(&net), Zatoshis::from_u64(50_000).unwrap())]).unwrap();
    let sp = SpendPolicy::default().with_transparent(TransparentSpendPolicy::any_account_addr());
    let r = propose_transfer::<_, _, _, _, Infallible>(h.w.db(), &net, a0, &sel, &cs, pay.clone(), zc, &sp, None, None);
    match &r {
        Ok(p) => {
            for s in p.steps().iter() {
                println!("transfer step: tin {:?} shielded {:?} change {:?} fee {}", s.transparent_inputs().iter().map(|o| (o.outpoint().hash()[0], u64::from(o.value()))).collect::<Vec<_>>(), s.shielded_inputs().map(|i| i.notes().len()), s.balance().proposed_change().iter().map(|c| (c.output_pool(), u64::from(c.value()))).collect::<Vec<_>>(), u64::from(s.balance().fee_required()));
            }
        }
        Err(e) => println!("transfer err {e:?}"),
    }
    let r = propose_transfer::<_, _, _, _, Infallible>(h.w.db(), &net, a1, &sel, &cs, pay, zc, &sp, None, None);
    match &r {
        Ok(p) => {
            for s in p.steps().iter() {
                println!("transfer(a1) step: tin {:?} shielded {:?} change {:?} fee {}", s.transparent_inputs().iter().map(|o| (o.outpoint().hash()[0], u64::from(o.value()))).collect::<Vec<_>>(), s.shielded_inputs().map(|i| i.notes().len()), s.balance().proposed_change().iter().map(|c| (c.output_pool(), u64::from(c.value()))).collect::<Vec<_>>(), u64::from(s.balance().fee_required()));
            }
        }
        Err(e) => println!("transfer(a1) err {e:?}"),
    }
    // reorg the coinbase away
    h.apply(&Op::Truncate { depth: 1, reorg: true }, "t").unwrap();
    println!("after truncate chain height {:?}", h.w.chain_height());
    h.apply(&Op::AddEmpty(3), "b").unwrap();
    h.scan_all(50).unwrap();
    println!("after rescan chain height {:?}", h.w.chain_height());
    show(&mut h, &all, zc);
    show(&mut h, &all, nzc);
    let r = propose_shielding::<_, _, _, _, Infallible>(h.w.db(), &net, &sel, &cs, Zatoshis::from_u64(10_000).unwrap(), &[e0, e3, i0], a0, zc, CoinbaseFilter::AllTransparentOutputs, None);
    match &r {
        Ok(p) => {
            for s in p.steps().iter() {
                println!("shield-after-reorg step: inputs {:?} change {:?} fee {}", s.transparent_inputs().iter().map(|o| (o.outpoint().hash()[0], u64::from(o.value()))).collect::<Vec<_>>(), s.balance().proposed_change().iter().map(|c| (c.output_pool(), u64::from(c.value()))).collect::<Vec<_>>(), u64::from(s.balance().fee_required()));
            }
        }
        Err(e) => println!("shield-after-reorg err {e:?}"),
    }
    let mut st = h.w.conn().prepare("SELECT hex(substr(t.txid,1,2)), t.mined_height, t.expiry_height, t.tx_index, t.min_observed_height, u.value_zat, u.lock_expiry_height, u.max_observed_unspent_height FROM transparent_received_outputs u JOIN transactions t ON t.id_tx = u.transaction_id").unwrap();
    let rows = st.query_map([], |r| Ok(format!("{:?} mined {:?} expiry {:?} txidx {:?} minobs {:?} value {:?} lock {:?} maxunspent {:?}", r.get::<_, String>(0)?, r.get::<_, Option<u32>>(1)?, r.get::<_, Option<u32>>(2)?, r.get::<_, Option<u32>>(3)?, r.get::<_, Option<u32>>(4)?, r.get::<_, i64>(5)?, r.get::<_, Option<u32>>(6)?, r.get::<_, Option<u32>>(7)?))).unwrap();
    for r in rows {
        println!("  row {}", r.unwrap());
    }
}

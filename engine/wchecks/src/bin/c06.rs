//! C06 — Note commitment trees and witnesses always agree with the chain.
//!
//! The same generated histories as C01 (scans in any order, rewinds with/without reorg, long
//! chains so that checkpoint pruning at 100 runs, anchor-retention intervals with NU6.3 activating
//! inside the chain, empty boundary blocks). After EVERY step, for each pool's ShardTree:
//!  (a) every retained checkpoint lies on the current branch, has the position the true chain has
//!      at that height, and its root equals the model's true root (frontiers maintained by the
//!      model, never taken from the wallet);
//!  (b) every witness the tree produces for an unspent mined wallet note at a retained checkpoint
//!      at or above the note's height hashes to that true root;
//!  (c) the three pools are checkpointed at the same heights;
//!  (d) with NU6.3 active, every retention-grid boundary whose block has been scanned has a
//!      checkpoint in every pool (also after >100 further checkpoints).

use std::collections::{BTreeMap, BTreeSet};

use chainsim::*;
use incrementalmerkletree::Position;
use orchard::tree::MerkleHashOrchard;
use shardtree::store::ShardStore;
use shardtree::error::ShardTreeError;
use vcore::{vensure, vfail, CaseResult, Ctx, Fail, Obs};
use zcash_client_backend::data_api::WalletCommitmentTrees;
use zcash_protocol::consensus::BlockHeight;

#[derive(Default)]
struct Stats {
    checkpoints_checked: u64,
    roots_checked: u64,
    roots_unavailable: u64,
    witnesses_checked: u64,
    witnesses_unavailable: u64,
    boundaries_checked: u64,
    empty_boundary_blocks: u64,
    aligned_states: u64,
    max_checkpoints_seen: usize,
    pruning_ran: bool,
    unpruned_states: u64,
    boundaries_missing_below_horizon: u64,
    /// per pool: the highest height below which the pool's ordinary checkpoints may have been pruned, i.e. the
    /// maximum, over all states observed so far (the trees are read after every operation, and an operation
    /// either only adds or only removes checkpoints), of the id of the pool's 100th-highest checkpoint
    pruned_floor: [u32; 3],
    /// per pool: the checkpoint ids seen at the previous observation
    prev_cps: [BTreeSet<u32>; 3],
}

type TreeErr = ShardTreeError<zcash_client_sqlite::wallet::commitment_tree::Error>;

struct PoolView {
    /// checkpoint id (height) -> position (None = empty tree)
    cps: BTreeMap<u32, Option<u64>>,
    /// checkpoint id -> root bytes (None = not computable)
    roots: BTreeMap<u32, Option<[u8; 32]>>,
    /// (note id, checkpoint) -> witness root bytes (None = unavailable)
    wit: Vec<(usize, u32, Option<[u8; 32]>)>,
}

fn sapling_bytes(n: &sapling::Node) -> [u8; 32] {
    n.to_bytes()
}
fn orchard_bytes(n: &MerkleHashOrchard) -> [u8; 32] {
    n.to_bytes()
}

fn pick_checkpoints(cps: &BTreeMap<u32, Option<u64>>, note_height: u32) -> Vec<u32> {
    let above: Vec<u32> = cps.keys().copied().filter(|h| *h >= note_height).collect();
    let mut out = BTreeSet::new();
    if let (Some(a), Some(b)) = (above.first(), above.last()) {
        out.insert(*a);
        out.insert(*b);
        out.insert(above[above.len() / 2]);
    }
    out.into_iter().collect()
}

macro_rules! view_pool {
    ($tree:expr, $notes:expr, $leaf:expr, $bytes:expr, $full:expr) => {{
        let tree = $tree;
        let mut cps: BTreeMap<u32, Option<u64>> = BTreeMap::new();
        tree.store()
            .for_each_checkpoint(100_000, |id, cp| {
                cps.insert(u32::from(*id), cp.position().map(u64::from));
                Ok(())
            })
            .map_err(ShardTreeError::Storage)?;
        let mut roots = BTreeMap::new();
        // all checkpoints when there are few; otherwise the 3 lowest, the 6 highest and 5 spread ones
        let keys: Vec<u32> = cps.keys().copied().collect();
        let full: bool = $full;
        let n = keys.len();
        let sample: BTreeSet<u32> = if n <= if full { 14 } else { 4 } {
            keys.iter().copied().collect()
        } else if full {
            keys.iter().take(3).chain(keys.iter().skip(n - 6)).chain((1..=5).map(|k| &keys[k * n / 6])).copied().collect()
        } else {
            [keys[0], keys[n / 3], keys[2 * n / 3], keys[n - 1]].into_iter().collect()
        };
        for h in sample.iter() {
            let r = match tree.root_at_checkpoint_id(&BlockHeight::from_u32(*h)) {
                Ok(Some(r)) => Some($bytes(&r)),
                _ => None,
            };
            roots.insert(*h, r);
        }
        let mut wit = vec![];
        let note_iter: Vec<_> = if full { $notes.iter().collect() } else { $notes.iter().rev().take(3).collect() };
        for (nid, pos, height, cm) in note_iter {
            let mut picks = pick_checkpoints(&cps, *height);
            if !full {
                picks = picks.into_iter().rev().take(1).collect();
            }
            for h in picks {
                let r = match tree.witness_at_checkpoint_id(Position::from(*pos), &BlockHeight::from_u32(h)) {
                    Ok(Some(path)) => Some($bytes(&path.root($leaf(cm)))),
                    _ => None,
                };
                wit.push((*nid, h, r));
            }
        }
        Ok::<PoolView, TreeErr>(PoolView { cps, roots, wit })
    }};
}

fn true_root(chain: &Chain, pool: Pool, h: u32) -> [u8; 32] {
    let st = chain.state_at(h);
    match pool {
        Pool::Sapling => sapling_bytes(&st.final_sapling_tree().root()),
        Pool::Orchard => orchard_bytes(&st.final_orchard_tree().root()),
        Pool::Ironwood => orchard_bytes(&st.final_ironwood_tree().root()),
    }
}

fn check_trees(ctx: &Ctx, h: &mut Hist, st: &mut Stats, step: &str, full: bool) -> Result<(), Fail> {
    let chain = &h.chain;
    let ledger = &h.ledger;
    let rows = h.w.note_rows();
    // unspent mined wallet notes per pool: (id, position, height, cm)
    let mut notes: BTreeMap<Pool, Vec<(usize, u64, u32, [u8; 32])>> = BTreeMap::new();
    for n in &ledger.known_notes {
        let note = &chain.notes[*n];
        if !ledger.scanned.contains(&note.block_id) {
            continue;
        }
        if ledger.links.iter().any(|(nn, sb, _)| nn == n && ledger.scanned.contains(sb)) {
            continue;
        }
        // The path the WALLET produces is the one at the position it has recorded for the note: take the position
        // from the wallet's own row (and require it to be the chain's position of the note).
        let row = rows.iter().find(|r| r.pool == note.pool && r.txid == note.txid && r.out_index == note.out_index);
        let pos = match row.and_then(|r| r.position) {
            Some(p) => p,
            None => continue, // compared by C01 (mined rows); nothing to witness without a recorded position
        };
        vensure!(
            pos == note.position,
            "note-position-wrong",
            "{step}: the wallet records position {pos} for the mined note {:?} whose commitment is at position {} of the {:?} tree",
            note,
            note.position,
            note.pool
        );
        notes.entry(note.pool).or_default().push((*n, pos, note.height, note.cm));
    }
    let empty = vec![];
    let sap_notes = notes.get(&Pool::Sapling).unwrap_or(&empty).clone();
    let orc_notes = notes.get(&Pool::Orchard).unwrap_or(&empty).clone();
    let iw_notes = notes.get(&Pool::Ironwood).unwrap_or(&empty).clone();

    let db = h.w.tdb.db_mut();
    let sap = db
        .with_sapling_tree_mut::<_, _, TreeErr>(|t| view_pool!(t, sap_notes, |cm: &[u8; 32]| sapling::Node::from_bytes(*cm).unwrap(), sapling_bytes, full))
        .map_err(|e| Fail::new("tree-access-error", format!("{step}: sapling tree access failed: {e:?}")))?;
    let orc = db
        .with_orchard_tree_mut::<_, _, TreeErr>(|t| view_pool!(t, orc_notes, |cm: &[u8; 32]| MerkleHashOrchard::from_bytes(cm).unwrap(), orchard_bytes, full))
        .map_err(|e| Fail::new("tree-access-error", format!("{step}: orchard tree access failed: {e:?}")))?;
    let iw = db
        .with_ironwood_tree_mut::<_, _, TreeErr>(|t| view_pool!(t, iw_notes, |cm: &[u8; 32]| MerkleHashOrchard::from_bytes(cm).unwrap(), orchard_bytes, full))
        .map_err(|e| Fail::new("tree-access-error", format!("{step}: ironwood tree access failed: {e:?}")))?
        .ok_or_else(|| Fail::new("tree-access-error", format!("{step}: the SQLite wallet reports no Ironwood tree")))?;

    let tip = chain.tip_height();
    let base = chain.base_height;
    for (pool, v) in [(Pool::Sapling, &sap), (Pool::Orchard, &orc), (Pool::Ironwood, &iw)] {
        st.max_checkpoints_seen = st.max_checkpoints_seen.max(v.cps.len());
        for (ch, pos) in &v.cps {
            st.checkpoints_checked += 1;
            vensure!(*ch >= base && *ch <= tip, "checkpoint-off-branch", "{step}: {pool:?} tree retains a checkpoint at height {ch}, outside the current chain {base}..={tip}");
            let size = chain.sizes_at(*ch)[pool as usize] as u64;
            let want = if size == 0 { None } else { Some(size - 1) };
            vensure!(
                *pos == want,
                "checkpoint-position-wrong",
                "{step}: {pool:?} checkpoint at height {ch} has position {pos:?}, the chain's tree has size {size} there (expected {want:?})"
            );
            if !v.roots.contains_key(ch) {
                continue; // not sampled at this step
            }
            match v.roots.get(ch).copied().flatten() {
                Some(r) => {
                    st.roots_checked += 1;
                    let tr = true_root(chain, pool, *ch);
                    vensure!(r == tr, "root-mismatch", "{step}: {pool:?} root at checkpoint {ch} = {} but the true root is {}", hex::encode(r), hex::encode(tr));
                }
                None => st.roots_unavailable += 1,
            }
        }
        for (nid, ch, r) in &v.wit {
            match r {
                Some(r) => {
                    st.witnesses_checked += 1;
                    let tr = true_root(chain, pool, *ch);
                    vensure!(
                        *r == tr,
                        "witness-mismatch",
                        "{step}: {pool:?} witness for note {:?} at checkpoint {ch} hashes to {} but the true root is {}",
                        chain.notes[*nid],
                        hex::encode(r),
                        hex::encode(tr)
                    );
                }
                None => st.witnesses_unavailable += 1,
            }
        }
    }
    // (c) alignment
    let ks = |v: &PoolView| v.cps.keys().copied().collect::<BTreeSet<u32>>();
    let (a, b, c) = (ks(&sap), ks(&orc), ks(&iw));
    // Pruning horizon. ShardTree keeps a budget of 100 checkpoints per pool and prunes the oldest ones while
    // leaves are inserted, so whatever lies below a pool's 100th-highest checkpoint (now or in any earlier
    // observed state) may be gone from that pool; a pool that receives no leaves never prunes (known finding),
    // and a later historic scan may re-insert a frontier checkpoint BELOW what was pruned, so the lowest
    // checkpoint present does not tell where pruning stopped. Alignment is asserted at and above the highest
    // such floor of any pool (and, as before, above the lowest ordinary checkpoint every pool still has).
    let act = h.world.nu6_3_height();
    let interval = h.world.spec.retention_interval.unwrap_or(144);
    let on_grid = |id: u32| act.map_or(false, |a| id >= a && id % interval == 0);
    for (p, set) in [&a, &b, &c].iter().enumerate() {
        if set.len() >= 100 {
            let hundredth = *set.iter().rev().nth(99).unwrap();
            st.pruned_floor[p] = st.pruned_floor[p].max(hundredth);
        }
        // Low checkpoints that disappeared since the previous observation (pruning, or a truncation that reset this
        // pool's tree to its subtree roots because it had no checkpoint at or below the truncation height — the
        // documented per-pool outcome of `plan_tree_truncation`): whatever lies below the pool's new lowest
        // checkpoint may be absent from this pool from now on, even if a later historic scan re-inserts some of it.
        if let Some(prev_min) = st.prev_cps[p].iter().next().copied() {
            match set.iter().next().copied() {
                None => {
                    let prev_max = *st.prev_cps[p].iter().next_back().unwrap();
                    st.pruned_floor[p] = st.pruned_floor[p].max(prev_max + 1);
                }
                Some(cur_min) if cur_min > prev_min => st.pruned_floor[p] = st.pruned_floor[p].max(cur_min),
                _ => {}
            }
        }
        st.prev_cps[p] = (*set).clone();
    }
    let lowest_common = [&a, &b, &c].iter().filter_map(|s| s.iter().copied().find(|id| !on_grid(*id))).max().unwrap_or(0);
    let horizon = lowest_common.max(*st.pruned_floor.iter().max().unwrap());
    let above = |s: &BTreeSet<u32>| s.iter().copied().filter(|h| *h >= horizon).collect::<BTreeSet<u32>>();
    if !(a == b && b == c) && above(&a) == above(&b) && above(&b) == above(&c) {
        // Known finding: a pool whose tree receives no leaves never runs checkpoint pruning (its
        // checkpoints are added straight to the store), so it keeps heights the other pools pruned.
        if !ctx.known_hit("checkpoints-not-aligned-below-pruning-horizon") {
            vfail!(
                "checkpoints-not-aligned-below-pruning-horizon",
                "{step}: below the pruning horizon {horizon} the pools retain different checkpoints: sapling {} orchard {} ironwood {} checkpoints; extra heights {:?}",
                a.len(),
                b.len(),
                c.len(),
                a.union(&b).chain(c.iter()).filter(|h| **h < horizon).take(8).collect::<Vec<_>>()
            );
        }
        st.unpruned_states += 1;
    } else if !(a == b && b == c) {
        vfail!(
            "checkpoints-not-aligned",
            "{step}: pools are checkpointed at different heights (horizon {horizon}; sapling {} from {:?}, orchard {} from {:?}, ironwood {} from {:?}): sapling-only {:?}, orchard-only {:?}, ironwood-only {:?}",
            a.len(),
            a.iter().take(4).collect::<Vec<_>>(),
            b.len(),
            b.iter().take(4).collect::<Vec<_>>(),
            c.len(),
            c.iter().take(4).collect::<Vec<_>>(),
            a.difference(&b).chain(a.difference(&c)).take(6).collect::<Vec<_>>(),
            b.difference(&a).chain(b.difference(&c)).take(6).collect::<Vec<_>>(),
            c.difference(&a).chain(c.difference(&b)).take(6).collect::<Vec<_>>()
        );
    }
    st.aligned_states += 1;
    // (d) retention
    if let Some(act) = h.world.nu6_3_height() {
        for bid in &ledger.scanned {
            let blk = &chain.blocks[*bid];
            if blk.height >= act && blk.height % interval == 0 {
                st.boundaries_checked += 1;
                if blk.txs.iter().all(|t| t.recv.is_empty() && t.spends.is_empty()) {
                    st.empty_boundary_blocks += 1;
                }
                for (pool, v) in [(Pool::Sapling, &sap), (Pool::Orchard, &orc), (Pool::Ironwood, &iw)] {
                    // Known finding: a boundary scanned as HISTORY, after the pool already holds its full
                    // budget of newer checkpoints, only gets a checkpoint if its block has a commitment in
                    // that pool; the "ensured" checkpoint is dropped by update_tree's
                    // `height > min_checkpoint_height` guard.
                    let pool_horizon = v.cps.keys().copied().find(|id| !on_grid(*id)).map(|lo| lo.max(st.pruned_floor[pool as usize]));
                    if !v.cps.contains_key(&blk.height) && v.cps.len() >= 100 && pool_horizon.map_or(false, |hz| blk.height < hz) {
                        if ctx.known_hit("retention-boundary-missing-below-pruning-horizon") {
                            st.boundaries_missing_below_horizon += 1;
                            continue;
                        }
                        vfail!(
                            "retention-boundary-missing-below-pruning-horizon",
                            "{step}: retention boundary {} (interval {interval}, NU6.3 at {act}) was scanned after the {pool:?} tree had filled its checkpoint budget ({} checkpoints, lowest ordinary one {:?}) and has no checkpoint",
                            blk.height,
                            v.cps.len(),
                            pool_horizon
                        );
                    }
                    vensure!(
                        v.cps.contains_key(&blk.height),
                        "retention-boundary-missing",
                        "{step}: retention boundary {} (interval {interval}, NU6.3 at {act}) is scanned but the {pool:?} tree has no checkpoint there; it has {} checkpoints {:?}..{:?}",
                        blk.height,
                        v.cps.len(),
                        v.cps.keys().next(),
                        v.cps.keys().last()
                    );
                }
            }
        }
    }
    Ok(())
}

fn run_case(ctx: &Ctx, case: &Case) -> CaseResult {
    run_case_opt(ctx, case, true)
}

/// `exclude_known`: stop the history (counted) as soon as a reorganising rewind cuts through a subtree
/// annotated by an earlier frontier insertion — the exact trigger of the known shardtree finding — so
/// that the search continues behind it. The regression sub-check runs the recorded history without
/// the exclusion.
fn run_case_opt(ctx: &Ctx, case: &Case, exclude_known: bool) -> CaseResult {
    let mut h = Hist::new(&case.world, false);
    let mut st = Stats::default();
    for (i, op) in case.ops.iter().enumerate() {
        let step = step_name(i, op);
        match h.apply(op, &step) {
            Err(f) if f.signature == SIG_TREE_CONFLICT && h.tainted_stale_annotation && exclude_known => {
                return Ok(Obs::trivial().label("excluded-known:stale-annotation-after-reorg"));
            }
            Err(f) if f.signature == SIG_STALE_SUBTREE_ROOT && exclude_known => {
                return Ok(Obs::trivial().label("excluded-known:stale-subtree-root-after-reorg"));
            }
            Err(f) if f.signature == SIG_STALE_CHECKPOINT && exclude_known => {
                return Ok(Obs::trivial().label("excluded-known:chain-state-truncation-keeps-checkpoints").label("rewind"));
            }
            r => r?,
        }
        if h.tainted_stale_annotation && exclude_known {
            return Ok(Obs::trivial().label("excluded-known:stale-annotation-after-reorg").label_if(h.flags.truncations > 0, "rewind"));
        }
        if h.tainted_stale_subtree_root && exclude_known {
            // the exact trigger of the second known finding: a reorganising rewind orphaned the block that completed
            // a subtree whose root the wallet had already been given
            return Ok(Obs::trivial().label("excluded-known:stale-subtree-root-after-reorg").label("rewind"));
        }
        check_trees(ctx, &mut h, &mut st, &step, i % 5 == 4)?;
        if h.flags.chain_state_truncation_cut_trees && exclude_known {
            // `truncate_to_chain_state` rewrote the trees: they are checked in full right here; what the wallet does
            // with them AFTERWARDS is where three recorded findings live (known_findings.json: chain-state-*), whose
            // further consequences are not all enumerable by an exact trigger, so generated histories end here
            // (C01 keeps going: balances do not depend on the trees).
            check_trees(ctx, &mut h, &mut st, &step, true)?;
            return Ok(Obs::new(!h.ledger.known_notes.is_empty()).label("stopped-after-chain-state-truncation-of-scanned-blocks").label("truncate-to-chain-state").label("rewind"));
        }
    }
    if h.chain.tip_height() > h.base() {
        h.scan_all(case.final_chunk)?;
        check_trees(ctx, &mut h, &mut st, "final", true)?;
    }
    st.pruning_ran = h.ledger.scanned.len() > 110;
    let f = &h.flags;
    let wallet_notes = h.ledger.known_notes.len();
    let nontrivial = wallet_notes > 0 && (st.empty_boundary_blocks > 0 || st.pruning_ran || (f.truncations > 0 && f.scans > 1) || f.out_of_order);
    Ok(Obs::new(nontrivial)
        .label_if(wallet_notes > 0, "has-wallet-notes")
        .label_if(h.chain.base_sizes != [0, 0, 0], "non-empty-birthday-frontier")
        .label_if(h.chain.crossed_shard_boundary(), "shard-boundary-crossed")
        .label_if(h.flags.subtree_roots_put > 0, "subtree-roots-put")
        .label_if(h.flags.remined_txs > 0, "wallet-tx-mined-again-after-reorg")
        .label_if(h.flags.chain_state_truncations > 0, "truncate-to-chain-state")
        .label_if(h.flags.chain_state_truncations_below_request > 0, "observation:chain-state-truncation-dropped-below-request")
        .label_if(f.out_of_order, "out-of-order")
        .label_if(f.truncations > 0, "rewind")
        .label_if(st.empty_boundary_blocks > 0, "empty-boundary-block")
        .label_if(st.boundaries_checked > 0, "retention-boundary-scanned")
        .label_if(st.pruning_ran, ">110-scanned-blocks")
        .label_if(st.max_checkpoints_seen >= 100, "checkpoint-budget-reached")
        .label_if(st.witnesses_checked > 0, "witness-verified")
        .count("checkpoints-checked", st.checkpoints_checked)
        .count("roots-verified", st.roots_checked)
        .count("roots-unavailable", st.roots_unavailable)
        .count("witnesses-verified", st.witnesses_checked)
        .count("witnesses-unavailable", st.witnesses_unavailable)
        .count("retention-boundaries-checked", st.boundaries_checked)
        .count("aligned-states", st.aligned_states)
        .count("states-with-unpruned-checkpoints-in-a-static-pool", st.unpruned_states)
        .count("boundaries-missing-below-pruning-horizon", st.boundaries_missing_below_horizon))
}

/// The recorded history of the known shardtree finding (kept as a regression input).
fn known_stale_annotation_case() -> Case {
    let recv = |v: u64| BlockSpec { txs: vec![TxSpec { items: vec![ItemSpec::Recv { pool: Pool::Sapling, who: Who::Wallet(0), scope: ScopeSel::External, value: v }] }] };
    Case {
        world: WorldSpec { seed: [7; 32], n_accounts: 1, n_foreign: 0, nu6_3_offset: None, retention_interval: None, base: None },
        long: false,
        ops: vec![
            Op::AddBlocks(vec![recv(10_000), recv(20_000), recv(30_000), recv(40_000)]),
            Op::Scan { sel: 0, len: 3 },
            Op::ScanGap { which: 0, from_end: false, chunk: 5 },
            Op::Truncate { depth: 3, reorg: true },
            Op::AddBlocks(vec![recv(50_000), recv(60_000)]),
        ],
        final_chunk: 10,
    }
}

/// The recorded history of the known stale-subtree-root finding: the Sapling tree is one leaf short of completing
/// shard 0; a block completes it, the wallet is given the subtree root (documented sync-round start), a reorg replaces
/// that block by one with a different output, and the next sync round hands over the new root of shard 0.
fn known_stale_subtree_root_case() -> Case {
    let recv = |v: u64| BlockSpec { txs: vec![TxSpec { items: vec![ItemSpec::Recv { pool: Pool::Sapling, who: Who::Wallet(0), scope: ScopeSel::External, value: v }] }] };
    Case {
        world: WorldSpec { seed: [8; 32], n_accounts: 1, n_foreign: 0, nu6_3_offset: None, retention_interval: None, base: Some(BaseSpec { gap: 3, sizes: [65535, 0, 0] }) },
        long: false,
        ops: vec![
            Op::AddEmpty(2),
            Op::AddBlocks(vec![recv(10_000)]),
            Op::PutSubtreeRoots { pool: 0 },
            Op::Scan { sel: 0, len: 2 },
            Op::Truncate { depth: 0, reorg: true },
            Op::AddBlocks(vec![recv(20_000), recv(30_000)]),
            Op::UpdateTip { behind: 0 },
        ],
        final_chunk: 10,
    }
}

/// The recorded history of the known finding `chain-state-truncation-checkpoint-pruned-at-once`: three empty blocks,
/// 111 blocks that each add one commitment to one of the three pools in rotation, everything scanned (the first block
/// alone, then the rest, then the gap), and a `truncate_to_chain_state` to the second empty block, 112 blocks below
/// the tip.
fn known_deep_chain_state_truncation_case() -> Case {
    Case {
        world: WorldSpec { seed: [3; 32], n_accounts: 2, n_foreign: 2, nu6_3_offset: Some(4), retention_interval: Some(11), base: Some(BaseSpec { gap: 22, sizes: [0, 196599, 65533] }) },
        long: true,
        ops: vec![
            Op::AddEmpty(1),
            Op::AddBlocks(vec![BlockSpec::default()]),
            Op::AddBlocks(vec![BlockSpec::default(), BlockSpec::default()]),
            Op::AddBusy { n: 111, pool_sel: 45, wallet_every: 19 },
            Op::Scan { sel: 0, len: 1 },
            Op::Scan { sel: 74695084, len: 113 },
            Op::ScanGap { which: 1562397452, from_end: true, chunk: 122 },
            Op::TruncateToChainState { depth: 112, reorg: false },
        ],
        final_chunk: 50,
    }
}

/// The recorded history of the known finding `chain-state-truncation-keeps-checkpoints`: two empty blocks, only the
/// second one scanned (frontier checkpoint at the first one's height), `truncate_to_chain_state` to the state below
/// both, and a different continuation of the chain.
fn known_stale_checkpoint_case() -> Case {
    let recv = |v: u64| BlockSpec { txs: vec![TxSpec { items: vec![ItemSpec::Recv { pool: Pool::Sapling, who: Who::Wallet(0), scope: ScopeSel::External, value: v }] }] };
    Case {
        world: WorldSpec { seed: [5; 32], n_accounts: 1, n_foreign: 1, nu6_3_offset: Some(10), retention_interval: Some(6), base: None },
        long: false,
        ops: vec![
            Op::AddBlocks(vec![BlockSpec::default(), BlockSpec::default()]),
            Op::Scan { sel: 2147483651, len: 10 },
            Op::TruncateToChainState { depth: 8, reorg: true },
            Op::AddBlocks(vec![recv(10_000), recv(20_000)]),
        ],
        final_chunk: 10,
    }
}

fn main() {
    chainsim::init_sqlite();
    let ctx = Ctx::from_args("C06", "exploration");
    ctx.set_rule(
        "proptest wallet histories (as C01: blocks with receipts/spends in 3 pools, arbitrary scan order and chunking, tip updates, \
         truncations with/without reorg; worlds with NU6.3 activating inside the chain and retention intervals 1..12 or 144; long-chain \
         class with >100 blocks). After every op all three ShardTrees are read: checkpoint ids/positions/roots vs the model's true \
         frontiers, witnesses of unspent mined notes at the lowest/middle/highest checkpoint >= the note, cross-pool alignment, retention \
         boundaries. Non-trivial = history with >=1 wallet note and (empty boundary block | >110 scanned blocks | rewind followed by \
         rescans | out-of-order scan); distinct = hash of the case.",
    );
    ctx.assume("a root/witness the tree cannot compute (unscanned gap) is counted, not asserted; only produced values are compared");
    ctx.assume("model frontiers are maintained with incrementalmerkletree::Frontier from the generated commitments");
    let tier = ctx.tier;
    // Regression: the recorded history of the known finding, run WITHOUT the exclusion. While the defect
    // exists this prints KNOWN-FINDING (signature listed in known_findings.json); once it is gone the
    // history simply passes.
    {
        let ctx2 = ctx.clone();
        ctx.run_enum(
            "regression-known-stale-annotation",
            1,
            false,
            move |_| match run_case_opt(&ctx2, &known_stale_annotation_case(), false) {
                Err(f) if f.signature == "root-mismatch" || f.signature == "witness-mismatch" || f.signature == SIG_TREE_CONFLICT => {
                    Err(Fail::new("stale-annotation-after-reorg", f.msg))
                }
                r => r,
            },
            |_| format!("{:?}", known_stale_annotation_case()),
        );
    }
    {
        let ctx2 = ctx.clone();
        ctx.run_enum(
            "regression-known-stale-subtree-root",
            1,
            false,
            move |_| match run_case_opt(&ctx2, &known_stale_subtree_root_case(), false) {
                Err(f) if f.signature == SIG_STALE_SUBTREE_ROOT || f.signature == "root-mismatch" || f.signature == "witness-mismatch" => Err(Fail::new(SIG_STALE_SUBTREE_ROOT, f.msg)),
                r => r,
            },
            |_| format!("{:?}", known_stale_subtree_root_case()),
        );
    }
    {
        let ctx2 = ctx.clone();
        ctx.run_enum(
            "regression-known-stale-checkpoint-after-chain-state-truncation",
            1,
            false,
            move |_| match run_case_opt(&ctx2, &known_stale_checkpoint_case(), false) {
                Err(f) if f.signature == SIG_STALE_CHECKPOINT || f.signature == "checkpoint-off-branch" => Err(Fail::new(SIG_STALE_CHECKPOINT, f.msg)),
                r => r,
            },
            |_| format!("{:?}", known_stale_checkpoint_case()),
        );
    }
    {
        let ctx2 = ctx.clone();
        ctx.run_enum(
            "regression-known-deep-chain-state-truncation",
            1,
            false,
            move |_| match run_case_opt(&ctx2, &known_deep_chain_state_truncation_case(), false) {
                Err(f) if f.signature == "truncate-to-chain-state-failed" => Err(Fail::new("chain-state-truncation-checkpoint-pruned-at-once", f.msg)),
                r => r,
            },
            |_| format!("{:?}", known_deep_chain_state_truncation_case()),
        );
    }
    ctx.run_prop_with("histories", || arb_case_opts(22, 12, true), tier.pick(256, 15_000), 50, |c| run_case(&ctx, c));
    ctx.require_label_fraction("histories", "witness-verified", 0.2);
    ctx.require_label_fraction("histories", "rewind", 0.15);
    ctx.require_label_fraction("histories", "retention-boundary-scanned", 0.08);
    ctx.run_prop_with("long-chains", || arb_case_opts(12, 100, true), tier.pick(32, 3_000), 30, |c| run_case(&ctx, c));
    ctx.require_label_fraction("long-chains", "checkpoint-budget-reached", 0.25);
    ctx.finish();
}

//! C01, sub-check "transparent-balances": the wallet's UNSHIELDED balance is exactly the ledger of its unspent coins.
//!
//! The chain model (chainsim) has no transparent outputs, so the coins live in a model of their own inside this file
//! (`TTx`, `Coin`; the shape is the one validated by the C08 check, copied, not shared). A chainsim wallet history
//! (blocks, scans in any order, tip updates, rewinds with and without a reorganisation) runs first; then coin
//! operations are interleaved with further history operations. The wallet learns of a coin the way a light client
//! does: `put_received_transparent_utxo` (what `sync::refresh_utxos` does for every UTXO the server lists) or
//! `decrypt_and_store_transaction` of the full transaction (mined, seen in the mempool, or a coinbase transaction), or
//! both, in either order. Coins are spent by mined, mempool or stored (`store_transactions_to_be_sent`) transactions,
//! un-mined by rewinds, re-announced on the new branch, and the tip advances past expiry heights and coinbase maturity.
//!
//! Oracle, after EVERY operation and for two confirmation policies (`ConfirmationsPolicy::MIN`, the one
//! `SimWallet::balances()` passes, and "3 confirmations, no zero-conf"): per account the regular and the coinbase
//! part of `get_wallet_summary(..).account_balances()[account]` (`unshielded_regular_balance`,
//! `unshielded_coinbase_balance`, `unshielded_balance` = their sum) and per address
//! `get_transparent_balances(account, tip + 1, policy)` are compared with the model:
//!
//! * MUST count (total + uneconomic): coins addressed to the account whose transaction is mined at a height <= the
//!   wallet's tip on the chain state the wallet knows of (told mined, no rewind went below that height since) and that
//!   no mined and no unexpired un-mined transaction spends;
//! * MUST NOT count: coins of other accounts / nobody's address, coins spent by a mined transaction or by an un-mined
//!   transaction that is unexpired at tip + 1 (expiry 0, or expiry >= tip + 1: the spenders are always full
//!   transactions, so the wallet knows their expiry), coins of an un-mined transaction that has expired (known
//!   expiry: 0 < expiry < tip + 1; unknown expiry: first observed height + 40 < tip + 1);
//! * MAY count (documentation leaves it open): coins of an un-mined, unexpired transaction (never mined: C01's text
//!   says "in blocks of the current chain", the `unshielded_balance` rustdoc says funds without the required
//!   confirmations are pending; orphaned by a rewind: C01 only says they stop counting once they expire).
//! * split: value <= 5000 (marginal fee) is `uneconomic_value`, never spendable/pending; a mined coin is
//!   `spendable_value` iff tip + 1 - mined_height >= required confirmations (0 under MIN) and, if the wallet knows it
//!   is a coinbase output (it was given the full transaction), tip + 1 - mined_height >= 100; otherwise
//!   `value_pending_spendability`; nothing is ever locked or pending change here; an un-mined coin is never
//!   spendable under the no-zero-conf policy; an un-mined coinbase coin is never spendable.
//!
//! * observation, not asserted (C01 fixes total + uneconomic only; DESIGN.md 9.4): `get_wallet_summary` applies the dust
//!   threshold to the summed value of a group of coins (same account, coinbase or not, >= 100 confirmations or not)
//!   instead of each coin. A balance that the per-coin split does not explain is accepted iff this second reading
//!   (`dust_group_reading`) explains it exactly, and counted under `observation:transparent-dust-threshold-applied-to-summed-group`.
//!
//! At the end every gap is scanned and, when no MAY coin and no unexpired un-mined spender is left, the balances are
//! compared with those of a fresh wallet that scans the chain once and is told the mined coin transactions in order.

#![allow(dead_code)]

use std::collections::{BTreeMap, BTreeSet};
use std::num::NonZeroU32;
use std::sync::Arc;

use chainsim::*;
use proptest::prelude::*;
use vcore::{vensure, vfail, CaseResult, Ctx, Fail, Obs};
use zcash_client_backend::{
    data_api::{
        wallet::{decrypt_and_store_transaction, ConfirmationsPolicy, TargetHeight},
        Balance, SentTransaction, WalletRead, WalletWrite,
    },
    wallet::WalletTransparentOutput,
};
use zcash_keys::keys::UnifiedAddressRequest;
use zcash_primitives::transaction::{Transaction, TransactionData, TxVersion};
use zcash_protocol::{
    consensus::{BlockHeight, BranchId},
    value::Zatoshis,
};
use zcash_transparent::{
    address::{Script, TransparentAddress},
    bundle::{Authorized as TAuthorized, Bundle as TBundle, OutPoint, TxIn, TxOut},
    keys::{IncomingViewingKey, NonHardenedChildIndex},
};

pub const SUB: &str = "transparent-balances";

const MAX_MONEY: u64 = 2_100_000_000_000_000;
/// all transparent value ever generated in one case stays below this (a chain cannot hold more than MAX_MONEY; the
/// wallet's `AccountBalance` rejects sums above it)
const VALUE_BUDGET: u64 = MAX_MONEY / 4;
/// consensus coinbase maturity (`unshielded_coinbase_balance` rustdoc; repository test `transparent_coinbase_balance_split`)
const COINBASE_MATURITY: u32 = 100;
/// confirmations required by the second policy
const POLICY2_CONFS: u32 = 3;

type CoinKey = ([u8; 32], u32);

// ---------------------------------------------------------------------------------------------
// Case description
// ---------------------------------------------------------------------------------------------

/// One transparent address of a wallet account, named by how the account's keys derive it.
#[derive(Clone, Copy, Debug, PartialEq, Eq, PartialOrd, Ord)]
enum Slot {
    /// the transparent receiver of the account's default unified address
    Default,
    /// external-scope address at this child index
    Ext(u8),
    /// internal-scope (change) address at this child index
    Int(u8),
}

const SLOTS: [Slot; 4] = [Slot::Default, Slot::Ext(1), Slot::Ext(2), Slot::Int(0)];

#[derive(Clone, Copy, Debug)]
enum ExpSel {
    /// expiry height 0: never expires
    Never,
    /// expires at (wallet tip + 1) + k
    After(u8),
    /// an expiry height below the wallet's tip (a stale mempool transaction); for a mined transaction: its own height
    Stale,
}

#[derive(Clone, Copy, Debug, PartialEq, Eq)]
enum Api {
    /// `put_received_transparent_utxo` for every wallet-addressed output
    Put,
    /// `decrypt_and_store_transaction` of the full transaction
    Full,
}

#[derive(Clone, Copy, Debug)]
enum RecvHow {
    /// `put_received_transparent_utxo` with a mined height of the current branch (`known_height`) or `None`
    Put { known_height: bool },
    /// `decrypt_and_store_transaction`, mined or seen in the mempool
    Full { mined: bool },
    /// both APIs about the same transaction, one after the other (`first` first)
    Both { first: Api, mined: bool },
    /// a mined coinbase transaction: `decrypt_and_store_transaction` (the wallet then knows it is coinbase);
    /// `also_put`: the UTXO listing reports the same outputs as well, before or after
    Coinbase { also_put: Option<bool> },
    /// a coinbase output known only from the UTXO listing (the wallet cannot tell that it is coinbase: documented FIXME)
    CoinbasePutOnly,
}

#[derive(Clone, Debug)]
struct CoinRecv {
    how: RecvHow,
    account: u8,
    /// (account shift, address slot or `None` = nobody's address, value)
    outs: Vec<(u8, Option<Slot>, u64)>,
    /// mined at wallet tip - depth (clipped to the modelled chain)
    depth: u8,
    expiry: ExpSel,
}

#[derive(Clone, Copy, Debug)]
enum SpendHow {
    /// `decrypt_and_store_transaction(tx, Some(height))`
    Mined { depth: u8 },
    /// `decrypt_and_store_transaction(tx, None)`: seen in the mempool
    Mempool,
    /// `store_transactions_to_be_sent` with `utxos_spent`: a transaction the wallet created and has not seen mined
    Stored,
}

#[derive(Clone, Debug)]
struct CoinSpend {
    sels: Vec<u32>,
    how: SpendHow,
    expiry: ExpSel,
    /// an output of the spending transaction that pays the spender's own account again
    back: Option<(Slot, u64)>,
}

#[derive(Clone, Debug)]
enum COp {
    Recv(CoinRecv),
    Spend(CoinSpend),
    /// an un-mined transaction (creating or spending coins) is announced as mined at a height of the current branch
    Remine { sel: u32, api: Api, depth: u8 },
    /// a transaction the wallet already knows is reported again, unchanged, through either API
    /// (`without_height`: even if it is mined the caller passes no height: "unknown to the caller", which must not un-mine it)
    Repeat { sel: u32, api: Api, without_height: bool },
    /// one empty block (scanned); a coin mined in it; a reorganisation removes that block (rewind by 1 + `extra`);
    /// `n` new blocks; then possibly the same transaction is mined again on the new branch
    RecvThenReorg { recv: CoinRecv, extra: u8, n: u8, remine: Option<(Api, u8)> },
    /// the same for a transaction that spends coins
    SpendThenReorg { spend: CoinSpend, extra: u8, n: u8, remine: Option<u8> },
    /// a coinbase output mined in the tip block, then `n` more blocks (mature at tip + 1 iff n + 1 >= 100)
    CoinbaseMatured { account: u8, slot: Slot, value: u64, n: u8 },
    /// a UTXO listing that is ahead of the wallet: a coin mined `k` blocks above the wallet's tip, then the tip catches up
    RecvAboveTip { account: u8, slot: Slot, value: u64, k: u8 },
    /// the wallet hears of the transaction that SPENDS a coin (mined or in the mempool; it pays the account again, so
    /// the wallet stores it) before it hears of the coin itself (mined two blocks below the tip)
    SpendBeforeRecv { account: u8, slot: Slot, value: u64, spend_mined: bool, recv_api: Api, expiry: ExpSel, back: u64 },
}

#[derive(Clone, Debug)]
enum XOp {
    Coin(COp),
    /// a plain history op (blocks, scans, tip updates, rewinds, re-mined shielded transactions)
    Hist(Op),
    /// n empty blocks; the wallet is told the new tip; `scan`: and scans them
    Advance { n: u8, scan: bool },
}

#[derive(Clone, Debug)]
pub struct TCase {
    base: Case,
    seed_advance: u8,
    xops: Vec<XOp>,
}

fn arb_slot() -> impl Strategy<Value = Slot> {
    prop_oneof![6 => Just(Slot::Default), 3 => Just(Slot::Ext(1)), 1 => Just(Slot::Ext(2)), 2 => Just(Slot::Int(0))]
}

fn arb_exp_sel() -> impl Strategy<Value = ExpSel> {
    prop_oneof![2 => Just(ExpSel::Never), 3 => (0u8..4).prop_map(ExpSel::After), 3 => (4u8..45).prop_map(ExpSel::After), 1 => Just(ExpSel::Stale)]
}

fn arb_api() -> impl Strategy<Value = Api> {
    prop_oneof![Just(Api::Put), Just(Api::Full)]
}

fn arb_coin_value() -> impl Strategy<Value = u64> {
    prop_oneof![
        1 => Just(0u64),
        1 => Just(4999u64),
        2 => Just(5000u64),
        2 => Just(5001u64),
        1 => 1u64..5000,
        5 => 5_002u64..2_000_000,
        2 => 1_000_000u64..100_000_000_000,
        1 => Just(MAX_MONEY / 64),
        1 => Just(MAX_MONEY),
    ]
}

fn arb_coin_recv(na: u8) -> impl Strategy<Value = CoinRecv> {
    let how = prop_oneof![
        7 => Just(RecvHow::Put { known_height: true }),
        1 => Just(RecvHow::Put { known_height: false }),
        3 => Just(RecvHow::Full { mined: true }),
        4 => Just(RecvHow::Full { mined: false }),
        3 => (arb_api(), prop::bool::weighted(0.7)).prop_map(|(first, mined)| RecvHow::Both { first, mined }),
        3 => prop::option::weighted(0.3, any::<bool>()).prop_map(|also_put| RecvHow::Coinbase { also_put }),
        1 => Just(RecvHow::CoinbasePutOnly),
    ];
    let out = (prop_oneof![8 => Just(0u8), 2 => Just(1u8)], prop::option::weighted(0.93, arb_slot()), arb_coin_value());
    (how, 0..na.max(1), proptest::collection::vec(out, 1..=2), prop_oneof![3 => Just(0u8), 3 => 1u8..4, 3 => 4u8..12, 1 => 12u8..60], arb_exp_sel())
        .prop_map(|(how, account, outs, depth, expiry)| CoinRecv { how, account, outs, depth, expiry })
}

fn arb_coin_spend() -> impl Strategy<Value = CoinSpend> {
    (
        proptest::collection::vec(any::<u32>(), 1..=2),
        prop_oneof![3 => (0u8..6).prop_map(|depth| SpendHow::Mined { depth }), 4 => Just(SpendHow::Mempool), 3 => Just(SpendHow::Stored)],
        arb_exp_sel(),
        prop::option::weighted(0.3, (arb_slot(), arb_coin_value())),
    )
        .prop_map(|(sels, how, expiry, back)| CoinSpend { sels, how, expiry, back })
}

fn arb_cop(na: u8) -> impl Strategy<Value = COp> {
    prop_oneof![
        10 => arb_coin_recv(na).prop_map(COp::Recv),
        7 => arb_coin_spend().prop_map(COp::Spend),
        3 => (any::<u32>(), arb_api(), 0u8..6).prop_map(|(sel, api, depth)| COp::Remine { sel, api, depth }),
        3 => (any::<u32>(), arb_api(), prop::bool::weighted(0.4)).prop_map(|(sel, api, without_height)| COp::Repeat { sel, api, without_height }),
        3 => (arb_coin_recv(na), 0u8..2, 1u8..4, prop::option::weighted(0.4, (arb_api(), 0u8..3))).prop_map(|(recv, extra, n, remine)| COp::RecvThenReorg { recv, extra, n, remine }),
        3 => (arb_coin_spend(), 0u8..2, 1u8..4, prop::option::weighted(0.4, 0u8..3)).prop_map(|(spend, extra, n, remine)| COp::SpendThenReorg { spend, extra, n, remine }),
        2 => (0..na.max(1), arb_slot(), prop_oneof![2 => Just(625_000_000u64), 3 => 10_000u64..2_000_000, 2 => arb_coin_value()], prop_oneof![4 => 97u8..=100, 1 => 90u8..=110])
            .prop_map(|(account, slot, value, n)| COp::CoinbaseMatured { account, slot, value, n }),
        1 => (0..na.max(1), arb_slot(), arb_coin_value(), 1u8..4).prop_map(|(account, slot, value, k)| COp::RecvAboveTip { account, slot, value, k }),
        2 => (0..na.max(1), arb_slot(), arb_coin_value(), any::<bool>(), arb_api(), arb_exp_sel(), arb_coin_value())
            .prop_map(|(account, slot, value, spend_mined, recv_api, expiry, back)| COp::SpendBeforeRecv { account, slot, value, spend_mined, recv_api, expiry, back }),
    ]
}

fn arb_xop(na: u8, nf: u8, iw: bool) -> impl Strategy<Value = XOp> {
    prop_oneof![
        12 => arb_cop(na).prop_map(XOp::Coin),
        5 => arb_op_opts(na, nf, iw, false, true).prop_map(XOp::Hist),
        3 => (prop_oneof![5 => 1u8..=6, 2 => 35u8..=45, 1 => 95u8..=105], any::<bool>()).prop_map(|(n, scan)| XOp::Advance { n, scan }),
    ]
}

pub fn arb_tcase() -> impl Strategy<Value = TCase> {
    (arb_case_opts(10, 6, true), 0u8..8).prop_flat_map(|(base, seed_advance)| {
        let iw = base.world.nu6_3_offset.is_some();
        let (na, nf) = (base.world.n_accounts, base.world.n_foreign);
        proptest::collection::vec(arb_xop(na, nf, iw), 8..26).prop_map(move |xops| TCase { base: base.clone(), seed_advance, xops })
    })
}

// ---------------------------------------------------------------------------------------------
// Model
// ---------------------------------------------------------------------------------------------

/// A transaction of the transparent model: one that creates coins, spends coins, or both.
struct TTx {
    txid: [u8; 32],
    tx: Transaction,
    /// outputs: (wallet owner, address, value)
    outs: Vec<(Option<(u8, Slot)>, TransparentAddress, u64)>,
    /// the model coins it spends
    vin: Vec<CoinKey>,
    /// the wallet was given the full transaction (it then knows the expiry height and whether it is coinbase)
    wallet_has_full: bool,
    /// the wallet was told about the transaction at all
    told: bool,
    /// the height at which the wallet was last told this transaction is mined, unless a later rewind went below it
    mined: Option<u32>,
    expiry: u32,
    /// the lowest height at which the wallet observed the transaction (documented `min_observed_height` rule)
    first_observed: u32,
    coinbase: bool,
    /// a rewind went below the height at which the transaction was mined
    rewound: bool,
    told_put: bool,
    told_full: bool,
    remined: bool,
    /// stored through `store_transactions_to_be_sent` (a transaction the wallet created itself)
    stored_by_wallet: bool,
}

#[derive(Clone, Debug)]
struct Coin {
    key: CoinKey,
    /// creating transaction (index into `Model::ttxs`)
    tx: usize,
    account: u8,
    slot: Slot,
    addr: TransparentAddress,
    value: u64,
    /// spending transactions the wallet was told about (indices into `Model::ttxs`)
    spenders: Vec<usize>,
}

/// the transparent addresses of one account, derived from its unified full viewing key
fn derive_addrs(ks: &KeySet) -> BTreeMap<Slot, TransparentAddress> {
    let apk = ks.ufvk.transparent().expect("chainsim accounts have a transparent key");
    let ext = apk.derive_external_ivk().expect("external ivk");
    let int = apk.derive_internal_ivk().expect("internal ivk");
    let idx = |i: u8| NonHardenedChildIndex::from_index(i as u32).expect("small index");
    let mut by_slot = BTreeMap::new();
    let (ua, _) = ks.ufvk.default_address(UnifiedAddressRequest::AllAvailableKeys).expect("default address");
    by_slot.insert(Slot::Default, *ua.transparent().expect("default UA has a transparent receiver"));
    for i in [1u8, 2] {
        by_slot.insert(Slot::Ext(i), ext.derive_address(idx(i)).expect("external address"));
    }
    by_slot.insert(Slot::Int(0), int.derive_address(idx(0)).expect("internal address"));
    by_slot
}

#[derive(Default)]
struct Stats {
    checks: u64,
    summaries: u64,
    no_summary: u64,
    coins_received: u64,
    rejected: u64,
    rejected_unknown_addr: u64,
    errors: BTreeSet<String>,
    spends: u64,
    rewinds_unmining_coin_tx: u64,
    fresh_compared: u64,
    fresh_skipped_undetermined: u64,
    // states (per check)
    s_counted: u64,
    s_excluded: u64,
    s_may: u64,
    s_may_counted: u64,
    s_may_not_counted: u64,
    l_unmined_never: bool,
    l_orphaned: bool,
    l_orphan_expired: bool,
    l_expired: bool,
    l_spent_mined: bool,
    l_spent_mempool: bool,
    l_spent_stored: bool,
    l_spent_orphan_spender: bool,
    l_spender_expired: bool,
    l_two_accounts: bool,
    l_other_account_zero: bool,
    l_cb_immature: bool,
    l_cb_mature: bool,
    l_cb_orphaned: bool,
    l_cb_unknown_to_wallet: bool,
    l_dust: bool,
    l_at_threshold: bool,
    l_above_threshold: bool,
    l_zero: bool,
    l_huge: bool,
    l_both_apis: bool,
    l_remined: bool,
    l_underconfirmed_p2: bool,
    l_mined_scanned: bool,
    l_mined_unscanned: bool,
    l_above_tip: bool,
    l_nobody: bool,
    l_repeat_without_height: bool,
    l_spend_before_recv: bool,
    l_unknown_expiry_unmined: bool,
    obs_per_address_sum_differs: bool,
    obs_per_address_immature_spendable: bool,
    obs_orphaned_coinbase_counted: bool,
    obs_dust_group: u64,
}

struct Model {
    addrs: Vec<BTreeMap<Slot, TransparentAddress>>,
    owner: BTreeMap<TransparentAddress, (u8, Slot)>,
    ttxs: Vec<TTx>,
    coins: Vec<Coin>,
    coin_index: BTreeMap<CoinKey, usize>,
    salt: u32,
    seed: [u8; 32],
    minted: u64,
}

impl Model {
    fn new(world: &World) -> Self {
        let mut seed = world.spec.seed;
        seed[5] ^= 0x3c;
        seed[19] ^= 0xc3;
        let addrs: Vec<_> = world.accounts.iter().map(derive_addrs).collect();
        let mut owner = BTreeMap::new();
        for (a, m) in addrs.iter().enumerate() {
            for (s, addr) in m {
                owner.insert(*addr, (a as u8, *s));
            }
        }
        Model { addrs, owner, ttxs: vec![], coins: vec![], coin_index: BTreeMap::new(), salt: 0, seed, minted: 0 }
    }

    fn next_salt(&mut self) -> u32 {
        self.salt += 1;
        self.salt
    }

    /// a made-up txid (of a transaction the wallet never sees), a function of the case only
    fn fake_txid(&mut self) -> [u8; 32] {
        let s = self.next_salt();
        let mut out = [0u8; 32];
        for k in 0..4u8 {
            let mut input = self.seed.to_vec();
            input.extend_from_slice(&s.to_le_bytes());
            input.push(k);
            input.extend_from_slice(b"c01-coin-txid");
            out[k as usize * 8..k as usize * 8 + 8].copy_from_slice(&vcore::hash64(&input).to_le_bytes());
        }
        out
    }

    fn addr(&self, account: u8, slot: Slot) -> TransparentAddress {
        self.addrs[account as usize % self.addrs.len()][&slot]
    }

    fn unknown_taddr(&self) -> TransparentAddress {
        TransparentAddress::PublicKeyHash(hash20(&self.seed, 0x5c))
    }

    /// takes `v` out of the case's value budget
    fn mint(&mut self, v: u64) -> u64 {
        let v = v.min(VALUE_BUDGET - self.minted);
        self.minted += v;
        v
    }

    fn add_coin(&mut self, tx: usize, n: u32, account: u8, slot: Slot, addr: TransparentAddress, value: u64) -> bool {
        let key = (self.ttxs[tx].txid, n);
        if self.coin_index.contains_key(&key) {
            return false;
        }
        let id = self.coins.len();
        // spenders the wallet heard of before the coin (recorded in its spend map) apply from now on
        let spenders: Vec<usize> = (0..self.ttxs.len()).filter(|s| self.ttxs[*s].told_full && self.ttxs[*s].vin.contains(&key)).collect();
        self.coins.push(Coin { key, tx, account, slot, addr, value, spenders });
        self.coin_index.insert(key, id);
        true
    }

    /// The documented effect of a rewind to `height` ("the block at the returned height will be the most recent
    /// block"): transactions mined above it are no longer mined.
    fn on_rewind(&mut self, height: u32) -> u64 {
        let mut n = 0;
        for t in self.ttxs.iter_mut() {
            if t.mined.map_or(false, |h| h > height) {
                t.mined = None;
                t.rewound = true;
                n += 1;
            }
        }
        n
    }
}

fn hash20(seed: &[u8], tag: u8) -> [u8; 20] {
    let mut input = seed.to_vec();
    input.push(tag);
    let h = vcore::hash64(&input).to_le_bytes();
    let mut out = [0u8; 20];
    for (i, b) in out.iter_mut().enumerate() {
        *b = h[i % 8] ^ (i as u8).wrapping_mul(31) ^ tag;
    }
    out
}

/// A transparent-only v5 transaction (as the repository's own tests build them): the given inputs (or the coinbase
/// input), outputs and expiry height; `salt` (the lock time) makes the txid unique.
fn make_ttx(vin: &[CoinKey], vout: &[(TransparentAddress, u64)], expiry: u32, salt: u32, coinbase: bool) -> Transaction {
    let vin: Vec<TxIn<TAuthorized>> = if coinbase {
        vec![TxIn::from_parts(OutPoint::NULL, Script::default(), u32::MAX)]
    } else {
        vin.iter().map(|(t, n)| TxIn::from_parts(OutPoint::new(*t, *n), Script::default(), u32::MAX)).collect()
    };
    let vout: Vec<TxOut> = vout.iter().map(|(a, v)| TxOut::new(Zatoshis::from_u64(*v).expect("value in range"), a.script().into())).collect();
    let bundle = TBundle { vin, vout, authorization: TAuthorized };
    TransactionData::<zcash_primitives::transaction::Authorized>::from_parts(TxVersion::V5, BranchId::Nu5, salt, BlockHeight::from_u32(expiry), Some(bundle), None, None, None)
        .freeze()
        .expect("a transparent-only v5 transaction freezes")
}

/// The documented expiry rule (`tx_unexpired_condition`) for an un-mined transaction at `target`.
fn tx_unexpired(t: &TTx, target: u32) -> bool {
    if t.wallet_has_full {
        t.expiry == 0 || t.expiry >= target
    } else {
        t.first_observed + DEFAULT_TX_EXPIRY_DELTA >= target
    }
}

#[derive(Clone, Copy, Debug, PartialEq, Eq)]
enum Class {
    /// a mined or an unexpired un-mined transaction spends it
    Spent,
    /// mined at this height (<= tip), unspent: MUST count
    Must(u32),
    /// its transaction is un-mined (or mined above the wallet's tip) and unexpired, unspent: MAY count
    May,
    /// its transaction is un-mined and expired: MUST NOT count
    Expired,
}

fn classify(m: &Model, ci: usize, tip: u32) -> Class {
    let target = tip + 1;
    let c = &m.coins[ci];
    let t = &m.ttxs[c.tx];
    for s in &c.spenders {
        let st = &m.ttxs[*s];
        if st.mined.is_some() || tx_unexpired(st, target) {
            return Class::Spent;
        }
    }
    match t.mined {
        Some(h) if h <= tip => Class::Must(h),
        // mined above the wallet's tip: necessarily unexpired (it was mined at or below its expiry height)
        Some(_) => Class::May,
        None if tx_unexpired(t, target) => Class::May,
        None => Class::Expired,
    }
}

/// What one balance (one account, one of the regular / coinbase parts or one address) has to be.
#[derive(Clone, Debug, Default)]
struct Exp {
    spendable: u64,
    pending: u64,
    uneconomic: u64,
    may_dust: Vec<u64>,
    /// MAY coins that can only be pending (no zero-conf, or coinbase)
    may_pending: Vec<u64>,
    /// MAY coins that may be spendable or pending (zero-conf policy)
    may_either: Vec<u64>,
    coins: Vec<String>,
}

/// `zero_conf`: policy MIN; otherwise POLICY2_CONFS confirmations without zero-conf.
fn expectation(m: &Model, tip: u32, zero_conf: bool, filter: impl Fn(&Coin, bool) -> bool) -> Exp {
    let target = tip + 1;
    let mut e = Exp::default();
    for ci in 0..m.coins.len() {
        let c = &m.coins[ci];
        let t = &m.ttxs[c.tx];
        let coinbase_known = t.coinbase && t.wallet_has_full;
        if !filter(c, coinbase_known) {
            continue;
        }
        let class = classify(m, ci, tip);
        e.coins.push(format!("{}..:{} v={} {:?} {:?} tx(mined {:?}, exp {}{}, first-obs {}, cb {}) spenders {:?}", hex::encode(&c.key.0[..4]), c.key.1, c.value, c.slot, class, t.mined, t.expiry, if t.wallet_has_full { "" } else { " unknown to wallet" }, t.first_observed, t.coinbase, c.spenders.iter().map(|s| (m.ttxs[*s].mined, m.ttxs[*s].expiry)).collect::<Vec<_>>()));
        if c.value == 0 {
            continue;
        }
        match class {
            Class::Spent | Class::Expired => {}
            Class::Must(h) => {
                if c.value <= MARGINAL_FEE {
                    e.uneconomic += c.value;
                } else if coinbase_known && target - h < COINBASE_MATURITY {
                    e.pending += c.value;
                } else if zero_conf || target - h >= POLICY2_CONFS {
                    e.spendable += c.value;
                } else {
                    e.pending += c.value;
                }
            }
            Class::May => {
                if c.value <= MARGINAL_FEE {
                    e.may_dust.push(c.value);
                } else if coinbase_known || !zero_conf {
                    e.may_pending.push(c.value);
                } else {
                    e.may_either.push(c.value);
                }
            }
        }
    }
    e
}

fn subset_sum(vals: &[u64], want: u64) -> bool {
    if want == 0 {
        return true;
    }
    if vals.len() > 16 {
        return want <= vals.iter().sum::<u64>();
    }
    fn go(vals: &[u64], want: u64) -> bool {
        if want == 0 {
            return true;
        }
        match vals.split_first() {
            None => false,
            Some((v, rest)) => (*v <= want && go(rest, want - *v)) || go(rest, want),
        }
    }
    go(vals, want)
}

/// exists a choice for every MAY coin (out / pending / spendable where allowed) that explains (ds, dp)
fn split_ok(pending_only: &[u64], either: &[u64], ds: u64, dp: u64) -> bool {
    if pending_only.len() + either.len() > 12 {
        let tot: u64 = pending_only.iter().chain(either.iter()).sum();
        return ds <= either.iter().sum::<u64>() && ds + dp <= tot;
    }
    fn go(p: &[u64], e: &[u64], ds: u64, dp: u64) -> bool {
        if let Some((v, rest)) = e.split_first() {
            return go(p, rest, ds, dp) || (*v <= ds && go(p, rest, ds - *v, dp)) || (*v <= dp && go(p, rest, ds, dp - *v));
        }
        ds == 0 && subset_sum(p, dp)
    }
    go(pending_only, either, ds, dp)
}

/// `Ok(n)`: matches, with `n` = value of MAY coins the wallet counts; `Err(kind)` otherwise
fn match_split(e: &Exp, spendable: u64, pending: u64, uneconomic: u64) -> Result<u64, &'static str> {
    let may_total: u64 = e.may_dust.iter().chain(e.may_pending.iter()).chain(e.may_either.iter()).sum();
    let must = e.spendable + e.pending + e.uneconomic;
    let got = spendable + pending + uneconomic;
    if got < must {
        return Err("too-low");
    }
    if got > must + may_total {
        return Err("too-high");
    }
    if uneconomic < e.uneconomic || !subset_sum(&e.may_dust, uneconomic - e.uneconomic) {
        return Err("uneconomic-split");
    }
    if spendable < e.spendable || pending < e.pending || !split_ok(&e.may_pending, &e.may_either, spendable - e.spendable, pending - e.pending) {
        return Err("spendable-pending-split");
    }
    Ok(got - must)
}

/// total-only comparison (per-address API: only value conservation and the dust split are asserted)
fn match_total(e: &Exp, total: u64, uneconomic: u64) -> Result<u64, &'static str> {
    let must = e.spendable + e.pending;
    if total < must {
        return Err("too-low");
    }
    let may: Vec<u64> = e.may_pending.iter().chain(e.may_either.iter()).copied().collect();
    if total - must > may.iter().sum::<u64>() {
        return Err("too-high");
    }
    if !subset_sum(&may, total - must) {
        return Err("no-subset");
    }
    if uneconomic < e.uneconomic || !subset_sum(&e.may_dust, uneconomic - e.uneconomic) {
        return Err("uneconomic-split");
    }
    Ok(total - must + uneconomic - e.uneconomic)
}

/// Name of the observation (outside C01's statement, which only fixes total + uneconomic): `add_transparent_account_balances` sums the coins of a group (account, lock expiry, coinbase
/// or not, at least 100 confirmations or not) in SQL and applies `value <= MARGINAL_FEE` to the SUM, so several dust coins
/// are reported as spendable / pending value (and a dust coin next to a larger one disappears from `uneconomic_value`).
const OBS_DUST_GROUP: &str = "observation:transparent-dust-threshold-applied-to-summed-group";

/// The second reading behind `OBS_DUST_GROUP`, exactly: the threshold is applied to the summed value of every group.
/// With optional (MAY) coins in the part only value conservation is required.
#[allow(clippy::too_many_arguments)]
fn dust_group_reading(m: &Model, tip: u32, zero_conf: bool, account: u8, want_cb: bool, e: &Exp, got: (u64, u64, u64, u64, u64)) -> bool {
    let target = tip + 1;
    let may: Vec<u64> = e.may_dust.iter().chain(e.may_pending.iter()).chain(e.may_either.iter()).copied().collect();
    let must = e.spendable + e.pending + e.uneconomic;
    let total = got.0 + got.1 + got.2;
    if !may.is_empty() {
        return total >= must && subset_sum(&may, total - must) && (zero_conf || got.0 <= e.spendable + e.uneconomic) && got.2 <= e.uneconomic + e.may_dust.iter().sum::<u64>();
    }
    // groups of the "confirmed" query: (at least 100 confirmations?) -> sum; of the "unconfirmed" query: one group
    let mut confirmed: BTreeMap<bool, u64> = BTreeMap::new();
    let mut unconfirmed = 0u64;
    for ci in 0..m.coins.len() {
        let c = &m.coins[ci];
        let t = &m.ttxs[c.tx];
        if c.account != account || (t.coinbase && t.wallet_has_full) != want_cb {
            continue;
        }
        if let Class::Must(hh) = classify(m, ci, tip) {
            if zero_conf || target - hh >= POLICY2_CONFS {
                *confirmed.entry(target - hh >= COINBASE_MATURITY).or_default() += c.value;
            } else {
                unconfirmed += c.value;
            }
        }
    }
    let (mut s, mut p, mut u) = (0u64, 0u64, 0u64);
    for (mature, sum) in confirmed {
        if sum <= MARGINAL_FEE {
            u += sum;
        } else if want_cb && !mature {
            p += sum;
        } else {
            s += sum;
        }
    }
    if unconfirmed <= MARGINAL_FEE {
        u += unconfirmed;
    } else {
        p += unconfirmed;
    }
    (s, p, u) == (got.0, got.1, got.2)
}

fn policy(zero_conf: bool) -> ConfirmationsPolicy {
    if zero_conf {
        ConfirmationsPolicy::MIN
    } else {
        ConfirmationsPolicy::new_symmetrical(NonZeroU32::new(POLICY2_CONFS).expect("non-zero"), false)
    }
}

fn parts(b: &Balance) -> (u64, u64, u64, u64, u64) {
    (u64::from(b.spendable_value()), u64::from(b.value_pending_spendability()), u64::from(b.uneconomic_value()), u64::from(b.locked_value()), u64::from(b.change_pending_confirmation()))
}

/// Generator-side labels of the current state.
fn observe_state(h: &Hist, m: &Model, st: &mut Stats, tip: u32) {
    let target = tip + 1;
    let mut accounts = BTreeSet::new();
    let (mut counted, mut excluded, mut may) = (false, false, false);
    for ci in 0..m.coins.len() {
        let c = &m.coins[ci];
        let t = &m.ttxs[c.tx];
        let class = classify(m, ci, tip);
        accounts.insert(c.account);
        match class {
            Class::Must(hh) => {
                counted |= c.value > 0;
                if t.coinbase && t.wallet_has_full {
                    if target - hh < COINBASE_MATURITY {
                        st.l_cb_immature = true;
                    } else {
                        st.l_cb_mature = true;
                    }
                }
                if t.coinbase && !t.wallet_has_full {
                    st.l_cb_unknown_to_wallet = true;
                }
                if target - hh < POLICY2_CONFS {
                    st.l_underconfirmed_p2 = true;
                }
                if c.value > 0 && c.value < MARGINAL_FEE {
                    st.l_dust = true;
                }
                st.l_at_threshold |= c.value == MARGINAL_FEE;
                st.l_above_threshold |= c.value == MARGINAL_FEE + 1;
                st.l_zero |= c.value == 0;
                st.l_huge |= c.value >= MAX_MONEY / 64;
                st.l_both_apis |= t.told_put && t.told_full;
                st.l_remined |= t.remined;
                if h.ledger.is_scanned_height(&h.chain, hh) {
                    st.l_mined_scanned = true;
                } else {
                    st.l_mined_unscanned = true;
                }
                if !c.spenders.is_empty() {
                    st.l_spender_expired = true;
                }
                st.l_other_account_zero |= c.account != 0;
            }
            Class::May => {
                may = true;
                if t.mined.is_some() {
                    st.l_above_tip = true;
                } else if t.rewound {
                    st.l_orphaned = true;
                    st.l_cb_orphaned |= t.coinbase && t.wallet_has_full;
                } else {
                    st.l_unmined_never = true;
                }
                st.l_unknown_expiry_unmined |= t.mined.is_none() && !t.wallet_has_full;
            }
            Class::Expired => {
                excluded = true;
                st.l_expired = true;
                st.l_orphan_expired |= t.rewound;
            }
            Class::Spent => {
                excluded = true;
                for s in &c.spenders {
                    let sx = &m.ttxs[*s];
                    if sx.mined.is_some() {
                        st.l_spent_mined = true;
                    } else if tx_unexpired(sx, target) {
                        if sx.rewound {
                            st.l_spent_orphan_spender = true;
                        } else if sx.stored_by_wallet {
                            st.l_spent_stored = true;
                        } else {
                            st.l_spent_mempool = true;
                        }
                    }
                }
            }
        }
    }
    st.l_two_accounts |= accounts.len() >= 2;
    st.s_counted += counted as u64;
    st.s_excluded += excluded as u64;
    st.s_may += may as u64;
}

/// The oracle: compares every unshielded balance the wallet reports with the coin model.
fn check_coins(_ctx: &Ctx, h: &Hist, m: &Model, st: &mut Stats, step: &str) -> Result<(), Fail> {
    let Some(tip) = h.w.chain_height() else { return Ok(()) };
    let target = tip + 1;
    st.checks += 1;
    observe_state(h, m, st, tip);
    let db = h.w.tdb.db();
    for zero_conf in [true, false] {
        let pol = policy(zero_conf);
        let pname = if zero_conf { "MIN" } else { "3-confs-no-zero-conf" };
        let summary = db.get_wallet_summary(pol).map_err(|e| Fail::new("summary-error", format!("{step}: get_wallet_summary({pname}) failed: {e:?}")))?;
        match &summary {
            None => st.no_summary += 1,
            Some(_) => st.summaries += 1,
        }
        for (a, id) in h.w.accounts.iter().enumerate() {
            let a = a as u8;
            let mut summary_total: Option<(u64, u64)> = None;
            if let Some(s) = &summary {
                let Some(ab) = s.account_balances().get(id) else {
                    vfail!("summary-without-account", "{step}: get_wallet_summary({pname}) has no entry for account {a}");
                };
                let reg = parts(ab.unshielded_regular_balance());
                let cb = parts(ab.unshielded_coinbase_balance());
                let both = parts(&ab.unshielded_balance());
                vensure!(
                    both == (reg.0 + cb.0, reg.1 + cb.1, reg.2 + cb.2, reg.3 + cb.3, reg.4 + cb.4),
                    "unshielded-balance-not-sum-of-parts",
                    "{step}: account {a} ({pname}): unshielded_balance {both:?} != regular {reg:?} + coinbase {cb:?} (spendable, pending, uneconomic, locked, change)"
                );
                for (name, got, want_cb) in [("regular", reg, false), ("coinbase", cb, true)] {
                    let e = expectation(m, tip, zero_conf, |c, cbk| c.account == a && cbk == want_cb);
                    vensure!(got.3 == 0 && got.4 == 0, "transparent-balance-locked-or-change", "{step}: account {a} ({pname}) {name}: locked {} / pending change {} although nothing was ever locked and transparent change is documented as always zero", got.3, got.4);
                    match match_split(&e, got.0, got.1, got.2) {
                        Ok(n) => {
                            if !e.may_dust.is_empty() || !e.may_pending.is_empty() || !e.may_either.is_empty() {
                                if n > 0 {
                                    st.s_may_counted += 1;
                                    if want_cb {
                                        st.obs_orphaned_coinbase_counted = true;
                                    }
                                } else {
                                    st.s_may_not_counted += 1;
                                }
                            }
                        }
                        // total + uneconomic is right, but dust is reported as spendable / pending: the wallet applies the threshold to
                        // the SUM of a group of coins (second reading, modelled exactly in `dust_group_reading`). C01 states only total +
                        // uneconomic, so this is counted as a silent observation (DESIGN.md 9.4), not reported.
                        Err(_) if dust_group_reading(m, tip, zero_conf, a, want_cb, &e, got) => st.obs_dust_group += 1,
                        Err(kind) => {
                            vfail!(
                                format!("transparent-balance-{kind}"),
                                "{step}: account {a}, policy {pname}, {name} part, wallet tip {tip}: wallet reports spendable {} pending {} uneconomic {}; model: spendable {} pending {} uneconomic {} from coins that MUST count, optional (un-mined, unexpired) coins: dust {:?} pending-only {:?} spendable-or-pending {:?}; coins of the account in this part: {:#?}",
                                got.0, got.1, got.2, e.spendable, e.pending, e.uneconomic, e.may_dust, e.may_pending, e.may_either, e.coins
                            );
                        }
                    }
                }
                summary_total = Some((both.0 + both.1 + both.3 + both.4, both.2));
            }
            // per address
            let map = db
                .get_transparent_balances(*id, TargetHeight::from(target), pol)
                .map_err(|e| Fail::new("transparent-balances-error", format!("{step}: get_transparent_balances(account {a}, {target}, {pname}) failed: {e:?}")))?;
            let mut sum = (0u64, 0u64);
            for (addr, (_, b)) in map.iter() {
                let p = parts(b);
                if m.owner.get(addr).map(|(o, _)| *o) != Some(a) {
                    vensure!(p == (0, 0, 0, 0, 0), "per-address-balance-at-foreign-address", "{step}: get_transparent_balances(account {a}, {pname}) reports {p:?} at {addr:?}, which is not one of the account's modelled addresses (owner in the model: {:?})", m.owner.get(addr));
                }
            }
            // (the default address may coincide with external index 1 or 2: each distinct address once)
            let mut seen_addrs = BTreeSet::new();
            for slot in SLOTS {
                let addr = m.addr(a, slot);
                if !seen_addrs.insert(addr) {
                    continue;
                }
                let got = map.get(&addr).map(|(_, b)| parts(b)).unwrap_or((0, 0, 0, 0, 0));
                let total = got.0 + got.1 + got.3 + got.4;
                sum.0 += total;
                sum.1 += got.2;
                let e = expectation(m, tip, zero_conf, |c, _| c.account == a && c.addr == addr);
                if let Err(kind) = match_total(&e, total, got.2) {
                    vfail!(
                        format!("per-address-balance-{kind}"),
                        "{step}: get_transparent_balances(account {a}, target {target}, {pname}) at {slot:?}: total {total} uneconomic {} ({got:?}); model: total {} uneconomic {} from coins that MUST count, optional coins {:?} / dust {:?}; coins at the address: {:#?}",
                        got.2, e.spendable + e.pending, e.uneconomic, e.may_pending.iter().chain(e.may_either.iter()).collect::<Vec<_>>(), e.may_dust, e.coins
                    );
                }
                // immature coinbase value reported as spendable by the per-address API (not asserted: its rustdoc does not mention maturity)
                if zero_conf && got.0 > e.spendable + e.may_either.iter().sum::<u64>() {
                    st.obs_per_address_immature_spendable = true;
                }
            }
            if let Some(t) = summary_total {
                if t.0 + t.1 != sum.0 + sum.1 {
                    st.obs_per_address_sum_differs = true;
                    if std::env::var("VERIF_C01T_DEBUG").is_ok() {
                        let e = expectation(m, tip, zero_conf, |c, _| c.account == a);
                        eprintln!("[c01t-debug] {step}: account {a} {pname}: summary (total, uneconomic) {t:?} vs per-address sum {sum:?}; map {:?}; coins {:#?}", map.iter().map(|(k, (_, b))| (format!("{k:?}"), parts(b))).collect::<Vec<_>>(), e.coins);
                    }
                }
            }
        }
    }
    Ok(())
}

// ---------------------------------------------------------------------------------------------
// Operations
// ---------------------------------------------------------------------------------------------

fn resolve_expiry(e: ExpSel, tip: u32, mined_at: Option<u32>) -> u32 {
    match (e, mined_at) {
        (ExpSel::Never, _) => 0,
        (ExpSel::After(k), _) => tip + 1 + k as u32,
        // a mined transaction cannot have expired before it was mined
        (ExpSel::Stale, Some(hh)) => hh,
        (ExpSel::Stale, None) => tip.saturating_sub(2).max(1),
    }
}

fn note_rejected(st: &mut Stats, what: &str, e: &str) {
    st.rejected += 1;
    if st.errors.len() < 6 {
        st.errors.insert(format!("{what}: {}", e.chars().take(120).collect::<String>()));
    }
    if std::env::var("VERIF_C01T_DEBUG").is_ok() {
        eprintln!("[c01t-debug] {what} rejected: {}", e.chars().take(300).collect::<String>());
    }
}

/// Tells the wallet about model transaction `tix` through `api`, as mined at `height` or without a height, and
/// records in the model what the wallet now knows.
fn tell(h: &mut Hist, m: &mut Model, st: &mut Stats, tix: usize, api: Api, height: Option<u32>, step: &str) -> Result<(), Fail> {
    let Some(tip) = h.w.chain_height() else { return Ok(()) };
    let net = h.world.net;
    let outs = m.ttxs[tix].outs.clone();
    let txid = m.ttxs[tix].txid;
    let mut accepted = false;
    match api {
        Api::Put => {
            // what `sync::refresh_utxos` does for every UTXO the server lists for one of the account's addresses
            for (i, (owner, addr, v)) in outs.iter().enumerate() {
                let acct_id = owner.map(|(a, _)| h.w.accounts[a as usize]).unwrap_or(h.w.accounts[0]);
                let o = WalletTransparentOutput::from_parts(OutPoint::new(txid, i as u32), TxOut::new(Zatoshis::from_u64(*v).expect("value"), addr.script().into()), height.map(BlockHeight::from_u32), Some(acct_id), None, None)
                    .expect("P2PKH script has a recipient address");
                match vcore::catch(|| h.w.db().put_received_transparent_utxo(&o).map_err(|e| format!("{e:?}"))) {
                    Err(p) => vfail!(format!("put-received-transparent-utxo-panic:{}", vcore::panic_site(&p)), "{step}: put_received_transparent_utxo panicked: {p}"),
                    Ok(Err(e)) => {
                        if owner.is_none() {
                            st.rejected_unknown_addr += 1;
                        } else {
                            note_rejected(st, "put_received_transparent_utxo", &e);
                        }
                    }
                    Ok(Ok(_)) => {
                        // an address no account owns: if the wallet keeps the output anyway it must not count anywhere (no model coin)
                        if let Some((a, s)) = owner {
                            if m.add_coin(tix, i as u32, *a, *s, *addr, *v) {
                                st.coins_received += 1;
                            }
                            accepted = true;
                        }
                    }
                }
            }
            if accepted {
                let t = &mut m.ttxs[tix];
                t.told = true;
                t.told_put = true;
                // documented: a mined height of `None` means "unknown to the caller" and never clears a recorded height
                if let Some(hh) = height {
                    if t.mined.is_none() && t.rewound {
                        t.remined = true;
                    }
                    t.mined = Some(hh);
                }
                t.first_observed = t.first_observed.min(height.map_or(tip, |hh| hh.min(tip)));
            }
        }
        Api::Full => {
            let tx = m.ttxs[tix].tx.clone();
            let involved = outs.iter().any(|(o, _, _)| o.is_some()) || m.ttxs[tix].vin.iter().any(|k| m.coin_index.contains_key(k));
            match vcore::catch(|| decrypt_and_store_transaction(&net, h.w.db(), &tx, height.map(BlockHeight::from_u32)).map_err(|e| format!("{e:?}"))) {
                Err(p) => vfail!(format!("decrypt-and-store-panic:{}", vcore::panic_site(&p)), "{step}: decrypt_and_store_transaction panicked: {p}"),
                Ok(Err(e)) => note_rejected(st, "decrypt_and_store_transaction", &e),
                // documented: a transaction without wallet involvement is not stored
                Ok(Ok(())) if !involved => {}
                Ok(Ok(())) => {
                    for (i, (owner, addr, v)) in outs.iter().enumerate() {
                        if let Some((a, s)) = owner {
                            if m.add_coin(tix, i as u32, *a, *s, *addr, *v) {
                                st.coins_received += 1;
                            }
                        }
                    }
                    let vin = m.ttxs[tix].vin.clone();
                    for k in &vin {
                        if let Some(ci) = m.coin_index.get(k).copied() {
                            if !m.coins[ci].spenders.contains(&tix) {
                                m.coins[ci].spenders.push(tix);
                            }
                        }
                    }
                    let t = &mut m.ttxs[tix];
                    t.told = true;
                    t.told_full = true;
                    t.wallet_has_full = true;
                    if let Some(hh) = height {
                        if t.mined.is_none() && t.rewound {
                            t.remined = true;
                        }
                        t.mined = Some(hh);
                    }
                    // documented: the observation height of an un-mined transaction is the chain tip + 1
                    t.first_observed = t.first_observed.min(t.mined.unwrap_or(tip + 1));
                }
            }
        }
    }
    Ok(())
}

fn new_ttx(m: &mut Model, vin: Vec<CoinKey>, outs: Vec<(Option<(u8, Slot)>, TransparentAddress, u64)>, expiry: u32, coinbase: bool) -> usize {
    let salt = m.next_salt();
    let vout: Vec<(TransparentAddress, u64)> = outs.iter().map(|(_, a, v)| (*a, *v)).collect();
    let inputs = if vin.is_empty() && !coinbase { vec![(m.fake_txid(), 0u32)] } else { vin.clone() };
    let tx = make_ttx(&inputs, &vout, expiry, salt, coinbase);
    let tix = m.ttxs.len();
    m.ttxs.push(TTx {
        txid: *tx.txid().as_ref(),
        tx,
        outs,
        vin,
        wallet_has_full: false,
        told: false,
        mined: None,
        expiry,
        first_observed: u32::MAX - 50,
        coinbase,
        rewound: false,
        told_put: false,
        told_full: false,
        remined: false,
        stored_by_wallet: false,
    });
    tix
}

/// The wallet learns of transparent outputs paying its accounts. Returns the model transaction.
fn do_recv(h: &mut Hist, m: &mut Model, st: &mut Stats, r: &CoinRecv, step: &str) -> Result<Option<usize>, Fail> {
    let Some(tip) = h.w.chain_height() else { return Ok(None) };
    let base = h.base();
    if tip <= base {
        return Ok(None);
    }
    let na = h.world.accounts.len() as u8;
    let height = tip.saturating_sub(r.depth as u32).max(base + 1);
    let mut outs = vec![];
    for (shift, slot, v) in &r.outs {
        let v = m.mint(*v);
        match slot {
            Some(s) => {
                let a = (r.account % na + *shift) % na;
                outs.push((Some((a, *s)), m.addr(a, *s), v));
            }
            None => {
                st.l_nobody = true;
                outs.push((None, m.unknown_taddr(), v));
            }
        }
    }
    // (api, mined height) in the order the wallet is told
    let (calls, coinbase): (Vec<(Api, Option<u32>)>, bool) = match r.how {
        RecvHow::Put { known_height } => (vec![(Api::Put, known_height.then_some(height))], false),
        RecvHow::Full { mined } => (vec![(Api::Full, mined.then_some(height))], false),
        RecvHow::Both { first, mined } => {
            let second = if first == Api::Put { Api::Full } else { Api::Put };
            (vec![(first, mined.then_some(height)), (second, mined.then_some(height))], false)
        }
        // coinbase transactions are only ever seen mined
        RecvHow::Coinbase { also_put: None } => (vec![(Api::Full, Some(height))], true),
        RecvHow::Coinbase { also_put: Some(true) } => (vec![(Api::Put, Some(height)), (Api::Full, Some(height))], true),
        RecvHow::Coinbase { also_put: Some(false) } => (vec![(Api::Full, Some(height)), (Api::Put, Some(height))], true),
        RecvHow::CoinbasePutOnly => (vec![(Api::Put, Some(height))], true),
    };
    let mined_any = calls.iter().any(|(_, hh)| hh.is_some());
    // coinbase transactions do not expire
    let expiry = if coinbase { 0 } else { resolve_expiry(r.expiry, tip, mined_any.then_some(height)) };
    let tix = new_ttx(m, vec![], outs, expiry, coinbase);
    for (api, hh) in calls {
        tell(h, m, st, tix, api, hh, step)?;
    }
    Ok(Some(tix))
}

/// A transaction spending one or two of the wallet's coins is mined, seen in the mempool, or stored as sent by the wallet.
fn do_spend(h: &mut Hist, m: &mut Model, st: &mut Stats, sp: &CoinSpend, step: &str) -> Result<Option<usize>, Fail> {
    let Some(tip) = h.w.chain_height() else { return Ok(None) };
    let base = h.base();
    if tip <= base {
        return Ok(None);
    }
    let target = tip + 1;
    let need_mined = matches!(sp.how, SpendHow::Mined { .. });
    // coins without a mined spender (and, for a mined spender, mined themselves at or below the tip)
    let mut cands: Vec<usize> = (0..m.coins.len())
        .filter(|ci| {
            let c = &m.coins[*ci];
            !c.spenders.iter().any(|s| m.ttxs[*s].mined.is_some()) && (!need_mined || m.ttxs[c.tx].mined.map_or(false, |hh| hh <= tip))
        })
        .collect();
    if cands.is_empty() {
        return Ok(None);
    }
    let mut chosen: Vec<usize> = vec![];
    for sel in &sp.sels {
        if cands.is_empty() {
            break;
        }
        let k = vcore::pick_index(*sel, cands.len());
        chosen.push(cands.remove(k));
    }
    let owner = m.coins[chosen[0]].account;
    let acct_id = h.w.accounts[owner as usize];
    let vin: Vec<CoinKey> = chosen.iter().map(|c| m.coins[*c].key).collect();
    let mined_at = match sp.how {
        SpendHow::Mined { depth } => {
            let lo = chosen.iter().filter_map(|c| m.ttxs[m.coins[*c].tx].mined).max().unwrap_or(base + 1);
            Some(tip.saturating_sub(depth as u32).max(lo).max(base + 1).min(tip))
        }
        _ => None,
    };
    let expiry = resolve_expiry(sp.expiry, tip, mined_at);
    // outputs never exceed the inputs
    let in_total: u64 = chosen.iter().map(|c| m.coins[*c].value).fold(0u64, |a, b| a.saturating_add(b)).min(MAX_MONEY);
    let foreign = in_total / 4;
    let mut outs: Vec<(Option<(u8, Slot)>, TransparentAddress, u64)> = vec![(None, TransparentAddress::PublicKeyHash(hash20(&m.seed, 0x6d)), foreign)];
    // only the `decrypt_and_store_transaction` paths show the wallet the spender's outputs
    if let Some((slot, v)) = sp.back.filter(|_| !matches!(sp.how, SpendHow::Stored)) {
        let v = m.mint(v.min(in_total - foreign));
        outs.push((Some((owner, slot)), m.addr(owner, slot), v));
    }
    let tix = new_ttx(m, vin.clone(), outs, expiry, false);
    match sp.how {
        SpendHow::Mined { .. } | SpendHow::Mempool => {
            tell(h, m, st, tix, Api::Full, mined_at, step)?;
            if m.ttxs[tix].told {
                st.spends += 1;
            }
        }
        SpendHow::Stored => {
            let tx = m.ttxs[tix].tx.clone();
            let outpoints: Vec<OutPoint> = vin.iter().map(|(t, n)| OutPoint::new(*t, *n)).collect();
            let sent = SentTransaction::new(&tx, time::OffsetDateTime::UNIX_EPOCH, TargetHeight::from(target), acct_id, &[], Zatoshis::const_from_u64(10_000), &outpoints);
            match vcore::catch(|| h.w.db().store_transactions_to_be_sent(&[sent]).map_err(|e| format!("{e:?}"))) {
                Err(p) => vfail!(format!("store-spender-panic:{}", vcore::panic_site(&p)), "{step}: store_transactions_to_be_sent panicked: {p}"),
                Ok(Err(e)) => note_rejected(st, "store_transactions_to_be_sent", &e),
                Ok(Ok(())) => {
                    st.spends += 1;
                    for c in &chosen {
                        m.coins[*c].spenders.push(tix);
                    }
                    let t = &mut m.ttxs[tix];
                    t.told = true;
                    t.wallet_has_full = true;
                    t.stored_by_wallet = true;
                    t.told_full = true;
                }
            }
        }
    }
    Ok(Some(tix))
}

/// A height of the current branch at which the un-mined transaction `tix` could be mined, at most `depth` below the tip.
fn remine_height(h: &Hist, m: &Model, tix: usize, tip: u32, depth: u8) -> Option<u32> {
    let base = h.base();
    let t = &m.ttxs[tix];
    if t.mined.is_some() || t.coinbase || !t.told {
        return None;
    }
    let mut lo = base + 1;
    for k in &t.vin {
        let ci = *m.coin_index.get(k)?;
        let c = &m.coins[ci];
        // its inputs are mined and not spent by another mined transaction
        lo = lo.max(m.ttxs[c.tx].mined.filter(|hh| *hh <= tip)?);
        if c.spenders.iter().any(|s| *s != tix && m.ttxs[*s].mined.is_some()) {
            return None;
        }
    }
    let mut hi = tip;
    for c in m.coins.iter().filter(|c| c.tx == tix) {
        for s in &c.spenders {
            if let Some(sh) = m.ttxs[*s].mined {
                hi = hi.min(sh);
            }
        }
    }
    // a transaction is not mined after its expiry height
    if t.expiry != 0 {
        hi = hi.min(t.expiry);
    }
    let want = tip.saturating_sub(depth as u32).max(lo);
    (want <= hi).then_some(want)
}

fn do_remine(h: &mut Hist, m: &mut Model, st: &mut Stats, sel: u32, api: Api, depth: u8, only: Option<usize>, step: &str) -> Result<(), Fail> {
    let Some(tip) = h.w.chain_height() else { return Ok(()) };
    if tip <= h.base() {
        return Ok(());
    }
    let cands: Vec<(usize, u32)> = (0..m.ttxs.len())
        .filter(|t| only.map_or(true, |o| o == *t))
        .filter(|t| api == Api::Full || m.ttxs[*t].outs.iter().any(|(o, _, _)| o.is_some()))
        .filter_map(|t| remine_height(h, m, t, tip, depth).map(|hh| (t, hh)))
        .collect();
    if cands.is_empty() {
        return Ok(());
    }
    let (tix, height) = cands[vcore::pick_index(sel, cands.len())];
    tell(h, m, st, tix, api, Some(height), step)
}

fn do_repeat(h: &mut Hist, m: &mut Model, st: &mut Stats, sel: u32, api: Api, without_height: bool, step: &str) -> Result<(), Fail> {
    let Some(tip) = h.w.chain_height() else { return Ok(()) };
    if tip <= h.base() {
        return Ok(());
    }
    let cands: Vec<usize> = (0..m.ttxs.len())
        .filter(|t| m.ttxs[*t].told && (api == Api::Full || m.ttxs[*t].outs.iter().any(|(o, _, _)| o.is_some())))
        // a listing of unspent outputs does not report an output that a mined transaction spends
        .filter(|t| api == Api::Full || !m.coins.iter().any(|c| c.tx == *t && c.spenders.iter().any(|s| m.ttxs[*s].mined.is_some())))
        .collect();
    if cands.is_empty() {
        return Ok(());
    }
    let tix = cands[vcore::pick_index(sel, cands.len())];
    let height = m.ttxs[tix].mined.filter(|_| !without_height);
    if without_height && m.ttxs[tix].mined.is_some() {
        st.l_repeat_without_height = true;
    }
    tell(h, m, st, tix, api, height, step)
}

/// Applies a history op; if it rewound the wallet, the coin model follows the documented effect of
/// `truncate_to_height`: every transaction the wallet believed mined above the new tip is un-mined. (No modelled
/// transaction is mined above the wallet's tip when a history op runs, so the wallet's tip after the rewind is the
/// height it rewound to whenever anything is affected.)
fn apply_hist(h: &mut Hist, m: &mut Model, st: &mut Stats, op: &Op, step: &str) -> Result<(), Fail> {
    let before = h.flags.truncations;
    let r = h.apply(op, step);
    if h.flags.truncations > before {
        let got = h.w.chain_height().unwrap_or(h.base());
        if m.on_rewind(got) > 0 {
            st.rewinds_unmining_coin_tx += 1;
        }
    }
    r
}

fn advance(h: &mut Hist, n: u16, scan: bool, step: &str) -> Result<(), Fail> {
    let from = h.chain.tip_height() + 1;
    h.apply(&Op::AddEmpty(n), step)?;
    let tip = h.chain.tip_height();
    h.announce_tip(tip, step)?;
    if scan && from <= tip {
        h.scan(from, tip + 1 - from, step)?;
    }
    Ok(())
}

fn do_cop(ctx: &Ctx, h: &mut Hist, m: &mut Model, st: &mut Stats, op: &COp, step: &str) -> Result<(), Fail> {
    match op {
        COp::Recv(r) => {
            do_recv(h, m, st, r, step)?;
        }
        COp::Spend(sp) => {
            do_spend(h, m, st, sp, step)?;
        }
        COp::Remine { sel, api, depth } => do_remine(h, m, st, *sel, *api, *depth, None, step)?,
        COp::Repeat { sel, api, without_height } => do_repeat(h, m, st, *sel, *api, *without_height, step)?,
        COp::CoinbaseMatured { account, slot, value, n } => {
            let recv = CoinRecv { how: RecvHow::Coinbase { also_put: None }, account: *account, outs: vec![(0, Some(*slot), *value)], depth: 0, expiry: ExpSel::Never };
            do_recv(h, m, st, &recv, step)?;
            check_coins(ctx, h, m, st, step)?;
            advance(h, *n as u16, false, step)?;
        }
        COp::RecvAboveTip { account, slot, value, k } => {
            let Some(tip) = h.w.chain_height() else { return Ok(()) };
            if tip <= h.base() {
                return Ok(());
            }
            let na = h.world.accounts.len() as u8;
            let a = *account % na;
            let v = m.mint(*value);
            let tix = new_ttx(m, vec![], vec![(Some((a, *slot)), m.addr(a, *slot), v)], 0, false);
            tell(h, m, st, tix, Api::Put, Some(tip + *k as u32), step)?;
            check_coins(ctx, h, m, st, step)?;
            // the wallet catches up before anything else happens
            while h.chain.tip_height() < tip + *k as u32 {
                h.apply(&Op::AddEmpty(1), step)?;
            }
            let up = (tip + *k as u32).max(h.w.chain_height().unwrap_or(0));
            h.announce_tip(up, step)?;
        }
        COp::SpendBeforeRecv { account, slot, value, spend_mined, recv_api, expiry, back } => {
            let Some(tip) = h.w.chain_height() else { return Ok(()) };
            let base = h.base();
            if tip <= base {
                return Ok(());
            }
            let na = h.world.accounts.len() as u8;
            let a = *account % na;
            let v = m.mint(*value);
            let h_t = tip.saturating_sub(2).max(base + 1);
            let h_s = tip.saturating_sub(1).max(h_t);
            let t_tix = new_ttx(m, vec![], vec![(Some((a, *slot)), m.addr(a, *slot), v)], 0, false);
            let key = (m.ttxs[t_tix].txid, 0u32);
            let mined_at = spend_mined.then_some(h_s);
            let back_v = m.mint((*back).min(v - v / 4));
            let outs = vec![(None, TransparentAddress::PublicKeyHash(hash20(&m.seed, 0x6d)), v / 4), (Some((a, Slot::Default)), m.addr(a, Slot::Default), back_v)];
            let s_tix = new_ttx(m, vec![key], outs, resolve_expiry(*expiry, tip, mined_at), false);
            tell(h, m, st, s_tix, Api::Full, mined_at, step)?;
            check_coins(ctx, h, m, st, step)?;
            // a listing of unspent outputs does not report an output that a mined transaction spends
            let api = if *spend_mined { Api::Full } else { *recv_api };
            tell(h, m, st, t_tix, api, Some(h_t), step)?;
            if m.ttxs[s_tix].told && m.ttxs[t_tix].told {
                st.l_spend_before_recv = true;
            }
        }
        COp::RecvThenReorg { recv, extra, n, remine } => {
            advance(h, 1, true, step)?;
            let mut recv = recv.clone();
            recv.depth = 0;
            recv.how = match recv.how {
                RecvHow::Put { .. } => RecvHow::Put { known_height: true },
                RecvHow::Full { .. } => RecvHow::Full { mined: true },
                RecvHow::Both { first, .. } => RecvHow::Both { first, mined: true },
                other => other,
            };
            let tix = do_recv(h, m, st, &recv, step)?;
            check_coins(ctx, h, m, st, step)?;
            apply_hist(h, m, st, &Op::Truncate { depth: 1 + *extra, reorg: true }, step)?;
            check_coins(ctx, h, m, st, step)?;
            advance(h, *n as u16, true, step)?;
            if let (Some(tix), Some((api, depth))) = (tix, remine) {
                check_coins(ctx, h, m, st, step)?;
                do_remine(h, m, st, 0, *api, *depth, Some(tix), step)?;
            }
        }
        COp::SpendThenReorg { spend, extra, n, remine } => {
            advance(h, 1, true, step)?;
            let mut spend = spend.clone();
            spend.how = SpendHow::Mined { depth: 0 };
            let tix = do_spend(h, m, st, &spend, step)?;
            check_coins(ctx, h, m, st, step)?;
            apply_hist(h, m, st, &Op::Truncate { depth: 1 + *extra, reorg: true }, step)?;
            check_coins(ctx, h, m, st, step)?;
            advance(h, *n as u16, true, step)?;
            if let (Some(tix), Some(depth)) = (tix, remine) {
                check_coins(ctx, h, m, st, step)?;
                do_remine(h, m, st, 0, Api::Full, *depth, Some(tix), step)?;
            }
        }
    }
    Ok(())
}

// ---------------------------------------------------------------------------------------------
// Case interpreter
// ---------------------------------------------------------------------------------------------

pub fn run_case(ctx: &Ctx, case: &TCase) -> CaseResult {
    match run_case_inner(ctx, case) {
        // C01 says nothing about scans succeeding; the known findings listed under C06 end a history (counted)
        Err(f) if f.signature == SIG_TREE_CONFLICT => Ok(Obs::trivial().label("excluded-known:tree-conflict-after-rewind")),
        Err(f) if f.signature == SIG_STALE_SUBTREE_ROOT => Ok(Obs::trivial().label("excluded-known:stale-subtree-root-after-reorg")),
        Err(f) if f.signature == SIG_STALE_CHECKPOINT => Ok(Obs::trivial().label("excluded-known:chain-state-truncation-keeps-checkpoints")),
        r => r,
    }
}

type AcctBalances = Vec<((u64, u64, u64, u64, u64), (u64, u64, u64, u64, u64), BTreeMap<String, (u64, u64, u64, u64, u64)>)>;

fn all_balances(w: &SimWallet, tip: u32, zero_conf: bool) -> Result<Option<AcctBalances>, Fail> {
    let db = w.tdb.db();
    let pol = policy(zero_conf);
    let Some(s) = db.get_wallet_summary(pol).map_err(|e| Fail::new("summary-error", format!("final: {e:?}")))? else { return Ok(None) };
    let mut out = vec![];
    for id in &w.accounts {
        let ab = s.account_balances().get(id).ok_or_else(|| Fail::new("summary-without-account", "final: account missing from the summary"))?;
        let map = db.get_transparent_balances(*id, TargetHeight::from(tip + 1), pol).map_err(|e| Fail::new("transparent-balances-error", format!("final: {e:?}")))?;
        let per: BTreeMap<String, _> = map.iter().map(|(a, (_, b))| (format!("{a:?}"), parts(b))).filter(|(_, p)| *p != (0, 0, 0, 0, 0)).collect();
        out.push((parts(ab.unshielded_regular_balance()), parts(ab.unshielded_coinbase_balance()), per));
    }
    Ok(Some(out))
}

fn run_case_inner(ctx: &Ctx, case: &TCase) -> CaseResult {
    let mut h = Hist::new(&case.base.world, false);
    for (i, op) in case.base.ops.iter().enumerate() {
        h.apply(op, &step_name(i, op))?;
    }
    // at least one block, and the wallet knows the tip
    h.apply(&Op::AddEmpty(1 + case.seed_advance as u16), "seed-advance")?;
    h.ensure_tip_known("seed-advance")?;
    let mut m = Model::new(&h.world);
    let mut st = Stats::default();
    check_coins(ctx, &h, &m, &mut st, "start")?;
    for (i, x) in case.xops.iter().enumerate() {
        let step = {
            let s = format!("xop#{i} {x:?}");
            if s.len() > 300 {
                format!("{}…", s.chars().take(300).collect::<String>())
            } else {
                s
            }
        };
        match x {
            XOp::Coin(op) => do_cop(ctx, &mut h, &mut m, &mut st, op, &step)?,
            XOp::Hist(op) => apply_hist(&mut h, &mut m, &mut st, op, &step)?,
            XOp::Advance { n, scan } => advance(&mut h, *n as u16, *scan, &step)?,
        }
        check_coins(ctx, &h, &m, &mut st, &step)?;
    }

    // Settle (every other case): whatever can still be mined is reported mined at the tip, then the tip moves past the
    // expiry of what is left, so that the final state is determined and can be compared with a fresh wallet.
    if case.seed_advance % 2 == 0 {
        if let Some(tip) = h.w.chain_height().filter(|t| *t > h.base()) {
            for tix in 0..m.ttxs.len() {
                if let Some(hh) = remine_height(&h, &m, tix, tip, 0) {
                    let api = if m.ttxs[tix].wallet_has_full { Api::Full } else { Api::Put };
                    tell(&mut h, &mut m, &mut st, tix, api, Some(hh), "settle")?;
                }
            }
            check_coins(ctx, &h, &m, &mut st, "settle: every mineable transaction reported mined at the tip")?;
            if m.ttxs.iter().any(|t| t.told && t.mined.is_none() && tx_unexpired(t, tip + 1) && (t.expiry != 0 || !t.wallet_has_full)) {
                advance(&mut h, 47, false, "settle-advance")?;
                check_coins(ctx, &h, &m, &mut st, "settle: 47 more blocks")?;
            }
        }
    }

    // Final: scan every remaining gap, then compare with a fresh wallet that is told the mined coin transactions in order.
    h.scan_all(case.base.final_chunk)?;
    check_coins(ctx, &h, &m, &mut st, "final")?;
    let tip = h.chain.tip_height();
    if h.w.chain_height() == Some(tip) && !m.coins.is_empty() {
        let determined = (0..m.coins.len()).all(|ci| classify(&m, ci, tip) != Class::May)
            && m.coins.iter().all(|c| c.spenders.iter().all(|s| m.ttxs[*s].mined.is_some() || !tx_unexpired(&m.ttxs[*s], tip + 1)));
        if !determined {
            st.fresh_skipped_undetermined += 1;
        } else {
            let mut fresh = SimWallet::new(&h.world, &h.chain, false);
            fresh.update_tip(tip).map_err(|e| Fail::new("update-tip-failed", format!("fresh: {e}")))?;
            let base = h.base();
            let mut at = base + 1;
            while at <= tip {
                let len = 1000.min(tip + 1 - at);
                fresh.scan(&h.world, &h.chain, at, len).map_err(|e| Fail::new("fresh-scan-failed", format!("fresh wallet scan failed: {e:?}")))?;
                at += len;
            }
            let mut order: Vec<(u32, usize)> = m.ttxs.iter().enumerate().filter_map(|(i, t)| t.mined.map(|hh| (hh, i))).collect();
            order.sort();
            let net = h.world.net;
            for (hh, i) in order {
                let t = &m.ttxs[i];
                if t.wallet_has_full {
                    decrypt_and_store_transaction(&net, fresh.db(), &t.tx, Some(BlockHeight::from_u32(hh))).map_err(|e| Fail::new("fresh-store-failed", format!("fresh wallet: decrypt_and_store_transaction failed: {e:?}")))?;
                } else {
                    for (k, (owner, addr, v)) in t.outs.iter().enumerate() {
                        let Some((a, _)) = owner else { continue };
                        if !m.coin_index.contains_key(&(t.txid, k as u32)) {
                            continue;
                        }
                        let o = WalletTransparentOutput::from_parts(OutPoint::new(t.txid, k as u32), TxOut::new(Zatoshis::from_u64(*v).expect("value"), addr.script().into()), Some(BlockHeight::from_u32(hh)), Some(fresh.accounts[*a as usize]), None, None)
                            .expect("P2PKH script has a recipient address");
                        fresh.db().put_received_transparent_utxo(&o).map_err(|e| Fail::new("fresh-put-failed", format!("fresh wallet: put_received_transparent_utxo failed: {e:?}")))?;
                    }
                }
            }
            for zero_conf in [true, false] {
                let a = all_balances(&h.w, tip, zero_conf)?;
                let b = all_balances(&fresh, tip, zero_conf)?;
                if a != b {
                    vfail!(
                        "transparent-balance-differs-from-fresh-wallet",
                        "after scanning everything (tip {tip}, no optional coin left), the unshielded balances (regular, coinbase, per address; policy zero-conf={zero_conf}) differ from those of a fresh wallet told the mined coin transactions in order: history wallet {a:?}, fresh wallet {b:?}"
                    );
                }
            }
            st.fresh_compared += 1;
        }
    }
    if std::env::var("VERIF_C01T_DEBUG").is_ok() && !st.errors.is_empty() {
        eprintln!("[c01t-debug] rejected coin ops {:?}", st.errors);
    }

    let nontrivial = st.s_counted > 0 && st.s_excluded > 0;
    Ok(Obs::new(nontrivial)
        .label_if(!m.coins.is_empty(), "has-coin")
        .label_if(st.s_counted > 0, "coin-counted")
        .label_if(st.s_excluded > 0, "coin-excluded")
        .label_if(st.l_unmined_never, "coin-unmined")
        .label_if(st.l_unknown_expiry_unmined, "coin-unmined-with-expiry-unknown-to-wallet")
        .label_if(st.l_orphaned, "coin-orphaned-by-rewind")
        .label_if(st.l_orphan_expired, "coin-orphaned-and-expired")
        .label_if(st.l_expired, "coin-expired")
        .label_if(st.l_spent_mined, "coin-spent-by-mined-tx")
        .label_if(st.l_spent_mempool, "coin-spent-by-mempool-tx")
        .label_if(st.l_spent_stored, "coin-spent-by-stored-tx")
        .label_if(st.l_spent_orphan_spender, "coin-spent-by-orphaned-unexpired-tx")
        .label_if(st.l_spender_expired, "coin-counts-again-after-spender-expired")
        .label_if(st.l_two_accounts, "coins-of-two-accounts")
        .label_if(st.l_other_account_zero, "coin-of-other-account")
        .label_if(st.l_cb_immature, "coinbase-immature")
        .label_if(st.l_cb_mature, "coinbase-mature")
        .label_if(st.l_cb_orphaned, "coinbase-orphaned-by-rewind")
        .label_if(st.l_cb_unknown_to_wallet, "coinbase-known-only-from-utxo-listing")
        .label_if(st.l_dust, "coin-dust")
        .label_if(st.l_at_threshold, "coin-value-5000")
        .label_if(st.l_above_threshold, "coin-value-5001")
        .label_if(st.l_zero, "coin-value-0")
        .label_if(st.l_huge, "coin-huge")
        .label_if(st.l_both_apis, "coin-told-through-both-apis")
        .label_if(st.l_remined, "coin-tx-mined-again-after-rewind")
        .label_if(st.l_underconfirmed_p2, "coin-underconfirmed-for-second-policy")
        .label_if(st.l_mined_scanned, "coin-mined-at-scanned-height")
        .label_if(st.l_mined_unscanned, "coin-mined-at-unscanned-height")
        .label_if(st.l_above_tip, "coin-mined-above-wallet-tip")
        .label_if(st.l_nobody, "output-to-nobodys-address")
        .label_if(st.l_spend_before_recv, "spender-told-before-coin")
        .label_if(st.l_repeat_without_height, "mined-tx-reported-again-without-height")
        .label_if(st.rewinds_unmining_coin_tx > 0, "rewind-unmines-coin-tx")
        .label_if(st.fresh_compared > 0, "compared-with-fresh-wallet")
        .label_if(st.rejected > 0, "coin-op-rejected-by-wallet")
        .label_if(st.s_may_counted > 0, "observation:optional-coin-counted")
        .label_if(st.s_may_not_counted > 0, "observation:optional-coin-not-counted")
        .label_if(st.obs_orphaned_coinbase_counted, "observation:unmined-coinbase-coin-counted-as-pending")
        .label_if(st.obs_per_address_sum_differs, "observation:per-address-sum-differs-from-summary")
        .label_if(st.obs_per_address_immature_spendable, "observation:per-address-api-reports-immature-coinbase-as-spendable")
        .label_if(st.obs_dust_group > 0, "observation:transparent-dust-threshold-applied-to-summed-group")
        .count(OBS_DUST_GROUP, st.obs_dust_group)
        .label_if(case.base.world.nu6_3_offset.is_some(), "ironwood-world")
        .label_if(h.flags.truncations > 0, "rewind")
        .count("balance-checks", st.checks)
        .count("summaries-compared", st.summaries)
        .count("states-without-summary", st.no_summary)
        .count("coins-received", st.coins_received)
        .count("coin-spenders", st.spends)
        .count("states-with-counted-coin", st.s_counted)
        .count("states-with-excluded-coin", st.s_excluded)
        .count("states-with-optional-coin", st.s_may)
        .count("rewinds-unmining-coin-tx", st.rewinds_unmining_coin_tx)
        .count("fresh-wallet-comparisons", st.fresh_compared)
        .count("fresh-wallet-skipped-undetermined", st.fresh_skipped_undetermined)
        .count("coin-ops-rejected", st.rejected)
        .count("puts-to-nobodys-address-refused", st.rejected_unknown_addr))
}

pub fn run(ctx: &Arc<Ctx>) {
    ctx.assume("transparent coins: the coin model is the sequence of facts handed to the wallet (a coin exists once put_received_transparent_utxo / decrypt_and_store_transaction accepted it; its transaction is mined at the last height the wallet was told until a rewind goes below that height - truncate_to_height docs; a mined height of None never clears a recorded height); addresses are derived from the accounts' UFVKs; an output at an address no account owns never counts");
    ctx.assume("transparent expiry (tx_unexpired_condition rustdoc): an un-mined transaction is unexpired at target = tip + 1 iff expiry = 0 or expiry >= target when the wallet has the full transaction, else iff first observed height + 40 >= target; a coin spent by a mined or an unexpired un-mined transaction does not count (repository test transparent_balance_across_shielding)");
    ctx.assume("WEAKER STATEMENT where the documentation leaves a choice: a coin of an un-mined, unexpired transaction (never mined, orphaned by a rewind, or reported mined above the wallet's tip) MAY or MAY NOT count (C01: 'in blocks of the current chain' vs unshielded_balance rustdoc: value without the required confirmations is pending); if it counts it is uneconomic when <= 5000, never spendable under a policy without zero-conf, never spendable when the wallet knows it is coinbase; the wallet's choices are counted as observation:* labels");
    ctx.assume("split (Balance / unshielded_balance rustdoc, repository tests transparent_balance_spendability, transparent_coinbase_balance_split, transparent_coinbase_balance_dust): value <= 5000 is uneconomic_value only; a mined coin is spendable iff tip + 1 - mined_height >= required confirmations (0 under ConfirmationsPolicy::MIN, 3 under the second policy) and, for an output the wallet knows to be coinbase, tip + 1 - mined_height >= 100; else value_pending_spendability; locked and pending-change value are zero; get_transparent_balances is only held to value conservation (total, uneconomic) per address");
    ctx.assume("the total transparent value of one case stays below MAX_MONEY / 4 (a chain cannot hold more; AccountBalance rejects sums above MAX_MONEY)");
    ctx.extra(
        "rule:transparent-balances",
        serde_json::json!(
            "proptest cases: a chainsim wallet history (arb_case_opts(10, 6, true): world with 1-3 accounts, blocks, scans in any order, tip updates, rewinds with/without reorg, \
             re-mined shielded transactions) + 1-8 empty blocks, then 8-25 ops: 60 % coin ops (Recv: put_received_transparent_utxo with a height of the current branch or None / \
             decrypt_and_store_transaction mined or mempool / both APIs in either order / coinbase (full tx, optionally also listed; or listed only), 1-2 outputs of value 0, 1..4999, \
             5000, 5001, ordinary, MAX_MONEY/64, MAX_MONEY (clipped to a per-case budget) to the default receiver / external index 1, 2 / internal index 0 of this or the next account or to \
             nobody's address, mined 0-59 below the wallet tip, expiry 0 / tip+1+k (k < 45) / stale; Spend of 1-2 coins by a mined / mempool / stored transaction, optional output back to the \
             wallet; Remine of an un-mined transaction through either API; Repeat of a known transaction through either API; RecvThenReorg and SpendThenReorg (block scanned, transaction \
             mined in it, reorganising rewind by 1-2, 1-3 new blocks, optionally mined again); CoinbaseMatured (coinbase at the tip, then 90-110 blocks); RecvAboveTip (a listing ahead of \
             the wallet by 1-3 blocks)), 25 % history ops (arb_op_opts incl. truncate_to_chain_state and ReMine), 15 % Advance (1-6, 35-45 or 95-105 empty blocks, scanned or not). After \
             every op (and inside the composite ones) both confirmation policies are queried for every account and address. Every other case ends with a settle phase (everything mineable is \
             reported mined, 47 blocks pass), then all gaps are scanned and a determined final state is compared with a fresh wallet. Non-trivial = some checked state had a coin that must \
             count and some checked state had a coin that must not (spent / expired); distinct = hash of the case."
        ),
    );
    let tier = ctx.tier;
    ctx.run_prop_with(SUB, arb_tcase, tier.pick(600, 9_000), 80, |c| run_case(ctx, c));
    // generator health: minima at no more than half the measured fractions (quick tier, seeds 1..5)
    for (label, min) in [
        ("has-coin", 0.45),
        ("coin-counted", 0.45),
        ("coin-excluded", 0.40),
        ("coin-unmined", 0.25),
        ("coin-orphaned-by-rewind", 0.30),
        ("coin-expired", 0.20),
        ("coin-spent-by-mined-tx", 0.30),
        ("coin-spent-by-mempool-tx", 0.20),
        ("coin-spent-by-stored-tx", 0.10),
        ("spender-told-before-coin", 0.18),
        ("mined-tx-reported-again-without-height", 0.05),
        ("coin-spent-by-orphaned-unexpired-tx", 0.20),
        ("coin-counts-again-after-spender-expired", 0.12),
        ("coin-of-other-account", 0.25),
        ("coinbase-immature", 0.30),
        ("coinbase-mature", 0.18),
        ("coin-dust", 0.18),
        ("coin-value-5000", 0.15),
        ("coin-told-through-both-apis", 0.25),
        ("coin-tx-mined-again-after-rewind", 0.12),
        ("coin-mined-at-unscanned-height", 0.30),
        ("rewind-unmines-coin-tx", 0.30),
        ("compared-with-fresh-wallet", 0.08),
    ] {
        ctx.require_label_fraction(SUB, label, min);
    }
}

/// only so that this file also builds when cargo treats it as a binary of its own (it is a module of c01.rs)
fn main() {}

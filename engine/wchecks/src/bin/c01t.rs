//! TEMPORARY calibration binary for the C01 sub-check "transparent-balances" (delete before finishing).
use vcore::Ctx;

#[path = "c01_transparent.rs"]
mod transparent;

fn main() {
    chainsim::init_sqlite();
    let ctx = Ctx::from_args("C01", "exploration");
    ctx.set_rule("temporary");
    transparent::run(&ctx);
    ctx.finish();
}
